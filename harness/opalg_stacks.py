"""OpAlg engine, implementation-only oracle for the parts of the calculus that have no Lean model:
stacks (VerticalStack / DiagonalStack / DiagonalReplicated), freeze, Function.slice / join, and the
closed-form arithmetic of CircularConvolve and Convolve.

For every derived object the dense matrix (obtained on basis vectors) is compared with the same
construction carried out in numpy on the operands' dense matrices; the adjoint / T / H / gram_op
matrices with the (conjugate) transposes; declared shapes and dtypes with what evaluation returns.
Each case is returned as (name, failure-dict-or-None)."""

from __future__ import annotations

import numpy as np

import common
import opalg_gen as G
from opalg_trees import vals


KNOWN_NEG_INDEX = "freeze-slice-negative-index"
KNOWN_DREP_OA = "diagonal-replicated-output-axis"
KNOWN_CIRC_RC = "circconv-closed-form-output-dtype"


def circ_rc_still_fails(env):
    """witness: 2.0 * CircularConvolve(complex h, (4,), input_dtype=float64) declares float64 output and drops Im"""
    jnp, linop = env.jnp, env.linop
    A = linop.CircularConvolve(jnp.asarray([1 + 1j, 2 - 1j, 0, 0.5j], dtype="complex128"), (4,), input_dtype=np.dtype("float64"))
    x = jnp.asarray([1.0, 2.0, -1.0, 0.5], dtype="float64")
    try:
        return not np.allclose(np.asarray((2.0 * A)(x)), 2.0 * np.asarray(A(x)))
    except Exception:  # noqa: BLE001
        return True


def drep_oa_still_fails(env):
    """witness: DiagonalReplicated(A: (3,)->(2,), 4, output_axis=-1) declares (4, 2) and returns (2, 4)"""
    jnp, linop = env.jnp, env.linop
    A = linop.MatrixOperator(jnp.ones((2, 3), dtype="float64"))
    try:
        R = linop.DiagonalReplicated(A, 4, input_axis=0, output_axis=-1, map_type="vmap")
        y = R(jnp.ones(R.input_shape, dtype="float64"))
    except Exception:  # noqa: BLE001
        return False
    return tuple(R.output_shape) != tuple(y.shape)


def neg_index_still_fails(env):
    """witness of the known finding: Operator.freeze(-1, v) neither rejects nor freezes"""
    from scico import operator as sop

    jnp = env.jnp
    Op = sop.Operator(input_shape=((2,), (3,)), output_shape=(2,), eval_fn=lambda x: x[0] + x[1][:2], input_dtype=np.dtype("float64"), output_dtype=np.dtype("float64"))
    try:
        F = Op.freeze(-1, jnp.ones((3,), dtype="float64"))
    except Exception:  # noqa: BLE001
        return False
    return G.lst(F.input_shape) != [2]


def _flat(env, y):
    return env.flat(y)


def dense(env, o):
    n = int(o.input_size)
    cols = []
    for j in range(n):
        x = np.zeros(n, dtype=np.complex128)
        x[j] = 1
        cols.append(_flat(env, o(env.to_array(x, G.lst(o.input_shape), np.dtype(o.input_dtype).name))))
    return np.stack(cols, axis=1) if cols else np.zeros((int(o.output_size), 0), dtype=np.complex128)


def dense_adj(env, o):
    m = int(o.output_size)
    cols = []
    for i in range(m):
        y = np.zeros(m, dtype=np.complex128)
        y[i] = 1
        cols.append(_flat(env, o.adj(env.to_array(y, G.lst(o.output_shape), np.dtype(o.output_dtype).name))))
    return np.stack(cols, axis=1)


def close(a, b, tol=1e-9):
    a, b = np.asarray(a), np.asarray(b)
    return a.shape == b.shape and G.vec_close(a.ravel(), b.ravel(), tol, max(4, a.size))


def check_op(env, o, want, what, linear=True, tol=1e-9):
    """declared metadata vs observed, dense matrix vs `want`, adjoint family vs (conjugate) transposes
    (an exception raised by the object under test is a failure of the property, not of the harness)"""
    try:
        return _check_op(env, o() if callable(o) and not hasattr(o, "input_shape") else o, want, what, linear, tol)
    except common.Infra:
        raise
    except Exception as ex:  # noqa: BLE001
        return {"raised": repr(ex)[:300], "what": what}


def _check_op(env, o, want, what, linear=True, tol=1e-9):
    fails = {}
    n, m = int(o.input_size), int(o.output_size)
    if list(o.matrix_shape) != [G.size(G.lst(o.output_shape)), G.size(G.lst(o.input_shape))]:
        fails["matrix_shape"] = [list(o.matrix_shape), G.lst(o.output_shape), G.lst(o.input_shape)]
    x = vals(np.random.Generator(np.random.PCG64(5)), (n,), G.is_cplx(np.dtype(o.input_dtype).name))
    try:
        y = o(env.to_array(x, G.lst(o.input_shape), np.dtype(o.input_dtype).name))
    except Exception as ex:  # noqa: BLE001
        return {"evaluation_raised": repr(ex)[:200], "what": what}
    if G.lst(y.shape) != G.lst(o.output_shape):
        fails["shape"] = {"declared": G.lst(o.output_shape), "returned": G.lst(y.shape)}
    if np.dtype(y.dtype) != np.dtype(o.output_dtype):
        fails["dtype"] = {"declared": np.dtype(o.output_dtype).name, "returned": np.dtype(y.dtype).name}
    if fails:
        fails["what"] = what
        return fails
    if not linear:
        if not close(_flat(env, y), want(x), tol):
            return {"value": {"x": [str(v) for v in x], "returned": [str(v) for v in _flat(env, y)], "construction": [str(v) for v in want(x)]}, "what": what}
        return None
    D = dense(env, o)
    if not close(D, want, tol):
        return {"value": {"operator_matrix": np.round(D, 6).tolist().__repr__()[:400], "same_construction_on_matrices": np.round(want, 6).tolist().__repr__()[:400]}, "what": what}
    if hasattr(o, "adj"):
        for nm, f, ref in (
            ("adj", lambda: dense_adj(env, o), want.conj().T),
            ("H", lambda: dense(env, o.H), want.conj().T),
            ("T", lambda: dense(env, o.T), want.T),
            ("conj", lambda: dense(env, o.conj()), want.conj()),
            ("gram_op", lambda: dense(env, o.gram_op), want.conj().T @ want),
        ):
            try:
                M = f()
            except Exception as ex:  # noqa: BLE001
                return {nm + "_raised": repr(ex)[:200], "what": what}
            if not close(M, ref, tol):
                return {nm: {"operator_matrix": repr(np.round(M, 6).tolist())[:400], "expected": repr(np.round(ref, 6).tolist())[:400]}, "what": what}
    return None


def cases(env, rng, thorough=False, parts=("stacks", "freeze", "circ", "conv")):
    """generator of (name, key, failure)"""
    jnp, linop = env.jnp, env.linop
    from scico import operator as sop
    from scico.function import Function

    def mat(m, n, cplx):
        A = vals(rng, (m, n), cplx)
        return linop.MatrixOperator(jnp.asarray(A, dtype="complex128" if cplx else "float64")), np.asarray(A, dtype=np.complex128)

    # ---- stacks -------------------------------------------------------------------------
    for cplx in ((False, True) if "stacks" in parts else ()):
        for outs in ([2, 2], [2, 3], [1, 1, 1], [3, 1, 2]):
            for co in (True, False):
                n = 3
                ops, Ms = zip(*[mat(m, n, cplx) for m in outs])
                yield (f"VerticalStack{outs} collapse={co} c={cplx}", ("vstack", tuple(outs), co, cplx),
                       check_op(env, lambda: linop.VerticalStack(list(ops), collapse_output=co), np.vstack(Ms), "VerticalStack"))
        for shp in ([(2, 3), (2, 3)], [(2, 3), (3, 3)], [(2, 2), (2, 3)], [(1, 2), (2, 1), (2, 2)]):
            for ci in (True, False):
                for co in (True, False):
                    ops, Ms = zip(*[mat(m, n, cplx) for m, n in shp])
                    try:
                        Dg = linop.DiagonalStack(list(ops), collapse_input=ci, collapse_output=co)
                    except Exception as ex:  # noqa: BLE001
                        yield (f"DiagonalStack{shp}", ("dstack", tuple(shp), ci, co, cplx), {"constructor_raised": repr(ex)[:200]})
                        continue
                    W = np.zeros((sum(m for m, _ in shp), sum(n for _, n in shp)), dtype=np.complex128)
                    r = c = 0
                    for (m, n), M in zip(shp, Ms):
                        W[r : r + m, c : c + n] = M
                        r += m
                        c += n
                    yield (f"DiagonalStack{shp} ci={ci} co={co} c={cplx}", ("dstack", tuple(shp), ci, co, cplx), check_op(env, Dg, W, "DiagonalStack"))
    # stacks of operators whose dtypes differ are rejected (ValueError); an accepted one declares the dtypes of
    # its first operator, so evaluating it shows declared != returned (the failing input of the property)
    if "stacks" in parts:
        def gen(indt, outdt, m=2, n=3):
            Gm = vals(rng, (m, n), G.is_cplx(outdt))
            Gj = jnp.asarray(Gm, dtype=outdt)
            return linop.LinearOperator(input_shape=(n,), output_shape=(m,), eval_fn=lambda x, Gj=Gj: Gj @ x,
                                        adj_fn=lambda y, Gj=Gj, indt=indt: (Gj.conj().T @ y).astype(indt) if G.is_cplx(indt) else (Gj.conj().T @ y).real.astype(indt),
                                        input_dtype=np.dtype(indt), output_dtype=np.dtype(outdt))

        mixes = [("float64", "float64", "float64", "complex128"), ("float64", "complex128", "float64", "float64"),
                 ("float32", "float32", "float32", "float64"), ("float64", "float64", "complex128", "complex128"),
                 ("complex128", "complex128", "float64", "complex128"), ("float64", "float64", "float32", "float64")]
        for ia, oa, ib, ob in mixes:
            for kind in ("VerticalStack", "DiagonalStack"):
                for co in (True, False):
                    ops = [gen(ia, oa), gen(ib, ob)]
                    name = f"{kind} mixed dtypes {ia}>{oa} | {ib}>{ob} collapse={co}"
                    key = ("mixdt", kind, ia, oa, ib, ob, co)
                    try:
                        S_ = linop.VerticalStack(ops, collapse_output=co) if kind == "VerticalStack" else linop.DiagonalStack(ops, collapse_input=co, collapse_output=co)
                    except ValueError:
                        yield (name, key, None)
                        continue
                    except Exception as ex:  # noqa: BLE001
                        yield (name, key, {"constructor_raised": repr(ex)[:200], "expected": "ValueError", "what": kind})
                        continue
                    f = {"accepted_mixed_dtypes": {"operands": [[ia, oa], [ib, ob]], "declared": [np.dtype(S_.input_dtype).name, np.dtype(S_.output_dtype).name]}, "what": kind}
                    try:
                        x = env.to_array(np.ones(int(S_.input_size)), G.lst(S_.input_shape), np.dtype(S_.input_dtype).name)
                        y = S_(x)
                        f["evaluation"] = {"x": "ones(input_shape, input_dtype)", "declared_output_dtype": np.dtype(S_.output_dtype).name, "returned_dtype": str(y.dtype)}
                    except Exception as ex:  # noqa: BLE001
                        f["evaluation"] = {"x": "ones(input_shape, input_dtype)", "raised": repr(ex)[:200]}
                    yield (name, key, f)
    # DiagonalReplicated: every (input_axis, output_axis) for a 2-d -> 1-d and a 2-d -> 2-d operator
    for cplx in ((False, True) if "stacks" in parts else ()):
        # (the axis grid is swept at random by drep_tie with the Lean model; quick keeps two shape pairs here for the
        #  derived T / H / conj / gram_op of a replicated operator)
        for insh, outsh in ((((2, 3), (2,)), ((2, 2), (3, 2)), ((3,), (2,))) if thorough else (((2, 3), (2,)), ((3,), (2,)))):
            nin, nout = int(np.prod(insh)), int(np.prod(outsh))
            Gm = vals(rng, (nout, nin), cplx).astype(np.complex128)
            Gj = jnp.asarray(Gm if cplx else Gm.real, dtype="complex128" if cplx else "float64")
            A = linop.LinearOperator(
                input_shape=insh, output_shape=outsh,
                eval_fn=lambda x, Gj=Gj, outsh=outsh: (Gj @ x.ravel()).reshape(outsh),
                adj_fn=lambda y, Gj=Gj, insh=insh: (Gj.conj().T @ y.ravel()).reshape(insh),
                input_dtype=np.dtype("complex128" if cplx else "float64"), output_dtype=np.dtype("complex128" if cplx else "float64"),
            )
            for rep in ((2, 3) if thorough else (2,)):
                for ia in list(range(-len(insh) - 1, len(insh) + 1)):
                    for oa in [None] + list(range(0, len(outsh) + 1)):
                        ian0 = ia if ia >= 0 else len(insh) + 1 + ia
                        if ian0 < 0 or (oa is None and ian0 > len(outsh)):
                            continue  # no such output axis
                        try:
                            R = linop.DiagonalReplicated(A, rep, input_axis=ia, output_axis=oa, map_type="vmap")
                        except Exception as ex:  # noqa: BLE001
                            yield (f"DiagonalReplicated ia={ia} oa={oa}", ("drep", insh, outsh, rep, ia, oa, cplx), {"constructor_raised": repr(ex)[:200]})
                            continue
                        ian = ia if ia >= 0 else len(insh) + 1 + ia
                        oan = ian if oa is None else oa
                        full_in = insh[:ian] + (rep,) + insh[ian:]
                        full_out = outsh[:oan] + (rep,) + outsh[oan:]
                        W = np.zeros((int(np.prod(full_out)), int(np.prod(full_in))), dtype=np.complex128)
                        for j in range(W.shape[1]):
                            x = np.zeros(W.shape[1], dtype=np.complex128)
                            x[j] = 1
                            X = x.reshape(full_in)
                            Y = np.stack([(Gm @ np.take(X, k, axis=ian).ravel()).reshape(outsh) for k in range(rep)], axis=oan)
                            W[:, j] = Y.ravel()
                        f = None
                        if G.lst(R.output_shape) != list(full_out) or G.lst(R.input_shape) != list(full_in):
                            f = {"shape": {"declared": [G.lst(R.input_shape), G.lst(R.output_shape)], "documented": [list(full_in), list(full_out)]}, "what": "DiagonalReplicated"}
                        yield (f"DiagonalReplicated{insh}->{outsh} x{rep} ia={ia} oa={oa} c={cplx}", ("drep", insh, outsh, rep, ia, oa, cplx),
                               f or check_op(env, R, W, "DiagonalReplicated"))
    # output_axis: a negative value counts from the end (as input_axis does), a value outside [-(d+1), d] is rejected at
    # construction.  Known finding diagonal-replicated-output-axis while fixes/opalg-15 is not applied.
    for cplx in ((False,) if "stacks" in parts else ()):
        insh, outsh = (3,), (2,)
        Gm = vals(rng, (2, 3), cplx).astype(np.complex128)
        Gj = jnp.asarray(Gm.real, dtype="float64")
        A = linop.LinearOperator(input_shape=insh, output_shape=outsh, eval_fn=lambda x, Gj=Gj: Gj @ x, adj_fn=lambda y, Gj=Gj: Gj.T @ y,
                                 input_dtype=np.dtype("float64"), output_dtype=np.dtype("float64"))
        rep = 2
        for oa in (-1, -2, -3, 2):
            name, key = f"DiagonalReplicated output_axis={oa}", ("drep-oa", oa)
            oan = oa if oa >= 0 else len(outsh) + 1 + oa
            valid = 0 <= oan <= len(outsh)
            try:
                R = linop.DiagonalReplicated(A, rep, input_axis=0, output_axis=oa, map_type="vmap")
            except ValueError:
                yield (name, key, None if not valid else {"constructor_raised": "ValueError", "known_id": KNOWN_DREP_OA, "what": "DiagonalReplicated"})
                continue
            except Exception as ex:  # noqa: BLE001
                yield (name, key, {"constructor_raised": repr(ex)[:200], "what": "DiagonalReplicated"})
                continue
            if not valid:
                f = {"accepted_out_of_range_output_axis": oa, "declared_output_shape": G.lst(R.output_shape), "known_id": KNOWN_DREP_OA, "what": "DiagonalReplicated"}
                try:
                    R(jnp.ones(R.input_shape, dtype="float64"))
                except Exception as ex:  # noqa: BLE001
                    f["evaluation_on_declared_input_raised"] = repr(ex)[:160]
                yield (name, key, f)
                continue
            full_in, full_out = (rep,) + insh, outsh[:oan] + (rep,) + outsh[oan:]
            W = np.zeros((int(np.prod(full_out)), int(np.prod(full_in))), dtype=np.complex128)
            for j in range(W.shape[1]):
                x = np.zeros(W.shape[1], dtype=np.complex128)
                x[j] = 1
                X = x.reshape(full_in)
                W[:, j] = np.stack([Gm.real @ X[k] for k in range(rep)], axis=oan).ravel()
            f = None
            if G.lst(R.output_shape) != list(full_out):
                f = {"shape": {"declared_output_shape": G.lst(R.output_shape), "documented": list(full_out)}, "what": "DiagonalReplicated"}
                try:
                    f["shape"]["returned"] = G.lst(R(jnp.ones(R.input_shape, dtype="float64")).shape)
                except Exception as ex:  # noqa: BLE001
                    f["shape"]["evaluation_raised"] = repr(ex)[:160]
            f = f or check_op(env, R, W, "DiagonalReplicated")
            if f:
                f["known_id"] = KNOWN_DREP_OA
            yield (name, key, f)
    # ---- freeze, Function.slice / join -----------------------------------------------------
    for cplx in ((False, True) if "freeze" in parts else ()):
        dt = "complex128" if cplx else "float64"
        n1, n2, m = 2, 3, 2
        G1, G2 = vals(rng, (m, n1), cplx).astype(np.complex128), vals(rng, (m, n2), cplx).astype(np.complex128)
        J1, J2 = jnp.asarray(G1 if cplx else G1.real, dtype=dt), jnp.asarray(G2 if cplx else G2.real, dtype=dt)
        Op = sop.Operator(input_shape=((n1,), (n2,)), output_shape=(m,), eval_fn=lambda x: J1 @ x[0] + J2 @ x[1], input_dtype=np.dtype(dt), output_dtype=np.dtype(dt))
        v1 = vals(rng, (n1,), cplx).astype(np.complex128)
        v2 = vals(rng, (n2,), cplx).astype(np.complex128)
        try:
            yield (f"freeze(0) c={cplx}", ("freeze", 0, cplx), check_op(env, lambda: Op.freeze(0, jnp.asarray(v1 if cplx else v1.real, dtype=dt)), lambda x: G1 @ v1 + G2 @ x, "freeze", linear=False))
            yield (f"freeze(1) c={cplx}", ("freeze", 1, cplx), check_op(env, lambda: Op.freeze(1, jnp.asarray(v2 if cplx else v2.real, dtype=dt)), lambda x: G1 @ x + G2 @ v2, "freeze", linear=False))
        except Exception as ex:  # noqa: BLE001
            yield (f"freeze c={cplx}", ("freeze", cplx), {"raised": repr(ex)[:200]})
        Fn = Function(((n1,), (n2,)), output_shape=(m,), eval_fn=lambda x, y: J1 @ x + J2 @ y, input_dtypes=np.dtype(dt), output_dtype=np.dtype(dt))
        # negative indices count from the end (freeze(-1, v) = freeze(N-1, v), slice(-1, ...) = slice(N-1, ...)); an index
        # below -N is rejected.  Known finding freeze-slice-negative-index while fixes/opalg-14 is not applied.
        a1, a2 = jnp.asarray(v1 if cplx else v1.real, dtype=dt), jnp.asarray(v2 if cplx else v2.real, dtype=dt)
        for nm, key, thunk, want in (
            ("freeze(-1)", ("freeze", -1, cplx), lambda: Op.freeze(-1, a2), lambda x: G1 @ x + G2 @ v2),
            ("freeze(-2)", ("freeze", -2, cplx), lambda: Op.freeze(-2, a1), lambda x: G1 @ v1 + G2 @ x),
            ("Function.slice(-1)", ("fslice", -1, cplx), lambda: Fn.slice(-1, a1), lambda x: G1 @ v1 + G2 @ x),
            ("Function.slice(-2)", ("fslice", -2, cplx), lambda: Fn.slice(-2, a2), lambda x: G1 @ x + G2 @ v2),
        ):
            f = check_op(env, thunk, want, nm.split("(")[0], linear=False)
            if f:
                f["known_id"] = KNOWN_NEG_INDEX
                f["call"] = nm
            yield (f"{nm} c={cplx}", key, f)
        for nm, key, thunk in (("freeze(-3)", ("freeze", -3, cplx), lambda: Op.freeze(-3, a1)), ("Function.slice(-3)", ("fslice", -3, cplx), lambda: Fn.slice(-3, a1))):
            try:
                thunk()
                f = {"accepted_out_of_range_index": nm, "known_id": KNOWN_NEG_INDEX, "what": nm.split("(")[0]}
            except (ValueError, IndexError):
                f = None
            except Exception as ex:  # noqa: BLE001
                f = {"raised": repr(ex)[:200], "expected": "ValueError/IndexError", "what": nm.split("(")[0]}
            yield (f"{nm} c={cplx}", key, f)
        yield (f"Function.slice(0) c={cplx}", ("fslice", 0, cplx), check_op(env, lambda: Fn.slice(0, jnp.asarray(v2 if cplx else v2.real, dtype=dt)), lambda x: G1 @ x + G2 @ v2, "Function.slice", linear=False))
        yield (f"Function.slice(1) c={cplx}", ("fslice", 1, cplx), check_op(env, lambda: Fn.slice(1, jnp.asarray(v1 if cplx else v1.real, dtype=dt)), lambda x: G1 @ v1 + G2 @ x, "Function.slice", linear=False))
        yield (f"Function.join c={cplx}", ("fjoin", cplx), check_op(env, lambda: Fn.join(), lambda x: G1 @ x[:n1] + G2 @ x[n1:], "Function.join", linear=False))
    # ---- CircularConvolve / Convolve arithmetic -----------------------------------------------
    scal = [2.0, -0.5, 3, 1j, 2 - 1j, np.float64(2.0), np.complex128(1 + 1j)] if thorough else [2.0, 2 - 1j]
    circ_cfgs = [((4,), (4,), None), ((3,), (5,), None), ((2, 3), (3, 4), None), ((2, 2), (2, 4, 3), 2), ((2, 2, 3), (2, 4, 3), 2), ((3,), (2, 5), 1), ((2, 3), (2, 5), 1)]
    if not thorough:
        circ_cfgs = [circ_cfgs[0], circ_cfgs[4], circ_cfgs[6]]
    if "circ" not in parts:
        circ_cfgs = []
    for hs, ins, nd in circ_cfgs:
        for cplx_h in (False, True):
            hdt = "complex128" if cplx_h else "float64"
            mk = lambda: linop.CircularConvolve(jnp.asarray(vals(rng, hs, cplx_h), dtype=hdt), ins, ndims=nd, input_dtype=np.dtype(hdt))  # noqa: E731
            try:
                A, B = mk(), mk()
            except Exception as ex:  # noqa: BLE001
                continue
            DA, DB = dense(env, A), dense(env, B)
            yield (f"Circ{hs}/{ins}/{nd} A+B c={cplx_h}", ("circ+", hs, ins, nd, cplx_h), check_op(env, lambda: A + B, DA + DB, "CircularConvolve.__add__", tol=1e-8))
            yield (f"Circ{hs}/{ins}/{nd} A-B c={cplx_h}", ("circ-", hs, ins, nd, cplx_h), check_op(env, lambda: A - B, DA - DB, "CircularConvolve.__sub__", tol=1e-8))
            for c in scal:
                for nm, f, W in (("c*A", lambda: c * A, c * DA), ("A*c", lambda: A * c, c * DA), ("A/c", lambda: A / c, DA / c)):
                    yield (f"Circ{hs}/{ins}/{nd} {nm} c={c!r} ch={cplx_h}", ("circ", nm, hs, ins, nd, repr(c), cplx_h), check_op(env, f, W, "CircularConvolve " + nm, tol=1e-8))
    # (quick: one mode per seed here - the closed forms of 1-d Convolve are swept for all modes by conv_tie with the Lean model)
    conv_modes = ("full", "valid", "same") if thorough else (("full", "valid", "same")[int(rng.integers(3))],)
    # a complex filter on a REAL input space (real -> complex operator): the closed forms must keep the complex output
    # (known finding circconv-closed-form-output-dtype while fixes/opalg-17 is not applied); values only - the adjoint of a
    # real -> complex operator is only real-linear
    for hs, ins, nd in (circ_cfgs[:2] if circ_cfgs else ()):
        try:
            mkrc = lambda: linop.CircularConvolve(jnp.asarray(vals(rng, hs, True), dtype="complex128"), ins, ndims=nd, input_dtype=np.dtype("float64"))  # noqa: E731
            A, B = mkrc(), mkrc()
            DA, DB = dense(env, A), dense(env, B)
        except Exception:  # noqa: BLE001
            continue
        for nm, f, W in (("A+B", lambda: A + B, DA + DB), ("A-B", lambda: A - B, DA - DB), ("c*A", lambda: 2.0 * A, 2.0 * DA), ("A/c", lambda: A / 2.0, DA / 2.0)):
            fl = check_op(env, f, (lambda x, W=W: W @ x), "CircularConvolve " + nm + " (complex filter, real input)", linear=False, tol=1e-8)
            if fl:
                fl["known_id"] = KNOWN_CIRC_RC
                fl["operand_declares"] = [np.dtype(A.input_dtype).name, np.dtype(A.output_dtype).name]
            yield (f"Circ{hs}/{ins}/{nd} R->C {nm}", ("circ-rc", nm, hs, ins, nd), fl)
    for mode in (dict.fromkeys(conv_modes) if "conv" in parts else ()):
        for hs, ins in ((((2,), (4,)), ((3,), (3,)), ((2, 2), (3, 4))) if thorough else (((2,), (4,)), ((2, 2), (3, 4)))):
            for cplx_h in (False, True):
                hdt = "complex128" if cplx_h else "float64"
                mk = lambda: linop.Convolve(jnp.asarray(vals(rng, hs, cplx_h), dtype=hdt), ins, input_dtype=np.dtype(hdt), mode=mode)  # noqa: E731
                A, B = mk(), mk()
                DA, DB = dense(env, A), dense(env, B)
                yield (f"Conv{hs}/{ins}/{mode} A+B c={cplx_h}", ("conv+", hs, ins, mode, cplx_h), check_op(env, lambda: A + B, DA + DB, "Convolve.__add__"))
                yield (f"Conv{hs}/{ins}/{mode} A-B c={cplx_h}", ("conv-", hs, ins, mode, cplx_h), check_op(env, lambda: A - B, DA - DB, "Convolve.__sub__"))
                for c in ((2.0, 3, 2 - 1j) if cplx_h else (2.0, 3, -0.5)) if thorough else ((3, 2 - 1j) if cplx_h else (3, -0.5)):
                    for nm, f, W in (("c*A", lambda: c * A, c * DA), ("A*c", lambda: A * c, c * DA), ("A/c", lambda: A / c, DA / c)):
                        yield (f"Conv{hs}/{ins}/{mode} {nm} c={c!r} ch={cplx_h}", ("conv", nm, hs, ins, mode, repr(c), cplx_h), check_op(env, f, W, "Convolve " + nm))


# ----------------------------------------------------------------------------- stacks with a Lean model
# (Model/OpAlg.lean: vstack / dstack; theorems C05_vstack_eq_den, C05_dstack_eq_den, C12_stack_meta, C12_stack_dtypes)


def _np_stack_den(kind, es):
    Ds = [G.np_den(e) for e in es]
    if kind == "v":
        if len({D.shape[1] for D in Ds}) != 1:
            raise ValueError("shape")
        return np.vstack(Ds)
    W = np.zeros((sum(D.shape[0] for D in Ds), sum(D.shape[1] for D in Ds)), dtype=np.complex128)
    r = c = 0
    for D in Ds:
        W[r : r + D.shape[0], c : c + D.shape[1]] = D
        r += D.shape[0]
        c += D.shape[1]
    return W


def build_stack(env, case):
    from scico import operator as sop

    ops = [env.build(e) for e in case["es"]]
    mod = env.linop if case["lin"] else sop
    if case["kind"] == "v":
        return mod.VerticalStack(ops, collapse_output=case["cout"])
    return mod.DiagonalStack(ops, collapse_input=case["cin"], collapse_output=case["cout"])


def observe_stack(env, case, xs, ys):
    try:
        o = build_stack(env, case)
    except Exception as ex:  # noqa: BLE001
        return ("err", common.err_kind(ex), repr(ex)[:200])
    r = {
        "in_shape": G.lst(o.input_shape), "out_shape": G.lst(o.output_shape),
        "in_dtype": np.dtype(o.input_dtype).name, "out_dtype": np.dtype(o.output_dtype).name,
        "matrix_shape": [int(v) for v in o.matrix_shape],
    }
    ev, evdt = [], None
    for x in xs:
        try:
            y = o(env.to_array(x, r["in_shape"], r["in_dtype"]))
            ev.append(env.flat(y))
            evdt = np.dtype(y.dtype).name
            if G.lst(y.shape) != r["out_shape"]:
                evdt = "shape:" + str(G.lst(y.shape))
        except Exception as ex:  # noqa: BLE001
            ev.append(("err", common.err_kind(ex), repr(ex)[:160]))
            evdt = "err:" + common.err_kind(ex)
    ad, addt = [], None
    if case["lin"]:
        for y in ys:
            try:
                z = o.adj(env.to_array(y, r["out_shape"], r["out_dtype"]))
                ad.append(env.flat(z))
                addt = np.dtype(z.dtype).name
                if G.lst(z.shape) != r["in_shape"]:
                    addt = "shape:" + str(G.lst(z.shape))
            except Exception as ex:  # noqa: BLE001
                ad.append(("err", common.err_kind(ex), repr(ex)[:160]))
                addt = "err:" + common.err_kind(ex)
    r["eval"], r["eval_dt"], r["adj"], r["adj_dt"] = ev, evdt, ad, addt
    return ("ok", r, o)


def model_stack(om, case, xs, ys):
    try:
        r = om.call("stack", kind=case["kind"], lin=case["lin"], es=case["es"], cin=case["cin"], cout=case["cout"],
                    xs=[G.encs(x) for x in xs], ys=[G.encs(y) for y in ys])
    except common.ModelErr as ex:
        return ("err", ex.kind)
    r["eval"] = [G.decs(v) for v in r["eval"]]
    r["adj"] = [G.decs(v) for v in r["adj"]]
    return ("ok", r)


def stack_oracle(env):
    """the property on the implementation alone: declared vs observed shape/dtype/matrix_shape, plain-vs-block output
    as documented, dense matrix = vstack / block-diag of the operands' construction, adjoint = conjugate transpose;
    operands of different dtypes must be rejected"""

    def run(c):
        case = c.get("case", c)
        try:
            ops = [env.build(e) for e in case["es"]]
        except Exception:  # noqa: BLE001
            return None
        try:
            o = build_stack(env, case)
        except Exception:  # noqa: BLE001
            return None
        fails = {}
        dts = {(np.dtype(p.input_dtype).name, np.dtype(p.output_dtype).name) for p in ops}
        if len(dts) > 1:
            fails["accepted_mixed_dtypes"] = sorted(map(list, dts))
        n, m = int(o.input_size), int(o.output_size)
        if list(o.matrix_shape) != [G.size(G.lst(o.output_shape)), G.size(G.lst(o.input_shape))]:
            fails["matrix_shape"] = [list(o.matrix_shape), G.lst(o.output_shape), G.lst(o.input_shape)]
        outs = [G.lst(p.output_shape) for p in ops]
        want_plain = bool(case["cout"]) and all(s == outs[0] for s in outs) and not G.is_nested(outs[0])
        if G.is_nested(G.lst(o.output_shape)) == want_plain:
            fails["collapse_rule"] = {"operand_output_shapes": outs, "collapse_output": case["cout"], "declared": G.lst(o.output_shape)}
        indt = np.dtype(o.input_dtype).name
        lin_ok = all(not G.has_nonlin(e) for e in case["es"])
        uni = all(G.kind_uniform({"t": "add", "a": e, "b": case["es"][0]}) for e in case["es"])
        # (a hand-written adj_fn of a test leaf returns result_type(G.dtype, y.dtype): only on dtype-uniform
        #  operands is that the declared input dtype - hypothesis LeafAdjOk of C12_dtype_sound)
        dt_uni = all(G.dtype_uniform({"t": "add", "a": e, "b": case["es"][0]}) for e in case["es"])
        D = None
        if lin_ok and all(G.kind_uniform(e) or not G.uses_adjoint(e) for e in case["es"]):
            try:
                D = _np_stack_den(case["kind"], case["es"])
            except (ValueError, ZeroDivisionError):
                fails["accepted_nonconforming"] = True
        tol = max(G.tol_of(e) for e in case["es"])
        xs = [np.eye(n, dtype=np.complex128)[j] for j in range(n)] + [vals(np.random.Generator(np.random.PCG64(7)), (n,), G.is_cplx(indt)).astype(np.complex128)]
        for x in xs:
            try:
                y = o(env.to_array(x, G.lst(o.input_shape), indt))
            except Exception as ex:  # noqa: BLE001
                # an operand that evaluates an adjoint of operands of different dtypes (.T / .H / gram_op of a mixed sum):
                # the recorded finding adj-dtype-check-mixed inside an operand - not a property of the stack
                if not (not dt_uni and "Dtype error" in str(ex) and any(G.uses_adjoint(e) for e in case["es"])):
                    fails["evaluation_raised"] = {"x": [str(complex(v)) for v in x], "error": repr(ex)[:200]}
                break
            if G.lst(y.shape) != G.lst(o.output_shape):
                fails["shape"] = {"declared": G.lst(o.output_shape), "returned": G.lst(y.shape)}
            # declared dtype = returned dtype is asserted for dtype-uniform operand lists (theorems C12_dtype_sound_uniform,
            # C12_stack_dtypes); operands mixing dtypes carry the recorded findings mixed-operand-dtypes / adj-dtype-check-mixed
            # into the stack (the returned dtype is still compared exactly with the model's prediction by the tie)
            if dt_uni and np.dtype(y.dtype) != np.dtype(o.output_dtype):
                fails["dtype"] = {"declared": np.dtype(o.output_dtype).name, "returned": np.dtype(y.dtype).name}
            if D is not None and list(D.shape) == [m, n] and not G.vec_close(env.flat(y), D @ x, tol, max(4, D.size)):
                fails["value"] = {"x": [str(complex(v)) for v in x], "returned": [str(complex(v)) for v in env.flat(y)],
                                  "same_construction_on_matrices": [str(complex(v)) for v in D @ x]}
                break
        if D is not None and list(D.shape) != [m, n]:
            fails["matrix_shape_vs_construction"] = {"declared": [m, n], "construction": list(D.shape)}
        if D is not None and not fails and case["lin"] and uni:
            for i in range(m):
                yv = np.eye(m, dtype=np.complex128)[i]
                try:
                    z = o.adj(env.to_array(yv, G.lst(o.output_shape), np.dtype(o.output_dtype).name))
                except Exception as ex:  # noqa: BLE001
                    # operands of different dtypes below a generic sum: the recorded finding adj-dtype-check-mixed
                    # (LinearOperator.adj compares dtypes exactly) - not a property of the stack
                    if not (not dt_uni and "Dtype error" in str(ex)):
                        fails["adjoint_raised"] = repr(ex)[:200]
                    break
                if G.lst(z.shape) != G.lst(o.input_shape) or (dt_uni and np.dtype(z.dtype) != np.dtype(o.input_dtype)):
                    fails["adjoint_meta"] = {"declared": [G.lst(o.input_shape), indt], "returned": [G.lst(z.shape), np.dtype(z.dtype).name]}
                    break
                if not G.vec_close(env.flat(z), D.conj().T @ yv, tol, max(4, D.size)):
                    fails["adjoint_value"] = {"y": [str(complex(v)) for v in yv], "adj_returned": [str(complex(v)) for v in env.flat(z)],
                                              "conjugate_transpose_of_construction": [str(complex(v)) for v in D.conj().T @ yv]}
                    break
        return fails or None

    return run


def gen_stack_case(rng, thorough=False):
    """a stack of small random expressions: mostly accepted, with rejected variants (different input shapes,
    nested output, mixed dtypes, a non-linear operand in a linear stack, twice-nested collapse)"""
    import opalg_trees as T

    kind = "v" if rng.random() < 0.5 else "d"
    lin = bool(rng.random() < 0.8)
    N = int(rng.choice([1, 2, 2, 3, 3, 4] if thorough else [1, 2, 2, 3]))
    r = rng.random()
    one = str(rng.choice(G.DTS, p=[0.1, 0.45, 0.1, 0.35]))
    if r < 0.82:
        dt_of = lambda: one  # noqa: E731
    elif r < 0.92:
        two = str(rng.choice(G.DTS))
        dt_of = lambda: str(rng.choice([one, two]))  # noqa: E731
    else:
        dt_of = lambda: str(rng.choice(G.DTS))  # noqa: E731
    def pshape():
        opts = [s for sz in (1, 2, 3, 4, 6) for s in T.SHAPES_BY_SIZE[sz] if not G.is_nested(s)]
        if rng.random() < 0.6:
            opts = [s for s in opts if len(s) == 1]
        return list(opts[int(rng.integers(len(opts)))])

    same_out = rng.random() < 0.55
    same_in = rng.random() < 0.55
    out0, in0 = pshape(), (T.shape(rng) if kind == "v" else pshape())
    es = []
    for k in range(N):
        outsh = out0 if same_out else pshape()
        insh = in0 if (kind == "v" or same_in) else pshape()
        q = rng.random()
        if q < 0.04:
            outsh = [[1], [2]]  # nested output: rejected
        elif q < 0.08 and kind == "v":
            insh = pshape()  # (possibly) different input shape: rejected
        elif q < 0.11 and kind == "d":
            insh = [[2], [1]]  # nested input of a diagonal stack: twice-nested
        depth = int(rng.choice([1, 1, 2, 3] if thorough else [1, 1, 2]))
        es.append(T.tree(rng, depth, insh, outsh, dt_of, p_bad=0.0, allow_nonlin=(not lin) or rng.random() < 0.06))
    return {"kind": kind, "lin": lin, "es": es, "cin": bool(rng.random() < 0.6), "cout": bool(rng.random() < 0.6)}


def stack_skeleton(case):
    return (case["kind"], case["lin"], case["cin"], case["cout"]) + tuple(G.skeleton(e) for e in case["es"])


def compare_stack(impl, mod, case):
    diffs = []
    if impl[0] == "err" or mod[0] == "err":
        if impl[0] != mod[0]:
            diffs.append(("constructible", list(impl[:2]), list(mod[:2])))
        elif impl[1] != mod[1]:
            diffs.append(("error-kind", impl[1], mod[1]))
        return diffs
    a, b = impl[1], mod[1]
    for k in ("in_shape", "out_shape", "in_dtype", "out_dtype", "matrix_shape"):
        if a[k] != b[k]:
            diffs.append((k, a[k], b[k]))
    if diffs:
        return diffs
    uni = all(G.kind_uniform({"t": "add", "a": e, "b": case["es"][0]}) for e in case["es"])
    adj_inside = any(G.uses_adjoint(e) for e in case["es"])
    tol = max(G.tol_of(e) for e in case["es"])
    kk = max(4, a["matrix_shape"][0] * a["matrix_shape"][1])
    if a["eval_dt"] is not None and a["eval_dt"] != b["eval_dt"]:
        diffs.append(("eval_dt", a["eval_dt"], b["eval_dt"]))
    if uni or not adj_inside:
        for i, (u, v) in enumerate(zip(a["eval"], b["eval"])):
            if isinstance(u, tuple):
                continue
            if not G.vec_close(u, v, tol, kk):
                diffs.append((f"eval[{i}]", [complex(z) for z in u], [complex(z) for z in v]))
                break
    if case["lin"] and a["adj_dt"] is not None:
        if a["adj_dt"] != b["adj_dt"]:
            diffs.append(("adj_dt", a["adj_dt"], b["adj_dt"]))
        elif uni:
            for i, (u, v) in enumerate(zip(a["adj"], b["adj"])):
                if isinstance(u, tuple):
                    continue
                if not G.vec_close(u, v, tol, kk):
                    diffs.append((f"adj[{i}]", [complex(z) for z in u], [complex(z) for z in v]))
                    break
    return diffs


def model_tie(ctx, env, om, n, corpus_cases=()):
    """correspondence of the Lean stack model with real VerticalStack / DiagonalStack objects"""
    import json

    orc = stack_oracle(env)
    bad = 0
    cases = list(corpus_cases) + [gen_stack_case(ctx.rng, ctx.thorough) for _ in range(n)]
    for case in cases:
        impl = observe_stack(env, case, [], [])
        xs = ys = []
        if impl[0] == "ok":
            m_, n_ = impl[1]["matrix_shape"]
            xs = [vals(ctx.rng, (n_,), G.is_cplx(impl[1]["in_dtype"])).astype(np.complex128) for _ in range(2)]
            ys = [vals(ctx.rng, (m_,), G.is_cplx(impl[1]["out_dtype"])).astype(np.complex128) for _ in range(2)]
            impl = observe_stack(env, case, xs, ys)
        mod = model_stack(om, case, xs, ys)
        diffs = compare_stack(impl, mod, case)
        ctx.case({"stack": case["kind"], "lin": case["lin"], "n_ops": len(case["es"]), "skeleton": str(stack_skeleton(case))[:200]},
                 ("stack",) + stack_skeleton(case), sample_every=100)
        ctx.count("stack:" + ("V" if case["kind"] == "v" else "D") + (":lin" if case["lin"] else ":op") + (":rejected:" + impl[1] if impl[0] == "err" else ":ok"))
        if impl[0] == "ok":
            ctx.count("stack:out=" + ("block" if G.is_nested(impl[1]["out_shape"]) else "plain") + ",in=" + ("block" if G.is_nested(impl[1]["in_shape"]) else "plain"))
            ctx.count(f"stack:N={len(case['es'])}")
        if diffs:
            d = diffs[0]
            ctx.disagree("opalg.stack:" + d[0], {"case": json.loads(json.dumps(case)), "xs": [G.encs(x) for x in xs], "ys": [G.encs(y) for y in ys]},
                         json.loads(json.dumps(d[1], default=str)), json.loads(json.dumps(d[2], default=str)), oracle=orc)
            bad += 1
            if bad >= 5:
                break
        elif impl[0] == "ok":
            r = orc(case)
            if r:
                ctx.disagree("opalg.stack:property", {"case": json.loads(json.dumps(case))}, json.loads(json.dumps(r, default=str)),
                             "declared = observed; matrix = stack of the operands' constructions", oracle=orc)
                bad += 1
                if bad >= 5:
                    break


# ----------------------------------------------------------------------------- freeze / Function.slice / join with a Lean model
# (Model/OpAlg.lean: freeze, Fn.slice, Fn.join; theorems C05_freeze_slice_join, C12_freeze_meta, C12_function_meta)

BLOCK_SHAPES = [[[1], [1]], [[2], [1]], [[1], [1, 2]], [[2], [3]], [[1], [2], [1]], [[2], [1], [1, 2]], [[1], [1], [1], [2]]]


def gen_freeze_case(rng, thorough=False):
    import opalg_trees as T

    one = str(rng.choice(G.DTS, p=[0.1, 0.45, 0.1, 0.35]))
    dt_of = (lambda: one) if rng.random() < 0.85 else (lambda: str(rng.choice(G.DTS)))
    insh = BLOCK_SHAPES[int(rng.integers(len(BLOCK_SHAPES)))] if rng.random() < 0.93 else [3]
    outsh = [int(rng.integers(1, 4))]
    if rng.random() < 0.15:
        outsh = insh  # allows Diagonal / Identity on block shapes
    e = T.tree(rng, int(rng.choice([1, 1, 2, 3] if thorough else [1, 1, 2])), insh, outsh, dt_of, p_bad=0.0)
    N = len(insh) if G.is_nested(insh) else 1
    k = int(rng.integers(-N - 1, N + 1))
    p = k + N if k < 0 else k
    blk = insh[p] if (G.is_nested(insh) and 0 <= p < N) else [2]
    vsh = list(blk) if rng.random() < 0.9 else list(blk) + [1]
    vdt = one if rng.random() < 0.9 else str(rng.choice(G.DTS))
    return {"e": e, "k": k, "vsh": vsh, "vdt": vdt, "val": G.encs(vals(rng, (G.size(vsh),), G.is_cplx(vdt)))}


def observe_freeze(env, case, xs):
    try:
        o = env.build(case["e"])
        v = env.to_array(G.decs(case["val"]), case["vsh"], case["vdt"])
        F = o.freeze(case["k"], v)
    except Exception as ex:  # noqa: BLE001
        return ("err", common.err_kind(ex), repr(ex)[:200])
    return _observe_op(env, F, xs)


def _observe_op(env, F, xs):
    r = {"in_shape": G.lst(F.input_shape), "out_shape": G.lst(F.output_shape), "in_dtype": np.dtype(F.input_dtype).name,
         "out_dtype": np.dtype(F.output_dtype).name, "matrix_shape": [int(v) for v in F.matrix_shape], "cls": type(F).__name__}
    ev, evdt = [], None
    for x in xs:
        try:
            y = F(env.to_array(x, r["in_shape"], r["in_dtype"]))
            ev.append(env.flat(y))
            evdt = np.dtype(y.dtype).name
            if G.lst(y.shape) != r["out_shape"]:
                evdt = "shape:" + str(G.lst(y.shape))
        except Exception as ex:  # noqa: BLE001
            ev.append(("err", common.err_kind(ex), repr(ex)[:160]))
            evdt = "err:" + common.err_kind(ex)
    r["eval"], r["eval_dt"] = ev, evdt
    return ("ok", r, F)


def gen_fn_case(rng):
    N = int(rng.integers(1, 4))
    shapes = [[int(rng.integers(1, 4))] if rng.random() < 0.7 else [int(rng.integers(1, 3)), int(rng.integers(1, 3))] for _ in range(N)]
    one = str(rng.choice(["float64", "complex128", "float32"], p=[0.5, 0.35, 0.15]))
    dts = [one if rng.random() < 0.85 else str(rng.choice(G.DTS)) for _ in range(N)]
    gdt = "float64" if rng.random() < 0.6 else one
    m = int(rng.integers(1, 4))
    Gs = [G.encs(vals(rng, (m * G.size(s),), G.is_cplx(gdt))) for s in shapes]
    mode = "slice" if rng.random() < 0.7 else "join"
    k = int(rng.integers(-N - 1, N + 1))
    p = k + N if k < 0 else k
    rest = [i for i in range(N) if i != p] if 0 <= p < N else list(range(N - 1))
    fix = [G.encs(vals(rng, (G.size(shapes[i]),), G.is_cplx(dts[i]))) for i in rest]
    return {"shapes": shapes, "dts": dts, "gdt": gdt, "m": m, "Gs": Gs, "mode": mode, "k": k, "fix": fix,
            "fixdts": [dts[i] for i in rest], "fixsh": [shapes[i] for i in rest]}


def observe_fn(env, case, xs):
    from scico.function import Function

    jnp = env.jnp
    m = case["m"]
    Gj = [jnp.asarray((G.decs(g) if G.is_cplx(case["gdt"]) else G.decs(g).real).reshape(m, G.size(s)), dtype=case["gdt"])
          for g, s in zip(case["Gs"], case["shapes"])]
    outdt = jnp.result_type(np.dtype(case["gdt"]), *[np.dtype(d) for d in case["dts"]])
    try:
        Fn = Function(tuple(tuple(s) for s in case["shapes"]), output_shape=(m,),
                      eval_fn=lambda *a: sum(Gp @ ap.ravel() for Gp, ap in zip(Gj, a)),
                      input_dtypes=tuple(np.dtype(d) for d in case["dts"]), output_dtype=outdt)
        if case["mode"] == "slice":
            fix = [env.to_array(G.decs(v), s, d) for v, s, d in zip(case["fix"], case["fixsh"], case["fixdts"])]
            F = Fn.slice(case["k"], *fix)
        else:
            F = Fn.join()
    except Exception as ex:  # noqa: BLE001
        kind = common.err_kind(ex)
        return ("err", "other" if kind == "index" else kind, repr(ex)[:200])
    return _observe_op(env, F, xs)


def _model_call(om, op, case, xs):
    try:
        r = om.call(op, xs=[G.encs(x) for x in xs], **case)
    except common.ModelErr as ex:
        return ("err", ex.kind)
    r["eval"] = [G.decs(v) for v in r["eval"]]
    return ("ok", r)


def _compare_op(impl, mod, tol):
    diffs = []
    if impl[0] == "err" or mod[0] == "err":
        if impl[0] != mod[0]:
            diffs.append(("constructible", list(impl[:2]), list(mod[:2])))
        elif impl[1] != mod[1]:
            diffs.append(("error-kind", impl[1], mod[1]))
        return diffs
    a, b = impl[1], mod[1]
    for k in ("in_shape", "out_shape", "in_dtype", "out_dtype", "matrix_shape", "cls"):
        if a[k] != b[k]:
            diffs.append((k, a[k], b[k]))
    if diffs:
        return diffs
    if a["eval_dt"] is not None and a["eval_dt"] != b["eval_dt"]:
        diffs.append(("eval_dt", a["eval_dt"], b["eval_dt"]))
    kk = max(4, a["matrix_shape"][0] * a["matrix_shape"][1])
    for i, (u, v) in enumerate(zip(a["eval"], b["eval"])):
        if isinstance(u, tuple):
            continue
        if not G.vec_close(u, v, tol, kk):
            diffs.append((f"eval[{i}]", [complex(z) for z in u], [complex(z) for z in v]))
            break
    return diffs


def freeze_tie(ctx, env, om, n):
    """correspondence of the Lean model of freeze / Function.slice / Function.join with the real objects"""
    import json

    bad = 0
    # exhaustive small scope first: every block shape of BLOCK_SHAPES (2-4 blocks) x every index in [-N-1, N] on a
    # generic linear operator, value of the right shape
    import opalg_trees as T

    exhaustive = []
    for insh in BLOCK_SHAPES:
        N = len(insh)
        for k in range(-N - 1, N + 1):
            for dt in (("float64",) if not ctx.thorough else ("float64", "complex128")):
                e = T.leaf(ctx.rng, "lin", insh, [2], lambda: dt)
                p_ = k + N if k < 0 else k
                vsh = list(insh[p_]) if 0 <= p_ < N else [1]
                exhaustive.append({"e": e, "k": k, "vsh": vsh, "vdt": dt, "val": G.encs(vals(ctx.rng, (G.size(vsh),), G.is_cplx(dt)))})
    ctx.extra["freeze_grid"] = {"block_shapes": BLOCK_SHAPES, "indices": "[-N-1, N]", "cases": len(exhaustive), "exhaustive": True}
    for i in range(-len(exhaustive), n):
        if i < 0 or i % 2 == 0:
            case = exhaustive[i] if i < 0 else gen_freeze_case(ctx.rng, ctx.thorough)
            what, obs, op = "freeze", observe_freeze, "freeze"
            tol = G.tol_of(case["e"]) * (10 if G.has_nonlin(case["e"]) else 1)
            if G.is32(case["vdt"]):
                tol = max(tol, 2e-4)
            checkable = G.kind_uniform(case["e"]) or not G.uses_adjoint(case["e"])
            key = ("freeze", case["k"], str(case["vsh"]), case["vdt"], G.skeleton(case["e"]))
        else:
            case = gen_fn_case(ctx.rng)
            what, obs, op = "Function." + case["mode"], observe_fn, "fn"
            tol = 2e-4 if any(G.is32(d) for d in case["dts"] + [case["gdt"]]) else 1e-9
            checkable = True
            key = ("fn", case["mode"], case["k"], str(case["shapes"]), str(case["dts"]), case["gdt"], case["m"])
        impl = obs(env, case, [])
        xs = []
        if impl[0] == "ok":
            n_ = impl[1]["matrix_shape"][1]
            xs = [vals(ctx.rng, (n_,), G.is_cplx(impl[1]["in_dtype"])).astype(np.complex128) for _ in range(2)]
            impl = obs(env, case, xs)
        mcase = {k: v for k, v in case.items() if k != "fixsh"}
        mod = _model_call(om, op, mcase, xs)
        if not checkable and impl[0] == "ok" and mod[0] == "ok":
            impl[1]["eval"], mod[1]["eval"] = [], []
        diffs = _compare_op(impl, mod, tol)
        ctx.case({"what": what, "key": str(key)[:200]}, key, sample_every=150)
        ctx.count(what + (":rejected:" + impl[1] if impl[0] == "err" else ":ok"))
        if impl[0] == "ok":
            ctx.count(what + ":in=" + ("block" if G.is_nested(impl[1]["in_shape"]) else "plain"))
            if what == "freeze":
                ctx.count("freeze:index" + ("<0" if case["k"] < 0 else ">=0"))
        if diffs:
            d = diffs[0]

            def orc(c, impl=impl, d=d, what=what, case=case):
                # the property on the implementation: an accepted object evaluates on its declared input and returns the
                # declared output shape and dtype; freeze(k, v) declares the remaining blocks (k counted from the end if < 0)
                if impl[0] != "ok":
                    return None
                info, F = impl[1], impl[2]
                decl = {k: info[k] for k in ("in_shape", "out_shape", "in_dtype", "out_dtype")}
                try:
                    y = F(env.to_array(np.ones(G.size(info["in_shape"])), info["in_shape"], info["in_dtype"]))
                except Exception as ex:  # noqa: BLE001
                    return {"what": what, "declared": decl, "x": "ones(declared input)", "evaluation_raised": repr(ex)[:200]}
                if G.lst(y.shape) != info["out_shape"] or np.dtype(y.dtype).name != info["out_dtype"]:
                    return {"what": what, "declared": decl, "x": "ones(declared input)", "returned": [G.lst(y.shape), np.dtype(y.dtype).name]}
                if what == "freeze":
                    try:
                        bs = G.lst(env.build(case["e"]).input_shape)
                    except Exception:  # noqa: BLE001
                        return None
                    if G.is_nested(bs) and -len(bs) <= case["k"] < len(bs):
                        p_ = case["k"] % len(bs)
                        rest = [b for i, b in enumerate(bs) if i != p_]
                        want = rest[0] if len(rest) == 1 else rest
                        if info["in_shape"] != want:
                            return {"what": "freeze", "argnum": case["k"], "operand_input_shape": bs, "declared_input_shape": info["in_shape"],
                                    "documented_remaining_blocks": want}
                return None

            ctx.disagree("opalg." + what + ":" + d[0], {"case": json.loads(json.dumps(case))}, json.loads(json.dumps(d[1], default=str)),
                         json.loads(json.dumps(d[2], default=str)), oracle=orc)
            bad += 1
            if bad >= 5:
                break


# ----------------------------------------------------------------------------- DiagonalReplicated with a Lean model
# (Model/OpAlg.lean: drep; theorems C05_drep_blocks, C12_drep_meta)


def gen_drep_case(rng, thorough=False):
    import opalg_trees as T

    one = str(rng.choice(G.DTS, p=[0.1, 0.45, 0.1, 0.35]))
    dt_of = (lambda: one) if rng.random() < 0.9 else (lambda: str(rng.choice(G.DTS)))
    plain = [[1], [2], [3], [1, 2], [2, 1], [2, 2], [2, 3], [3, 2]]
    insh = plain[int(rng.integers(len(plain)))] if rng.random() < 0.94 else [[1], [2]]
    outsh = plain[int(rng.integers(len(plain)))] if rng.random() < 0.94 else [[2], [1]]
    lin = bool(rng.random() < 0.85)
    e = T.tree(rng, int(rng.choice([1, 1, 2])), insh, outsh, dt_of, p_bad=0.0, allow_nonlin=(not lin) or rng.random() < 0.05)
    di = len(insh)
    do = len(outsh)
    wide = rng.random() < 0.15  # out-of-range axes
    ia = int(rng.integers(-di - 2, di + 2)) if wide else int(rng.integers(-di - 1, di + 1))
    oa = None if rng.random() < 0.3 else (int(rng.integers(-do - 2, do + 2)) if wide else int(rng.integers(-do - 1, do + 1)))
    return {"e": e, "lin": lin, "N": int(rng.integers(1, 4)), "ia": ia, "oa": oa}


def observe_drep(env, case, xs, ys):
    from scico import operator as sop

    try:
        o = env.build(case["e"])
        mod = env.linop if case["lin"] else sop
        R = mod.DiagonalReplicated(o, case["N"], input_axis=case["ia"], output_axis=case["oa"], map_type="vmap")
    except Exception as ex:  # noqa: BLE001
        return ("err", common.err_kind(ex), repr(ex)[:200])
    r = _observe_op(env, R, xs)
    ad, addt = [], None
    if case["lin"]:
        for y in ys:
            try:
                z = R.adj(env.to_array(y, r[1]["out_shape"], r[1]["out_dtype"]))
                ad.append(env.flat(z))
                addt = np.dtype(z.dtype).name
                if G.lst(z.shape) != r[1]["in_shape"]:
                    addt = "shape:" + str(G.lst(z.shape))
            except Exception as ex:  # noqa: BLE001
                ad.append(("err", common.err_kind(ex), repr(ex)[:160]))
                addt = "err:" + common.err_kind(ex)
    r[1]["adj"], r[1]["adj_dt"] = ad, addt
    r[1]["cls"] = "LinearOperator" if case["lin"] else "Operator"  # stack classes override no arithmetic
    return r


def drep_tie(ctx, env, om, n):
    """correspondence of the Lean model of DiagonalReplicated with the real objects"""
    import json

    bad = 0
    for _ in range(n):
        case = gen_drep_case(ctx.rng, ctx.thorough)
        impl = observe_drep(env, case, [], [])
        xs = ys = []
        if impl[0] == "ok":
            m_, n_ = impl[1]["matrix_shape"]
            xs = [vals(ctx.rng, (n_,), G.is_cplx(impl[1]["in_dtype"])).astype(np.complex128) for _ in range(2)]
            ys = [vals(ctx.rng, (m_,), G.is_cplx(impl[1]["out_dtype"])).astype(np.complex128) for _ in range(2)]
            impl = observe_drep(env, case, xs, ys)
        try:
            r = om.call("drep", e=case["e"], lin=case["lin"], N=case["N"], ia=case["ia"], oa=case["oa"],
                        xs=[G.encs(x) for x in xs], ys=[G.encs(y) for y in ys])
            r["eval"] = [G.decs(v) for v in r["eval"]]
            r["adj"] = [G.decs(v) for v in r["adj"]]
            mod = ("ok", r)
        except common.ModelErr as ex:
            mod = ("err", ex.kind)
        e = case["e"]
        uni = G.kind_uniform(e)
        tol = G.tol_of(e) * (10 if G.has_nonlin(e) else 1)
        if impl[0] == "ok" and mod[0] == "ok" and not (uni or not G.uses_adjoint(e)):
            impl[1]["eval"], mod[1]["eval"] = [], []
        diffs = _compare_op(impl, mod, tol)
        if not diffs and impl[0] == "ok" and case["lin"]:
            a, b = impl[1], mod[1]
            if a["adj_dt"] is not None and a["adj_dt"] != b["adj_dt"]:
                diffs.append(("adj_dt", a["adj_dt"], b["adj_dt"]))
            elif uni:
                kk = max(4, a["matrix_shape"][0] * a["matrix_shape"][1])
                for i, (u, v) in enumerate(zip(a["adj"], b["adj"])):
                    if not isinstance(u, tuple) and not G.vec_close(u, v, tol, kk):
                        diffs.append((f"adj[{i}]", [complex(z) for z in u], [complex(z) for z in v]))
                        break
        key = ("drep", case["lin"], case["N"], case["ia"], case["oa"], G.skeleton(e))
        ctx.case({"what": "DiagonalReplicated", "key": str(key)[:200]}, key, sample_every=150)
        ctx.count("DiagonalReplicated" + (":rejected:" + impl[1] if impl[0] == "err" else ":ok") + ("" if case["lin"] else ":op"))
        if impl[0] == "ok":
            ctx.count("DiagonalReplicated:axes " + ("in<0 " if case["ia"] < 0 else "") + ("out=None" if case["oa"] is None else ("out<0" if case["oa"] < 0 else "out>=0")))
        if diffs:
            d = diffs[0]

            def orc(c, impl=impl, case=case):
                # the property on the implementation: declared shapes are the returned ones (forward and adjoint), and
                # H(x)_k = A(x_k) along the replicate axes
                if impl[0] != "ok":
                    return None
                info, R = impl[1], impl[2]
                decl = {k: info[k] for k in ("in_shape", "out_shape", "in_dtype", "out_dtype")}
                x0 = vals(np.random.Generator(np.random.PCG64(3)), (G.size(info["in_shape"]),), G.is_cplx(info["in_dtype"]))
                try:
                    X = env.to_array(x0, info["in_shape"], info["in_dtype"])
                    y = R(X)
                except Exception as ex:  # noqa: BLE001
                    return {"what": "DiagonalReplicated", "declared": decl, "evaluation_raised": repr(ex)[:200]}
                if G.lst(y.shape) != info["out_shape"] or np.dtype(y.dtype).name != info["out_dtype"]:
                    return {"what": "DiagonalReplicated", "declared": decl, "returned": [G.lst(y.shape), np.dtype(y.dtype).name]}
                try:
                    A = env.build(case["e"])
                    ia = case["ia"] if case["ia"] >= 0 else len(A.input_shape) + 1 + case["ia"]
                    oa = ia if case["oa"] is None else (case["oa"] if case["oa"] >= 0 else len(A.output_shape) + 1 + case["oa"])
                    want = np.stack([np.asarray(A(env.jnp.take(X, k, axis=ia))) for k in range(case["N"])], axis=oa)
                except Exception:  # noqa: BLE001
                    return None
                if want.shape != tuple(y.shape) or not G.vec_close(np.asarray(y).ravel(), want.ravel(), 1e-6, max(4, want.size)):
                    return {"what": "DiagonalReplicated", "x": [str(complex(v)) for v in x0], "returned": np.asarray(y).ravel().tolist().__repr__()[:300],
                            "blocks_A(x_k)_stacked": want.ravel().tolist().__repr__()[:300]}
                return None

            ctx.disagree("opalg.DiagonalReplicated:" + d[0], {"case": json.loads(json.dumps(case))}, json.loads(json.dumps(d[1], default=str)),
                         json.loads(json.dumps(d[2], default=str)), oracle=orc)
            bad += 1
            if bad >= 5:
                break


# ----------------------------------------------------------------------------- Convolve closed-form arithmetic with a Lean model
# (Model/OpAlg.lean: ConvOp; theorem C05_convolve_arith; convolution itself = engine LinOps' convEval)

KNOWN_CONV_JAX = "convolve-jax-scalar"


def conv_jax_still_fails(env):
    """witness: jnp.asarray(2.0) * Convolve(...) raises TypeError (result_type(input_dtype, type(scalar)))"""
    jnp, linop = env.jnp, env.linop
    A = linop.Convolve(jnp.asarray([1.0, 2.0], dtype="float64"), (4,), input_dtype=np.dtype("float64"))
    try:
        jnp.asarray(2.0, dtype="float64") * A
        return False
    except TypeError:
        return True


def conv_tie(ctx, env, om, n):
    import json

    import opalg_trees as T

    jnp, linop = env.jnp, env.linop
    modes = ["full", "valid", "same"]
    kinds = [("int", None), ("float", None), ("complex", None), ("np", "float32"), ("np", "float64"), ("np", "complex128"),
             ("jx", "float64"), ("jx", "complex64"), ("jx", "complex128"), ("arr", None), ("str", None)]
    bad = 0
    for i in range(n):
        rng = ctx.rng
        what = ["add", "sub", "mul", "div"][int(rng.integers(4))]
        dts = [str(rng.choice(["float64", "complex128", "float32"], p=[0.5, 0.35, 0.15])) for _ in range(2)]
        if rng.random() < 0.8:
            dts[1] = dts[0]

        def mk(pre, n_, k_, mode, dt):
            hdt = dt if rng.random() < 0.85 else str(rng.choice(G.DTS))
            h = vals(rng, (k_,), G.is_cplx(hdt))
            return {pre + "h": G.encs(h), pre + "n": n_, pre + "mode": mode, pre + "indt": dt, pre + "hdt": hdt}

        n_a, k_a, mode_a = int(rng.integers(1, 6)), int(rng.integers(1, 4)), modes[int(rng.integers(3))]
        case = {"what": what}
        case.update(mk("a_", n_a, k_a, mode_a, dts[0]))
        if what in ("add", "sub"):
            r = rng.random()
            n_b, k_b, mode_b = n_a, k_a, mode_a
            if r < 0.12:
                mode_b = modes[int(rng.integers(3))]
            elif r < 0.2:
                k_b = int(rng.integers(1, 4))
            elif r < 0.26:
                n_b = int(rng.integers(1, 6))
            case.update(mk("b_", n_b, k_b, mode_b, dts[1]))
        else:
            kind, kd = kinds[int(rng.integers(len(kinds)))]
            case["c"] = T.scalar(rng, kind=kind, dt=kd)
            if what == "div" and G.dec(case["c"]["v"]) == 0:
                case["c"]["v"] = G.enc(2.0)

        def build(pre):
            h = G.decs(case[pre + "h"])
            hdt = case[pre + "hdt"]
            return linop.Convolve(jnp.asarray(h if G.is_cplx(hdt) else h.real, dtype=hdt), (case[pre + "n"],),
                                  input_dtype=np.dtype(case[pre + "indt"]), mode=case[pre + "mode"])

        try:
            A = build("a_")
            if what in ("add", "sub"):
                B = build("b_")
                R = A + B if what == "add" else A - B
            else:
                c = env.scalar(case["c"])
                R = c * A if (what == "mul" and rng.random() < 0.5) else (A * c if what == "mul" else A / c)
            impl = ("ok", R)
        except Exception as ex:  # noqa: BLE001
            impl = ("err", common.err_kind(ex), repr(ex)[:160])
        xs = []
        info = None
        if impl[0] == "ok":
            R = impl[1]
            if type(R).__name__ != "Convolve":
                # not the closed form (e.g. operands of different shapes are rejected before; generic sum otherwise)
                info = {"cls": type(R).__name__}
            else:
                info = {"in_shape": G.lst(R.input_shape), "out_shape": G.lst(R.output_shape), "in_dtype": np.dtype(R.input_dtype).name,
                        "out_dtype": np.dtype(R.output_dtype).name, "h_dtype": np.dtype(R.h.dtype).name, "h": np.asarray(R.h).astype(np.complex128)}
                xs = [vals(rng, (info["in_shape"][0],), G.is_cplx(info["in_dtype"])).astype(np.complex128) for _ in range(2)]
                info["eval"] = [env.flat(R(env.to_array(x, info["in_shape"], info["in_dtype"]))) for x in xs]
        try:
            mod = ("ok", om.call("conv", xs=[G.encs(x) for x in xs], **case))
        except common.ModelErr as ex:
            mod = ("err", ex.kind)
        key = ("conv", what, case["a_mode"], case["a_n"], len(case["a_h"]), case["a_indt"], case["a_hdt"],
               case.get("b_mode"), case.get("b_n"), case.get("b_indt"), (case.get("c") or {}).get("kind"), (case.get("c") or {}).get("dt"))
        ctx.case({"what": "Convolve " + what, "key": str(key)}, key, sample_every=150)
        ctx.count("Convolve:" + what + (":rejected:" + impl[1] if impl[0] == "err" else ":ok"))
        diff = None
        kid = None
        if impl[0] == "err" or mod[0] == "err":
            if impl[0] != mod[0] or impl[1] != mod[1]:
                diff = ("constructible/error-kind", list(impl[:2]) if impl[0] == "err" else "ok", list(mod[:2]) if mod[0] == "err" else "ok")
                if impl[0] == "err" and impl[1] == "type" and mod[0] == "ok" and case.get("c", {}).get("kind") == "jx":
                    kid = KNOWN_CONV_JAX
        elif "cls" in info:
            diff = ("class", info["cls"], "Convolve")
        else:
            m = mod[1]
            tol = 2e-4 if any(G.is32(d) for d in (info["in_dtype"], info["h_dtype"])) else 1e-9
            for k in ("in_shape", "out_shape", "in_dtype", "out_dtype", "h_dtype"):
                if info[k] != m[k]:
                    diff = (k, info[k], m[k])
                    break
            if diff is None and not G.vec_close(info["h"], G.decs(m["h"]), tol, 4):
                diff = ("filter", [complex(z) for z in info["h"]], [complex(z) for z in G.decs(m["h"])])
            if diff is None:
                for u, v in zip(info["eval"], m["eval"]):
                    if not G.vec_close(u, G.decs(v), tol, 8):
                        diff = ("eval", [complex(z) for z in u], [complex(z) for z in G.decs(v)])
                        break
        if diff:
            def orc(c, case=case, impl=impl, what=what):
                # the property on the implementation: the closed form is the pointwise combination of the operands;
                # a scalar-equivalent factor is accepted
                if impl[0] == "err":
                    if what in ("mul", "div") and case["c"]["kind"] not in ("arr", "str"):
                        return {"what": "Convolve " + what, "scalar": case["c"]["kind"] + ":" + str(case["c"].get("dt")), "raised": impl[2],
                                "every other LinearOperator class accepts this scalar": True}
                    return None
                try:
                    R = impl[1]
                    A = build("a_")
                    x = vals(np.random.Generator(np.random.PCG64(5)), (case["a_n"],), G.is_cplx(np.dtype(R.input_dtype).name)).astype(np.complex128)
                    X = env.to_array(x, [case["a_n"]], np.dtype(R.input_dtype).name)
                    ya = np.asarray(A(X.astype(A.input_dtype) if not G.is_cplx(np.dtype(A.input_dtype).name) else X)).astype(np.complex128)
                    if what in ("add", "sub"):
                        B = build("b_")
                        yb = np.asarray(B(X.astype(B.input_dtype) if not G.is_cplx(np.dtype(B.input_dtype).name) else X)).astype(np.complex128)
                        want = ya + yb if what == "add" else ya - yb
                    else:
                        cv = G.dec(case["c"]["v"])
                        want = cv * ya if what == "mul" else ya / cv
                    got = np.asarray(R(X)).astype(np.complex128)
                    if got.shape != want.shape or not G.vec_close(got, want, 2e-4, 8):
                        return {"what": "Convolve " + what, "x": [str(complex(z)) for z in x], "returned": [str(complex(z)) for z in got],
                                "pointwise_combination": [str(complex(z)) for z in want]}
                except Exception:  # noqa: BLE001
                    return None
                return None

            ctx.disagree("opalg.Convolve:" + diff[0], {"case": json.loads(json.dumps(case))}, json.loads(json.dumps(diff[1], default=str)),
                         json.loads(json.dumps(diff[2], default=str)), oracle=orc, known_id=kid)
            if kid is not None and ctx.is_known(kid):
                continue
            bad += 1
            if bad >= 5:
                break


# ----------------------------------------------------------------------------- stacks inside further constructions
# (theorem C05_sound_closed: the invariant is closed under every node, whatever built the operands)


def gen_stackx_case(rng, thorough=False):
    import opalg_trees as T

    one = str(rng.choice(["float64", "complex128"], p=[0.55, 0.45]))
    dt_of = lambda: one  # noqa: E731

    def plain():
        return [[1], [2], [3], [1, 2], [2, 2]][int(rng.integers(5))]

    def stack_of(kind, insh_common=None, n_ops=None):
        N = n_ops or int(rng.integers(1, 4))
        out0 = plain()
        same = rng.random() < 0.6
        es = []
        for _ in range(N):
            insh = insh_common if kind == "v" else plain()
            es.append(T.tree(rng, int(rng.choice([1, 1, 2])), insh, out0 if same else plain(), dt_of, p_bad=0.0, allow_nonlin=False))
        return {"kind": kind, "es": es, "cin": bool(rng.random() < 0.6), "cout": bool(rng.random() < 0.7)}

    k1 = "v" if rng.random() < 0.5 else "d"
    insh = T.shape(rng) if rng.random() < 0.5 else plain()
    inner = stack_of(k1, insh_common=insh)
    outer = None
    if rng.random() < 0.55:
        k2 = "v" if rng.random() < 0.5 else "d"
        # a vertical outer stack needs the inner stack's input shape for its further operands: draw after observing
        outer = {"kind": k2, "es": None, "cin": bool(rng.random() < 0.6), "cout": bool(rng.random() < 0.6), "n": int(rng.integers(1, 3))}
    post = [None, "T", "H", "conj", "gram", "neg", "twice", "half"][int(rng.integers(8))]
    return {"inner": inner, "outer": outer, "post": post, "_dt": one}


def stackx_tie(ctx, env, om, n):
    import json

    import opalg_trees as T

    linop = env.linop
    bad = 0
    for _ in range(n):
        case = gen_stackx_case(ctx.rng, ctx.thorough)
        one = case.pop("_dt")
        impl = None
        try:
            inner = case["inner"]
            ops1 = [env.build(e) for e in inner["es"]]
            S1 = linop.VerticalStack(ops1, collapse_output=inner["cout"]) if inner["kind"] == "v" else linop.DiagonalStack(ops1, collapse_input=inner["cin"], collapse_output=inner["cout"])
        except Exception as ex:  # noqa: BLE001
            impl = ("err", common.err_kind(ex), repr(ex)[:160])
            S1 = None
        if S1 is not None and case["outer"] is not None:
            o = case["outer"]
            ish = G.lst(S1.input_shape)
            es2 = []
            for _k in range(o.pop("n")):
                insh = ish if o["kind"] == "v" else [int(ctx.rng.integers(1, 4))]
                es2.append(T.tree(ctx.rng, 1, insh, [int(ctx.rng.integers(1, 4))], lambda: one, p_bad=0.0, allow_nonlin=False))
            o["es"] = es2
        elif case["outer"] is not None:
            case["outer"]["es"] = []
            case["outer"].pop("n")
        if impl is None:
            try:
                S2 = S1
                if case["outer"] is not None:
                    o = case["outer"]
                    ops2 = [S1] + [env.build(e) for e in o["es"]]
                    S2 = linop.VerticalStack(ops2, collapse_output=o["cout"]) if o["kind"] == "v" else linop.DiagonalStack(ops2, collapse_input=o["cin"], collapse_output=o["cout"])
                R = {None: lambda: S2, "T": lambda: S2.T, "H": lambda: S2.H, "conj": lambda: S2.conj(), "gram": lambda: S2.gram_op, "neg": lambda: -S2,
                     "twice": lambda: S2 + S2, "half": lambda: S2 / 2.0}[case["post"]]()
                impl = ("ok", R)
            except Exception as ex:  # noqa: BLE001
                impl = ("err", common.err_kind(ex), repr(ex)[:160])
        xs = ys = []
        obs = impl
        if impl[0] == "ok":
            obs = _observe_op(env, impl[1], [])
            m_, n_ = obs[1]["matrix_shape"]
            xs = [vals(ctx.rng, (n_,), G.is_cplx(obs[1]["in_dtype"])).astype(np.complex128) for _ in range(2)]
            ys = [vals(ctx.rng, (m_,), G.is_cplx(obs[1]["out_dtype"])).astype(np.complex128) for _ in range(2)]
            obs = _observe_op(env, impl[1], xs)
            ad, addt = [], None
            for y in ys:
                try:
                    z = impl[1].adj(env.to_array(y, obs[1]["out_shape"], obs[1]["out_dtype"]))
                    ad.append(env.flat(z))
                    addt = np.dtype(z.dtype).name
                except Exception as ex:  # noqa: BLE001
                    ad.append(("err", common.err_kind(ex), repr(ex)[:160]))
                    addt = "err:" + common.err_kind(ex)
            obs[1]["adj"], obs[1]["adj_dt"] = ad, addt
            obs[1].pop("cls")
        try:
            r = om.call("stackx", inner=case["inner"], outer=case["outer"], post=case["post"], xs=[G.encs(x) for x in xs], ys=[G.encs(y) for y in ys])
            r["eval"] = [G.decs(v) for v in r["eval"]]
            r["adj"] = [G.decs(v) for v in r["adj"]]
            r["cls"] = None
            mod = ("ok", r)
        except common.ModelErr as ex:
            mod = ("err", ex.kind)
        if obs[0] == "ok":
            obs[1]["cls"] = None
        all_es = case["inner"]["es"] + (case["outer"]["es"] if case["outer"] else [])
        uni = all(G.kind_uniform({"t": "add", "a": e, "b": all_es[0]}) for e in all_es)
        adj_inside = any(G.uses_adjoint(e) for e in all_es) or case["post"] in ("T", "H", "gram")
        if obs[0] == "ok" and mod[0] == "ok" and not (uni or not adj_inside):
            obs[1]["eval"], mod[1]["eval"] = [], []
        diffs = _compare_op(obs, mod, 1e-9)
        if not diffs and obs[0] == "ok":
            a, b = obs[1], mod[1]
            if a["adj_dt"] != b["adj_dt"]:
                diffs.append(("adj_dt", a["adj_dt"], b["adj_dt"]))
            elif uni:
                kk = max(4, a["matrix_shape"][0] * a["matrix_shape"][1])
                for i, (u, v) in enumerate(zip(a["adj"], b["adj"])):
                    if not isinstance(u, tuple) and not G.vec_close(u, v, 1e-9, kk):
                        diffs.append((f"adj[{i}]", [complex(z) for z in u], [complex(z) for z in v]))
                        break
        key = ("stackx", case["inner"]["kind"], case["outer"]["kind"] if case["outer"] else None, case["post"],
               tuple(G.skeleton(e) for e in all_es), case["inner"]["cin"], case["inner"]["cout"])
        ctx.case({"what": "stack inside", "key": str(key)[:200]}, key, sample_every=150)
        ctx.count("stack-inside:" + str(case["inner"]["kind"]) + ">" + str(case["outer"]["kind"] if case["outer"] else "-") + ">" + str(case["post"])
                  + (":rejected" if obs[0] == "err" else ""))
        if diffs:
            d = diffs[0]

            def orc(c, impl=impl, case=case, all_es=all_es, uni=uni):
                # the property on the implementation: dense matrix of the result = the same construction on numpy matrices
                if impl[0] != "ok" or not uni:
                    return None
                try:
                    def den_stack(kind, mats):
                        return np.vstack(mats) if kind == "v" else _blockdiag(mats)
                    D = den_stack(case["inner"]["kind"], [G.np_den(e) for e in case["inner"]["es"]])
                    if case["outer"]:
                        D = den_stack(case["outer"]["kind"], [D] + [G.np_den(e) for e in case["outer"]["es"]])
                    D = {None: D, "T": D.T, "H": D.conj().T, "conj": D.conj(), "gram": D.conj().T @ D, "neg": -D, "twice": 2 * D, "half": D / 2}[case["post"]]
                    W = dense(env, impl[1])
                except Exception as ex:  # noqa: BLE001
                    return {"what": "stack inside a further construction", "evaluation_raised": repr(ex)[:200]}
                if W.shape != D.shape or not close(W, D):
                    return {"what": "stack inside a further construction", "operator_matrix": repr(np.round(W, 6).tolist())[:400],
                            "same_construction_on_matrices": repr(np.round(D, 6).tolist())[:400]}
                return None

            ctx.disagree("opalg.stack-inside:" + d[0], {"case": json.loads(json.dumps(case))}, json.loads(json.dumps(d[1], default=str)),
                         json.loads(json.dumps(d[2], default=str)), oracle=orc)
            bad += 1
            if bad >= 5:
                break


def _blockdiag(mats):
    W = np.zeros((sum(M.shape[0] for M in mats), sum(M.shape[1] for M in mats)), dtype=np.complex128)
    r = c = 0
    for M in mats:
        W[r : r + M.shape[0], c : c + M.shape[1]] = M
        r += M.shape[0]
        c += M.shape[1]
    return W


# ----------------------------------------------------------------------------- default precision (no x64) stream, round 6

SINGLE = {"float64": "float32", "complex128": "complex64"}


def to_single(t):
    """the same tree / scalar with every 64-bit dtype replaced by its 32-bit counterpart"""
    if isinstance(t, dict):
        return {k: (SINGLE.get(v, v) if k in ("dt", "ddt", "indt", "gdt", "vdt") and isinstance(v, str) else to_single(v)) for k, v in t.items()}
    if isinstance(t, list):
        return [to_single(v) for v in t]
    return t


def _real_only(e):
    for k in ("dt", "ddt", "indt", "gdt"):
        if isinstance(e.get(k), str) and G.is_cplx(e[k]):
            return False
    c = e.get("c")
    if isinstance(c, dict) and (c["kind"] == "complex" or (c["kind"] in ("np", "jx") and G.is_cplx(c["dt"]))):
        return False
    return all(_real_only(e[k]) for k in ("a", "b") if isinstance(e.get(k), dict))


def nox64_stream(ctx, env, table, n_trees, n_stacks, mixed_dtype_findings=True):
    """DEFAULT-PRECISION stream: a sample of the class-pair table, random trees and random stacks rebuilt at float32 /
    complex64 (and, for real trees, with the dtype arguments omitted) in a subprocess WITHOUT jax_enable_x64; accept / reject
    and the declared shapes / dtypes must agree with the x64 run of the same 32-bit tree; the worker evaluates the property itself in default precision."""
    import json
    import subprocess
    import sys

    import opalg_trees as T

    rng = ctx.rng
    items = []
    idx = rng.permutation(len(table))[: n_trees]
    for i in sorted(int(v) for v in idx):
        name, e = table[i]
        items.append({"name": name, "e": e})
    for k in range(n_trees // 4):
        dt_of = (lambda: "float64") if rng.random() < 0.5 else (lambda: "complex128")
        insh = T.shape(rng)
        outsh = insh if rng.random() < 0.5 else T.shape(rng)
        items.append({"name": f"tree{k}", "e": T.tree(rng, int(rng.integers(2, 5)), insh, outsh, dt_of, p_bad=0.0, allow_nonlin=False)})
    for it in list(items):
        if _real_only(it["e"]) and rng.random() < 0.5:
            items.append({"name": it["name"] + " [default dtypes]", "e": it["e"], "default": True})
    for k in range(n_stacks):
        c = gen_stack_case(rng, False)
        items.append({"name": f"stack{k}", "stack": c})
    # expectation: the x64 process on the SAME 32-bit objects - accept / reject and declared shapes / dtypes must not depend on x64
    payload = []
    for it in items:
        if "e" in it:
            ref = env.observe(to_single(it["e"]), [], None)
            payload.append({"e": to_single(it["e"]), "default": it.get("default", False)})
        else:
            ref = observe_stack(env, to_single(it["stack"]), [], [])
            payload.append({"stack": to_single(it["stack"])})
        it["ref"] = ("err", ref[1]) if ref[0] == "err" else ("ok", {k: ref[1][k] for k in ("in_shape", "out_shape", "in_dtype", "out_dtype", "matrix_shape")})
    p = subprocess.run([sys.executable, str(common.VERIF / "harness" / "opalg_nox64_worker.py")],
                       input=json.dumps({"repo": str(common.REPO), "items": payload}), capture_output=True, text=True, timeout=1500)
    if p.returncode != 0:
        raise common.Infra("default-precision worker failed: " + p.stderr[-600:])
    res = json.loads(p.stdout.strip().splitlines()[-1])["results"]
    bad = 0
    for it, r in zip(items, res):
        key = ("nox64", it["name"], bool(it.get("default")))
        ctx.case({"default-precision": it["name"]}, key, sample_every=200)
        ctx.count("default-precision:" + ("stack" if "stack" in it else ("tree:default-dtypes" if it.get("default") else "tree")) + (":rejected" if "err" in r else ""))
        fail = None
        ref = it["ref"]
        if "err" in r:
            if ref[0] != "err" or ref[1] != r["err"]:
                fail = {"constructed_with_x64": ref[0] if ref[0] == "ok" else "rejected:" + ref[1], "default_precision": "rejected:" + r["err"], "raised": r.get("raised")}
        elif ref[0] == "err":
            fail = {"constructed_with_x64": "rejected:" + ref[1], "default_precision": "accepted", "declared": r["info"]}
        else:
            want = dict(ref[1])
            want["in_dtype"], want["out_dtype"] = SINGLE.get(want["in_dtype"], want["in_dtype"]), SINGLE.get(want["out_dtype"], want["out_dtype"])
            diff = {k: [r["info"][k], want[k]] for k in want if r["info"][k] != want[k]}
            if diff:
                fail = {"declared_in_default_precision_vs_x64(32-bit image)": diff}
            elif r["fails"]:
                fail = r["fails"]
        if fail:
            fail = dict(fail)
            fail["mode"] = "default precision (jax_enable_x64 off), 32-bit data" + (", dtype arguments omitted" if it.get("default") else "")
            case = {"name": it["name"], "default": bool(it.get("default"))}
            case.update({"e": to_single(it["e"])} if "e" in it else {"stack": to_single(it["stack"])})
            # operands of different dtypes below a generic sum / composition: the recorded findings (C12), classified here
            es = [it["e"]] if "e" in it else [{"t": "add", "a": e, "b": it["stack"]["es"][0]} for e in it["stack"]["es"]]
            mixed = not all(G.dtype_uniform(e) for e in es)
            keys = set(fail) - {"mode"}
            known = None
            if mixed and keys == {"dtype"}:
                known = "mixed-operand-dtypes"
            elif mixed and keys <= {"evaluation_raised", "adjoint_raised"} and "Dtype error" in json.dumps(fail, default=str):
                known = "adj-dtype-check-mixed"
            if known is not None and not mixed_dtype_findings:
                # recorded under C12 (declared vs returned dtype of operands mixing dtypes); C05 only counts them
                ctx.count("default-precision:mixed-dtypes (recorded under C12)")
                continue
            ctx.disagree("opalg.default-precision", json.loads(json.dumps(case)), json.loads(json.dumps(fail, default=str)),
                         "as with x64: same accept/reject, declared = returned (32-bit), values = construction on matrices",
                         oracle=lambda c, fail=fail: json.loads(json.dumps(fail, default=str)), known_id=known)
            if known is not None:
                continue
            bad += 1
            if bad >= 5:
                break
