"""C08 - proximal calculus rules and capability flags (engine ProxCalc).

Correspondence between the Lean model `Scico.Model.ProxCalc` (constructor tree of derived functionals:
`c*f`, `f*c`, `ScaledFunctional`, `f+g`, `SeparableFunctional`, `Loss`, `SquaredL2Loss`, `loss/c`; `prox`,
`conj_prox`, `has_eval`/`has_prox`) and the real scico objects built from the same description.
"""

from __future__ import annotations

import json
import os

import numpy as np

import common
import proxcalc_gen as G
from common import ModelErr, b2f, b2fs, f2b, fs2b

PROP = "C08"
CLAIMED = True
ENGINE = "ProxCalc"
DESIGN_REF = "DESIGN.md §5.2"
TECHNIQUE = (
    "Lean 4 proof: proximal calculus in an arbitrary real inner-product space (scaling, translation, separable sums on "
    "PiLp 2, extended Moreau decomposition with the conjugate as a supremum, normal equations of the weighted squared-l2 "
    "loss), induction over the constructor tree of the executable model for flags / availability / soundness of every "
    "nesting; differential correspondence of the model with scico on generated trees"
)
LEVEL_TEXT = (
    "Theorems (all E, all f, all c/lam/y, any number of blocks, unbounded nesting depth): prox of c*f, of alpha*f(.-y), of a "
    "separable sum; conj_prox returns the prox of the Fenchel conjugate for convex f; x is the prox of alpha*||Ax-y||^2_W iff it "
    "solves (I+2 alpha lam A^H W A)x = v+2 alpha lam A^H W y, and the diagonal closed form solves it entrywise (real and complex); "
    "flag logic: a False flag raises, a truthful True flag gives a value of the right shape which is a proximal point of the "
    "denoted functional (given C02 for the leaves), also for trees containing SquaredL2Loss nodes with Identity/Diagonal A; "
    "without any sign hypothesis the returned value is proximal as soon as the base proxes are sound at the parameters they "
    "receive; negation witness for a Loss with non-positive scale (flag set, value not proximal). "
    "The model is tied to scico by evaluating flags, f(x), prox, conj_prox of "
    "random nestings (depth<=3/4) on the real objects, by the leaf-call plan oracle, and by the residual of the documented "
    "system at SquaredL2Loss.prox for diagonal / non-diagonal, real / complex A."
)
LEVEL_NOTE = (
    "Trusted: Lean kernel + Mathlib (propext, Classical.choice, Quot.sound); real-number idealisation of IEEE arithmetic; the "
    "hand-written model is tied to the code by differential testing only (distribution in the evidence). Base functionals' "
    "prox maps are hypotheses here (property C02). CG convergence is not proved: the non-diagonal path is checked through the "
    "residual of the proved system at the configured tolerance. Soundness of a set has_prox flag assumes positive scales of "
    "generic Loss objects (the flag does not look at Loss.scale: known finding loss-nonpositive-scale, recorded with "
    "fixes/loss-nonpositive-scale.patch, Lean negation witness C08_loss_nonpositive_counterexample); a ScaledFunctional with "
    "non-positive scale clears the flag but still forwards prox. SeparableFunctional applied to a plain array whose ndim "
    "equals the number of functionals iterates over the leading axis (outside the documented domain, not modelled). "
    "Findings repaired in /repo: 1a0aadd (Loss flags), 689de28 (non-positive scale)."
)
PROP_MODULES = ["Scico.Props.C08"]
EXTRA_TARGETS = ["Drv.ProxCalc"]
DRIVER = "ProxCalc"
FILES = ["scico/functional/_functional.py", "scico/loss.py", "scico/solver.py", "scico/functional/_norm.py"]
RULE = (
    "tree cases: random constructor trees (ScaledFunctional, c*f, f*c, f/c, f+g, SeparableFunctional, Loss with f/None and "
    "Identity/opaque A, SquaredL2Loss with Identity/Diagonal/linear/non-linear A and weights incl. zeros) of depth<=3 (quick) / "
    "<=4 (thorough) over 12 base functional kinds (incl. user functionals declaring arbitrary flags), real and complex, plain "
    "and block arguments, dyadic data; a boundary stream adds non-positive scales, block-count mismatches, v=0 and ties. A "
    "tree case is non-trivial when it has at least one wrapper; distinct by constructor skeleton x dtype x block-ness. "
    "sqL2 cases: SquaredL2Loss.prox for Identity / ScaledIdentity / Diagonal / MatrixOperator / FiniteDifference A, real and "
    "complex, weights with zeros; distinct by (A kind, dtype, weights, shape). Round 2: generic Loss with explicit Identity / "
    "ScaledIdentity / Diagonal / Matrix / non-linear forward operators; block SquaredL2Loss nodes; c*L and L/c checked for "
    "purity (operand evaluated before/after); plain 1-D array to a SeparableFunctional; constructor rejection of negative / "
    "non-Diagonal weights."
)
ASSUMPTIONS = [
    "base functionals: their prox maps are proximal maps (property C02) - hypothesis LeafSound of C08_tree_sound",
    "jax.numpy elementwise arithmetic / sum / abs / where are the mathematical operations (contract)",
    "scico.solver.cg returns an approximate solution of the system it is handed (its tolerance is checked, convergence is C14)",
    "a LinearOperator is linear, so its dense matrix on basis vectors represents it (property C06)",
]

TOL = 1e-9


# --------------------------------------------------------------------------
# helpers


def _impl(fn):
    """run something on the implementation -> ("ok", value) | ("err", kind)"""
    try:
        return ("ok", fn())
    except Exception as e:  # noqa: BLE001
        return ("err", common.err_kind(e))


def _model_field(r, key):
    """driver sub-result {"ok": ..} | {"err": kind} | None"""
    v = r.get(key)
    if v is None:
        return None
    if "ok" in v:
        return ("ok", v["ok"])
    return ("err", v["err"])


def _same_num(a, b, k):
    return common.close(a, b, k=k, rtol=TOL)


def _same_arr(a, b):
    """tolerance rule entry by entry; a division by an exact zero (degenerate prox parameter, only reachable with a
    non-positive scale) gives inf per component in the model and nan+nanj for complex data in jax: positions where one
    side is non-finite must be non-finite on the other side as well"""
    a = np.asarray(a, dtype=np.float64).ravel()
    b = np.asarray(b, dtype=np.float64).ravel()
    if a.shape != b.shape:
        return False
    fa, fb = np.isfinite(a), np.isfinite(b)
    if not np.array_equal(fa, fb):
        # complex entries are interleaved: a non-finite real part may come with a finite imaginary part on one side only
        if a.size % 2 == 0:
            pa = fa.reshape(-1, 2).all(axis=1)
            pb = fb.reshape(-1, 2).all(axis=1)
            if not np.array_equal(pa, pb):
                return False
            keep = np.repeat(pa, 2)
            return common.allclose(a[keep], b[keep], k=max(1, a.size), rtol=TOL)
        return False
    return common.allclose(a[fa], b[fa], k=max(1, a.size), rtol=TOL)


def _blocks_of(case, j):
    shape = G.norm_shape(case.get("xshape", case["shape"]))
    if "a" in j:
        return [G.unil(b2fs(j["a"]), case["cplx"], tuple(shape))]
    return [G.unil(b2fs(b), case["cplx"], tuple(s)) for b, s in zip(j["b"], shape)]


def _np_obj(case, lam, v_blocks, p_blocks):
    """lam*F(p) + 1/2 ||p - v||^2 with F the documented formula (independent of scico)"""
    F = G.np_eval(case, p_blocks)
    return lam * F + 0.5 * sum(float(np.sum(np.abs(p - v) ** 2)) for p, v in zip(p_blocks, v_blocks))


def _split_flat(case, flat):
    """flat (interleaved) data -> list of numpy blocks of the case's shape"""
    shape = G.norm_shape(case.get("xshape", case["shape"]))
    cplx = case["cplx"]
    shapes = shape if isinstance(shape, list) else [shape]
    out, pos = [], 0
    for s in shapes:
        n = int(np.prod(s)) * (2 if cplx else 1)
        out.append(G.unil(flat[pos : pos + n], cplx, tuple(s)))
        pos += n
    return out


# --------------------------------------------------------------------------
# property oracles on the implementation


def _oracle(scico):
    """property C08 evaluated on the real code at a case: flags truthful, prox is a minimiser of the documented
    objective (against the model's point and perturbations), conj_prox satisfies Moreau's identity with an independent
    conjugate where known.  Returns a dict describing the failure or None."""

    def oracle(case):
        obj, info = G.build(scico, case)
        if obj is TypeError:
            return None
        shape = G.norm_shape(case.get("xshape", case["shape"]))
        cplx = case["cplx"]
        x = G.arg_to_scico(case["x"], shape, cplx)
        v = G.arg_to_scico(case["v"], shape, cplx)
        lam = b2f(case["lam"])
        # flags: a set flag whose operation raises NotImplementedError, or a clear flag whose operation works
        ev = _impl(lambda: float(obj(x)))
        if bool(obj.has_eval) and ev == ("err", "notimpl"):
            return {"what": "has_eval is True but __call__ raises NotImplementedError", "x": case["x"]}
        pr = _impl(lambda: G.arg_flat(obj.prox(v, lam), cplx))
        if bool(obj.has_prox) and pr == ("err", "notimpl"):
            return {"what": "has_prox is True but prox raises NotImplementedError", "v": case["v"], "lam": lam}
        if not bool(obj.has_eval) and ev[0] == "ok":
            return {"what": "has_eval is False but __call__ returns a value", "value": ev[1]}
        # value against the documented formula
        try:
            want = G.np_eval(case, _blocks_of(case, case["x"]))
            if ev[0] == "ok" and not _same_num(ev[1], want, 64):
                return {"what": "f(x) differs from the documented formula", "impl": ev[1], "formula": want}
            if ev[0] == "err" and bool(obj.has_eval) and "xshape" not in case and np.isfinite(want):
                return {"what": "has_eval is True and the documented formula has a value, but __call__ raises", "error_kind": ev[1],
                        "formula": want, "x": case["x"]}
        except G.NotAvail:
            pass
        # prox: minimiser of the documented objective?  (flag set: it must be; flag clear: if it nevertheless is one
        # for this input although nothing in the tree has a non-positive scale, the flag is not truthful)
        judge_clear = (not bool(obj.has_prox)) and not info.patterns
        if pr[0] == "ok" and (bool(obj.has_prox) or judge_clear):
            try:
                vb = _blocks_of(case, case["v"])
                pb = _split_flat(case, pr[1])
                base = _np_obj(case, lam, vb, pb)
                cands = []
                if case.get("model_prox") is not None:
                    cands.append(("model", _split_flat(case, np.asarray(case["model_prox"]))))
                rng = np.random.default_rng(12345)
                for eps in (1e-1, 1e-2, 1e-3):
                    for _ in range(8):
                        cands.append(("perturbation", [p + eps * (rng.standard_normal(p.shape) + (1j * rng.standard_normal(p.shape) if cplx else 0)) for p in pb]))
                better = [(name, cb, _np_obj(case, lam, vb, cb)) for name, cb in cands]
                better = [(n_, cb, val) for n_, cb, val in better
                          if np.isfinite(val) and (not np.isfinite(base) or val < base - 1e-7 * (1 + abs(base)))]
                if judge_clear:
                    if not better and np.isfinite(base):
                        return {"what": "has_prox is False but prox returns a minimiser of lam*F(x)+0.5||x-v||^2 (operation available and correct)",
                                "objective_at_prox": base, "v": case["v"], "lam": lam}
                    better = []
                for name, cb, val in better:
                    if True:
                        return {"what": "prox output is not a minimiser of lam*F(x)+0.5||x-v||^2", "competitor": name,
                                "objective_at_prox": base, "objective_at_competitor": val, "v": case["v"], "lam": lam,
                                "competitor_point": [np.asarray(G.il(c, cplx)).tolist() for c in cb]}
            except G.NotAvail:
                pass
        return None

    return oracle


def _alias_oracle(scico):
    """property on the implementation: forming c*L (or L/c) must not change what L evaluates to (`build` evaluates the
    operand at a fixed probe point before and after)"""

    def oracle(case):
        _, info = G.build(scico, case)
        for a_ in info.alias:
            if a_["L(x) before"] is not None and a_["L(x) before"] != a_["L(x) after"]:
                return {"what": f"L(x) changed after forming {'c*L' if a_['node'] == 'mul' else 'L/c'} with c={a_['c']}",
                        "x": a_["x"], "L(x) before": a_["L(x) before"], "L(x) after": a_["L(x) after"],
                        "L.scale before": a_["scale_before"], "L.scale after": a_["scale_after"]}
        return None

    return oracle


# --------------------------------------------------------------------------
# one tree case


def run_tree_case(ctx, model, scico, case, oracle, stream):
    cplx = case["cplx"]
    shape = G.norm_shape(case.get("xshape", case["shape"]))
    obj, info = G.build(scico, case)
    req = dict(cplx=cplx, leaves=case["leaves"], ops=case["ops"], t=case["t"], x=case["x"], v=case["v"], lam=case["lam"])
    key = None
    if G.tree_depth(case["t"]) >= 1:
        key = (G.tree_sig(case["t"]), cplx, isinstance(shape, list))
    ctx.case({"stream": stream, "sig": G.tree_sig(case["t"]), "cplx": cplx, "shape": case["shape"]}, key)
    ctx.count(f"tree:{stream}")
    ctx.count(f"tree:depth={G.tree_depth(case['t'])}")
    ctx.count("tree:complex" if cplx else "tree:real")
    ctx.count("tree:block" if isinstance(shape, list) else "tree:plain")
    if obj is TypeError:
        try:
            model.call("tree", **req)
            m = "ok"
        except ModelErr as e:
            m = e.kind
        ctx.count("tree:construction rejected (TypeError)")
        if m != "type":
            ctx.disagree("tree.construct", case, "type", m, oracle=None, note="f / c on a non-loss functional")
        return
    r = model.call("tree", **req)
    x = G.arg_to_scico(case["x"], shape, cplx)
    v = G.arg_to_scico(case["v"], shape, cplx)
    lam = b2f(case["lam"])
    nsz = max(8, int(sum(np.prod(s) for s in (shape if isinstance(shape, list) else [shape]))) * 4)

    # ---- `c * L` / `L / c` are pure: a new loss is returned and `L` keeps its scale (the model's `Fn.mul` is a function) ----
    if info.alias:
        ctx.disagree("tree.alias", case, info.alias, "c*L and L/c return a new loss and leave L unchanged", oracle=_alias_oracle(scico),
                     note="building c*L (or L/c) changed the scale of L itself")

    if "loss-nonpos" in info.patterns:
        # a non-positive factor folded into a Loss: the value c*L(x) is compared; flag and prox of such a loss are the
        # known finding `loss-nonpositive-scale` (witness in findings()), not compared here
        ctx.count("tree:loss with non-positive scale (value only)")
        ie = _impl(lambda: float(obj(x)))
        me = _model_field(r, "eval")
        me = me if me[0] == "err" else ("ok", b2f(me[1]))
        if ie[0] != me[0] or (ie[0] == "err" and ie[1] != me[1]) or (ie[0] == "ok" and not _same_num(ie[1], me[1], nsz)):
            ctx.disagree("tree.eval", case, list(ie), list(me), oracle=oracle)
        return

    # ---- flags ----
    impl_flags = (bool(obj.has_eval), bool(obj.has_prox))
    mflags = (r["he"], r["hp"])
    if impl_flags != mflags:
        ctx.disagree("tree.flags", case, list(impl_flags), list(mflags), oracle=oracle)
    ctx.count(f"flags:has_eval={impl_flags[0]},has_prox={impl_flags[1]}")
    for p_ in sorted(info.patterns):
        ctx.count("flags:tree with former defect pattern " + p_)

    # ---- f(x) ----
    ie = _impl(lambda: float(obj(x)))
    me = _model_field(r, "eval")
    me = me if me[0] == "err" else ("ok", b2f(me[1]))
    if ie[0] != me[0] or (ie[0] == "err" and ie[1] != me[1]) or (ie[0] == "ok" and not _same_num(ie[1], me[1], nsz)):
        ctx.disagree("tree.eval", case, list(ie), list(me), oracle=oracle)
    ctx.count("eval:" + (ie[0] if ie[0] == "ok" else "err-" + ie[1]))

    # ---- prox / conj_prox ----
    ip = _impl(lambda: G.arg_flat(obj.prox(v, lam), cplx))
    mp = _model_field(r, "prox")
    if mp is not None:
        mpv = mp if mp[0] == "err" else ("ok", G.arg_json_flat(mp[1]))
        bad = ip[0] != mpv[0] or (ip[0] == "err" and ip[1] != mpv[1]) or (ip[0] == "ok" and not _same_arr(ip[1], mpv[1]))
        if bad:
            c2 = dict(case)
            if mpv[0] == "ok":
                c2["model_prox"] = np.asarray(mpv[1]).tolist()
            ctx.disagree("tree.prox", c2, [ip[0], ip[1] if ip[0] == "err" else np.asarray(ip[1]).tolist()],
                         [mpv[0], mpv[1] if mpv[0] == "err" else np.asarray(mpv[1]).tolist()], oracle=oracle,
                         known_id=None)
        ctx.count("prox:model-run " + (ip[0] if ip[0] == "ok" else "err-" + ip[1]))
        ic = _impl(lambda: G.arg_flat(obj.conj_prox(v, lam), cplx))
        mc = _model_field(r, "conj")
        mcv = mc if mc[0] == "err" else ("ok", G.arg_json_flat(mc[1]))
        if ic[0] != mcv[0] or (ic[0] == "err" and ic[1] != mcv[1]) or (ic[0] == "ok" and not _same_arr(ic[1], mcv[1])):
            ctx.disagree("tree.conj_prox", case, [ic[0], ic[1] if ic[0] == "err" else np.asarray(ic[1]).tolist()],
                         [mcv[0], mcv[1] if mcv[0] == "err" else np.asarray(mcv[1]).tolist()], oracle=oracle)
        ctx.count("conj_prox:" + (ic[0] if ic[0] == "ok" else "err-" + ic[1]))
    else:
        ctx.count("prox:not runnable in the driver (plan oracle only)")

    # ---- exact-arithmetic stream: real dyadic data, leaves whose value and prox involve only additions, subtractions,
    # comparisons and products by dyadic factors (L1Norm soft threshold, NonNegativeIndicator clip, ZeroFunctional): the same
    # IEEE operations are performed by code and model, so value and prox must agree to the last bit ----
    kinds_ = {d["kind"] for d in case["leaves"]}
    if (not cplx) and kinds_ <= {"l1", "nonneg", "zero"} and "Q" not in G.tree_sig(case["t"]) and "loss-nonpos" not in info.patterns:
        ctx.count("tree:exact (bit-for-bit) comparison")
        if ie[0] == "ok" and me[0] == "ok" and np.isfinite(ie[1]) and ie[1] != me[1]:
            ctx.disagree("tree.exact.eval", case, repr(ie[1]), repr(me[1]), oracle=oracle, note="value differs in the last bits on exactly representable data")
        if mp is not None and ip[0] == "ok" and mpv[0] == "ok" and not np.array_equal(np.asarray(ip[1], dtype=float), np.asarray(mpv[1], dtype=float)):
            ctx.disagree("tree.exact.prox", dict(case, model_prox=np.asarray(mpv[1]).tolist()), np.asarray(ip[1]).tolist(), np.asarray(mpv[1]).tolist(),
                         oracle=oracle, note="prox differs in the last bits on exactly representable data")

    # ---- plan oracle: prox of the wrapper = prox of the bases at the transformed arguments ----
    pl = _model_field(r, "plan")
    if pl is not None and pl[0] == "ok" and ip[0] == "ok":
        shapes = shape if isinstance(shape, list) else None
        blocks = {}
        ok = True
        for c in pl[1]:
            lo = info.leaf_objs[c["leaf"]]
            bshape = shape if c["block"] is None or shapes is None else shapes[c["block"]]
            a = G.arg_to_scico(c["arg"], bshape, cplx)
            q = _impl(lambda: lo.prox(a, b2f(c["lam"])))
            if q[0] != "ok":
                ok = False
                break
            qf = G.arg_flat(q[1], cplx)
            if c["shift"] is not None:
                qf = qf + G.arg_json_flat(c["shift"])
            blocks[c["block"]] = qf
        if ok and pl[1]:
            if None in blocks:
                want = blocks[None]
            else:
                want = np.concatenate([blocks[i] for i in sorted(blocks)])
            if not _same_arr(ip[1], want):
                ctx.disagree("tree.plan", case, np.asarray(ip[1]).tolist(), np.asarray(want).tolist(), oracle=oracle,
                             note="wrapper prox differs from base prox at the model's transformed argument")
            ctx.count("plan:checked")
    elif pl is not None and pl[0] == "err":
        # the plan is undefined exactly where the prox must raise (sum, f=None, non-identity A) or a sqL2 node is reached
        ctx.count("plan:none (" + pl[1] + ")")


def gen_tree_case(ctx, stream):
    rng = ctx.rng
    cplx = bool(rng.random() < 0.35)
    block = bool(rng.random() < 0.45)
    shape = G.random_shape(rng, block)
    depth = int(rng.integers(1, ctx.n(3, 4) + 1))
    mode = rng.random()
    if stream == "boundary":
        tg = G.TreeGen(rng, cplx, allow_nonpos=True, allow_lossdefect=False)
    elif mode < 0.5:
        tg = G.TreeGen(rng, cplx, allow_lossdefect=False, leaf_kinds=list(G.PROX_RUNNABLE - ({"nonneg"} if cplx else set())))
    else:
        tg = G.TreeGen(rng, cplx)
    case = tg.case(depth, shape)
    case["x"] = G.random_arg_json(rng, shape, cplx)
    if stream == "boundary" and rng.random() < 0.4:
        # v = 0 / ties: entries in {0, ±1, ±2} hit the thresholds of L1 / Huber with lam, delta dyadic
        case["v"] = G.random_arg_json(rng, shape, cplx, scale=2.0, bits=0)
    else:
        case["v"] = G.random_arg_json(rng, shape, cplx)
    case["lam"] = f2b(G.pos_dyadic(rng))
    for t in tg.tags:
        ctx.count("ctor:" + t)
    return case


def gen_blockcount_case(ctx):
    """malformed stream: SeparableFunctional applied to a block array with the wrong number of blocks"""
    rng = ctx.rng
    cplx = bool(rng.integers(2))
    shape = G.random_shape(rng, True)
    tg = G.TreeGen(rng, cplx, allow_lossdefect=False, leaf_kinds=["l1", "sql2", "zero"])
    t = {"k": "sep", "fs": [tg.gen(0, s) for s in shape]}
    if rng.random() < 0.5:
        t = {"k": "scaled", "c": f2b(G.pos_dyadic(rng)), "f": t}
    if len(shape) >= 2 and rng.random() < 0.3:
        # a plain 1-D array instead of a block array: `len(x.shape) = 1 != k` -> ValueError
        n1 = int(rng.integers(1, 5))
        case = {"cplx": cplx, "leaves": tg.leaves, "ops": [], "t": t, "shape": [list(s) for s in shape], "xshape": [n1]}
        case["x"] = G.random_arg_json(rng, (n1,), cplx)
        case["v"] = G.random_arg_json(rng, (n1,), cplx)
        case["lam"] = f2b(G.pos_dyadic(rng))
        ctx.count("malformed:plain 1-D array to a separable functional")
        return case
    bad = list(shape) + [(2,)] if rng.random() < 0.5 or len(shape) == 1 else list(shape)[:-1]
    case = {"cplx": cplx, "leaves": tg.leaves, "ops": [], "t": t, "shape": [list(s) for s in shape],
            "xshape": [list(s) for s in bad]}
    case["x"] = G.random_arg_json(rng, bad, cplx)
    case["v"] = G.random_arg_json(rng, bad, cplx)
    case["lam"] = f2b(G.pos_dyadic(rng))
    return case


# --------------------------------------------------------------------------
# SquaredL2Loss.prox


def _dense(A, n, dt):
    import scico.numpy as snp

    cols = [np.asarray(A(snp.array(np.eye(n, dtype=dt)[:, j]))) for j in range(n)]
    return np.stack([c.ravel() for c in cols], axis=1)


def _realify(M):
    """complex m×n matrix -> real 2m×2n matrix acting on interleaved vectors"""
    m, n = M.shape
    R = np.zeros((2 * m, 2 * n))
    R[0::2, 0::2] = M.real
    R[0::2, 1::2] = -M.imag
    R[1::2, 0::2] = M.imag
    R[1::2, 1::2] = M.real
    return R


# CG settings of the *other* losses of a history (index into this list is stored in the case)
OTHER_KW = [{"tol": 1e-1, "maxiter": 2}, {"maxiter": 1}, {"tol": 0.5}, None, {"tol": 1e-12, "maxiter": 1000}, {"maxiter": 3, "tol": 1e-2}]
DEFAULT_KW = {"maxiter": 100, "tol": 1e-5}


def _own_kw(case):
    if "kw" in case:
        return case["kw"]
    return {"maxiter": 500, "tol": 1e-11} if case.get("tight") else None


def _expected_kw(case):
    kw = dict(DEFAULT_KW)
    kw.update(_own_kw(case) or {})
    return kw


def _other_losses(idx_list):
    """construct (and drop) other SquaredL2Loss objects with their own prox_kwargs: must not influence any other loss"""
    import scico.numpy as snp
    from scico import linop, loss

    out = []
    for i in idx_list:
        m_ = 2 + (i % 3)
        A_ = linop.MatrixOperator(snp.array(np.eye(m_) + 0.5 * np.eye(m_, k=1)), input_cols=0)
        out.append(loss.SquaredL2Loss(y=snp.array(np.arange(1.0, m_ + 1)), A=A_, prox_kwargs=OTHER_KW[i]))
    return out


def gen_sql2_case(ctx):
    rng = ctx.rng
    cplx = bool(rng.integers(2))
    kind = ["ident", "sid", "diag", "diag", "mat", "mat", "fd"][int(rng.integers(7))]
    n = int(rng.integers(1, 6))
    m = n
    case = {"cplx": cplx, "kind": kind, "n": n}
    if kind == "sid":
        case["s"] = fs2b(G.il(G.dy(rng, (1,), cplx, bits=1, scale=2.0), cplx))
    elif kind == "diag":
        case["d"] = fs2b(G.il(G.dy(rng, (n,), cplx, bits=1, scale=2.0), cplx))  # zeros occur
    elif kind == "mat":
        m = int(rng.integers(1, 6))
        case["M"] = [fs2b(G.il(r, cplx)) for r in G.dy(rng, (m, n), cplx, bits=1, scale=2.0)]
    elif kind == "fd":
        n = max(n, 2)
        case["n"] = n
        m = n
    case["m"] = m
    case["w"] = None if rng.random() < 0.4 else fs2b(rng.integers(0, 5, size=m).astype(np.float64) / 2)
    case["y"] = fs2b(G.il(G.dy(rng, (m,), cplx), cplx))
    case["v"] = fs2b(G.il(G.dy(rng, (n,), cplx), cplx))
    if rng.random() < 0.15:
        case["v"] = fs2b(np.zeros(n * (2 if cplx else 1)))
    case["scale"] = f2b(G.pos_dyadic(rng))
    case["lam"] = f2b(G.pos_dyadic(rng))
    case["tight"] = bool(rng.integers(2))
    # own prox_kwargs: None | full (tight) | partial (only maxiter given: tol must stay the default 1e-5)
    case["kw"] = {"maxiter": 500, "tol": 1e-11} if case["tight"] else (None if rng.random() < 0.6 else {"maxiter": 300})
    # history: other SquaredL2Loss objects with their own (mostly loose) CG settings, built before / after the probed one;
    # the probed loss must keep ITS settings (its arguments merged into the defaults maxiter=100, tol=1e-5)
    case["history"] = {"before": [int(i) for i in rng.integers(0, len(OTHER_KW), size=int(rng.integers(0, 4)))],
                       "after": [int(i) for i in rng.integers(0, len(OTHER_KW), size=int(rng.integers(0, 3)))]}
    # after the first use: rescale (c*L, L/c, set_scale) and ask again (stale caches)
    case["rescale"] = [["mul", "div", "setscale"][int(rng.integers(3))], f2b(G.pos_dyadic(rng))]
    return case


def gen_sql2_small_case(ctx):
    """CG branch with data of small magnitude (2^-20) and a larger, moderately ill-conditioned system: the relative
    stopping rule `norm(r) <= tol * norm(b)` must hold at the returned point"""
    rng = ctx.rng
    cplx = bool(rng.integers(2))
    n = int(rng.integers(4, 9))
    m = int(rng.integers(n, n + 3))
    kind = "mat"
    case = {"cplx": cplx, "kind": kind, "n": n, "m": m}
    case["M"] = [fs2b(G.il(r, cplx)) for r in G.dy(rng, (m, n), cplx, bits=1, scale=3.0)]
    case["w"] = None if rng.random() < 0.5 else fs2b(rng.integers(0, 9, size=m).astype(np.float64) / 2)
    sc = 2.0 ** -20
    case["y"] = fs2b(G.il(G.dy(rng, (m,), cplx), cplx) * sc)
    case["v"] = fs2b(G.il(G.dy(rng, (n,), cplx), cplx) * sc)
    case["scale"] = f2b(G.pos_dyadic(rng))
    case["lam"] = f2b(G.pos_dyadic(rng, hi=8.0))
    case["tight"] = False
    case["kw"] = None
    case["history"] = {"before": [int(i) for i in rng.integers(0, len(OTHER_KW), size=int(rng.integers(1, 4)))],
                       "after": [int(i) for i in rng.integers(0, len(OTHER_KW), size=int(rng.integers(0, 3)))]}
    case["small"] = True
    case["rescale"] = [["mul", "div", "setscale"][int(rng.integers(3))], f2b(G.pos_dyadic(rng))]
    return case


def build_sql2(scico, case):
    from scico import linop, loss
    import scico.numpy as snp

    cplx = case["cplx"]
    dt = G.cdt() if cplx else G.rdt()
    n, m = case["n"], case["m"]
    k = case["kind"]
    if k == "ident":
        A = None
    elif k == "sid":
        A = linop.ScaledIdentity(complex(G.unil(b2fs(case["s"]), cplx)[0]) if cplx else float(b2fs(case["s"])[0]), (n,), input_dtype=dt)
    elif k == "diag":
        A = linop.Diagonal(snp.array(G.unil(b2fs(case["d"]), cplx).astype(dt)), input_dtype=dt)
    elif k == "mat":
        A = linop.MatrixOperator(snp.array(np.stack([G.unil(b2fs(r), cplx) for r in case["M"]]).astype(dt)), input_cols=0)
    else:
        A = linop.SingleAxisFiniteDifference((n,), input_dtype=dt, axis=0, circular=True)
    y = snp.array(G.unil(b2fs(case["y"]), cplx).astype(dt))
    W = None if case["w"] is None else linop.Diagonal(snp.array(np.asarray(b2fs(case["w"])).astype(G.rdt())), input_dtype=G.rdt())
    hist = case.get("history") or {"before": [], "after": []}
    _other_losses(hist["before"])
    L = loss.SquaredL2Loss(y=y, A=A, scale=b2f(case["scale"]), W=W, prox_kwargs=_own_kw(case))
    _other_losses(hist["after"])
    return L, (linop.Identity((n,), input_dtype=dt) if A is None else A)


def _sql2_oracle(scico):
    def oracle(case):
        """independent numpy: solve the documented system densely and compare / measure the residual"""
        import scico.numpy as snp

        cplx = case["cplx"]
        dt = np.complex128 if cplx else np.float64
        L, A = build_sql2(scico, case)
        if dict(L.prox_kwargs) != _expected_kw(case):
            return {"what": "SquaredL2Loss.prox_kwargs is not this loss's own arguments merged into the defaults (maxiter=100, tol=1e-5)",
                    "prox_kwargs": dict(L.prox_kwargs), "expected": _expected_kw(case), "own argument": _own_kw(case),
                    "other losses built before/after": [[OTHER_KW[i] for i in (case.get("history") or {}).get(k_, [])] for k_ in ("before", "after")]}
        n = case["n"]
        Ad = _dense(A, n, dt)
        w = np.ones(case["m"]) if case["w"] is None else np.asarray(b2fs(case["w"]))
        y = G.unil(b2fs(case["y"]), cplx)
        v = G.unil(b2fs(case["v"]), cplx)
        c = 2 * b2f(case["scale"]) * b2f(case["lam"])
        lhs = np.eye(n) + c * Ad.conj().T @ (w[:, None] * Ad)
        rhs = v + c * Ad.conj().T @ (w * y)
        xs = np.linalg.solve(lhs, rhs)
        x = np.asarray(L.prox(snp.array(v), b2f(case["lam"])))
        tol = _expected_kw(case)["tol"]
        exact = case["kind"] in ("ident", "sid", "diag")
        res = np.linalg.norm(lhs @ x - rhs)
        nr = np.linalg.norm(rhs)
        bound = 1e-9 * (1 + nr) if exact else 3 * tol * nr + 1e-13 * (1 + nr)
        if res > bound:
            return {"what": "SquaredL2Loss.prox does not solve (I+2 a lam A^H W A)x = v+2 a lam A^H W y to the configured tolerance",
                    "residual": float(res), "bound": float(bound), "x": G.il(x, cplx).tolist(), "solution": G.il(xs, cplx).tolist()}
        zz = np.arange(1.0, n + 1) * (1 - 0.5j if cplx else 1.0)
        AWA = Ad.conj().T @ (w[:, None] * Ad)
        hz = np.asarray(L.hessian(snp.array(zz)))
        if not np.allclose(hz, 2 * b2f(case["scale"]) * (AWA @ zz), rtol=1e-9, atol=1e-9):
            return {"what": "SquaredL2Loss.hessian is not 2*scale*A^H W A", "z": G.il(zz, cplx).tolist(), "hessian(z)": G.il(hz, cplx).tolist(),
                    "2 scale A^H W A z": G.il(2 * b2f(case["scale"]) * (AWA @ zz), cplx).tolist()}
        if case.get("rescale"):
            how, cb = case["rescale"]
            c_ = b2f(cb)
            if how == "mul":
                L2, s2 = c_ * L, b2f(case["scale"]) * c_
            elif how == "div":
                L2, s2 = L / c_, b2f(case["scale"]) / c_
            else:
                L.set_scale(c_)
                L2, s2 = L, c_
            hz2 = np.asarray(L2.hessian(snp.array(zz)))
            if not np.allclose(hz2, 2 * s2 * (AWA @ zz), rtol=1e-9, atol=1e-9):
                return {"what": f"after use, the loss rescaled by {how} {c_} has a hessian that is not 2*(new scale {s2})*A^H W A (history: prox/hessian used, then rescaled)",
                        "z": G.il(zz, cplx).tolist(), "hessian(z)": G.il(hz2, cplx).tolist(), "expected": G.il(2 * s2 * (AWA @ zz), cplx).tolist()}
            c2 = 2 * s2 * b2f(case["lam"])
            lhs2 = np.eye(n) + c2 * Ad.conj().T @ (w[:, None] * Ad)
            rhs2 = v + c2 * Ad.conj().T @ (w * y)
            x2 = np.asarray(L2.prox(snp.array(v), b2f(case["lam"])))
            res2 = np.linalg.norm(lhs2 @ x2 - rhs2)
            nr2 = np.linalg.norm(rhs2)
            bound2 = 1e-9 * (1 + nr2) if exact else 3 * tol * nr2 + 1e-13 * (1 + nr2)
            if res2 > bound2:
                return {"what": f"after use, the loss rescaled by {how} {c_} has a prox that does not solve the system with the new scale {s2}",
                        "residual": float(res2), "bound": float(bound2), "x": G.il(x2, cplx).tolist(),
                        "solution": G.il(np.linalg.solve(lhs2, rhs2), cplx).tolist()}
        return None

    return oracle


def run_sql2_case(ctx, model, scico, case, oracle):
    import scico.numpy as snp

    cplx = case["cplx"]
    dt = np.complex128 if cplx else np.float64
    L, A = build_sql2(scico, case)
    n, m = case["n"], case["m"]
    kind = case["kind"]
    key = (kind, cplx, case["w"] is not None, n, m)
    ctx.case({"sql2": kind, "cplx": cplx, "n": n, "m": m, "weights": case["w"] is not None}, key)
    ctx.count(f"sql2:{kind}:{'complex' if cplx else 'real'}")
    ctx.count("sql2:weights" if case["w"] is not None else "sql2:no weights")
    v = snp.array(G.unil(b2fs(case["v"]), cplx))
    lam = b2f(case["lam"])
    if not L.has_prox:
        ctx.disagree("sql2.flags", case, False, True, oracle=oracle)
    # the CG settings of this loss are its own (history of other losses in case["history"])
    hist = case.get("history") or {"before": [], "after": []}
    ctx.count(f"sql2:history {len(hist['before'])} before / {len(hist['after'])} after")
    if dict(L.prox_kwargs) != _expected_kw(case):
        ctx.disagree("sql2.prox_kwargs", case, dict(L.prox_kwargs), _expected_kw(case), oracle=oracle,
                     note="prox_kwargs of this loss differ from its own arguments merged into the defaults")
    x = _impl(lambda: G.il(np.asarray(L.prox(v, lam)), cplx))
    if x[0] != "ok":
        ctx.disagree("sql2.prox", case, list(x), "ok", oracle=oracle, note="prox raised although has_prox is True")
        return
    Ad = _dense(A, n, dt)
    w = [1.0] * m if case["w"] is None else b2fs(case["w"])
    if kind in ("ident", "sid", "diag"):
        dvec = np.diag(Ad)
        got = model.call("sql2diag", cplx=cplx, scale=case["scale"], lam=case["lam"], w=case["w"],
                         a=fs2b(G.il(dvec, cplx)), y=case["y"], v=case["v"])
        if not _same_arr(x[1], b2fs(got)):
            ctx.disagree("sql2.diag", case, np.asarray(x[1]).tolist(), b2fs(got), oracle=oracle)
    # residual of the documented (proved) system at the returned point, computed by the model
    AR = _realify(Ad) if cplx else Ad
    wr = np.repeat(w, 2) if cplx else np.asarray(w)
    res = model.call("sql2res", scale=case["scale"], lam=case["lam"], A=[fs2b(r) for r in AR], ncols=AR.shape[1],
                     w=fs2b(wr), y=case["y"], v=case["v"], x=fs2b(x[1]))
    res = np.asarray(b2fs(res))
    c = 2 * b2f(case["scale"]) * lam
    rhs_norm = float(np.linalg.norm(np.asarray(b2fs(case["v"])) + c * (AR.T @ (wr * np.asarray(b2fs(case["y"]))))))
    tol = _expected_kw(case)["tol"]
    exact = kind in ("ident", "sid", "diag")
    # CG stops when norm(r) <= tol*norm(b): the bound is *relative* to the right-hand side (plus rounding of the
    # residual recurrence); the closed form is exact up to rounding
    bound = 1e-9 * (1 + rhs_norm) if exact else 3 * tol * rhs_norm + 1e-13 * (1 + rhs_norm)
    ctx.count("sql2:closed form" if exact else ("sql2:cg tight" if case["tight"] else "sql2:cg default tol"))
    if case.get("small"):
        ctx.count("sql2:small-magnitude data")
    if not float(np.linalg.norm(res)) <= bound:
        ctx.disagree("sql2.system", case, float(np.linalg.norm(res)), bound, oracle=oracle,
                     note="residual of (I+2 a lam A^H W A)x - (v+2 a lam A^H W y) at the returned x")
    # keyword `x0` (initial guess): the CG branch starts from it - directly and through a ScaledFunctional wrapper -,
    # from zeros when it is absent or None; the result still solves the system to the loss's tolerance
    if not exact:
        import scico.functional as F_
        import scico.loss as SL

        X0 = snp.array(G.dy(ctx.rng, (n,), cplx))
        seen = []
        real_cg = SL.cg

        def cg_rec(A_, b_, x0_=None, **kws):
            seen.append(np.asarray(x0_))
            return real_cg(A_, b_, x0_, **kws)

        SL.cg = cg_rec
        try:
            outs = [_impl(lambda: G.il(np.asarray(L.prox(v, lam, x0=X0)), cplx)),
                    _impl(lambda: G.il(np.asarray(F_.ScaledFunctional(L, 2.0).prox(v, lam / 2.0, x0=X0)), cplx)),
                    _impl(lambda: G.il(np.asarray(L.prox(v, lam, x0=None)), cplx))]
        finally:
            SL.cg = real_cg
        want0 = [np.asarray(X0), np.asarray(X0), np.zeros_like(np.asarray(v))]
        ctx.count("sql2:x0 keyword checked")
        for idx, (o_, w0) in enumerate(zip(outs, want0)):
            how_ = ["L.prox(v, lam, x0=X0)", "ScaledFunctional(L, 2).prox(v, lam/2, x0=X0)", "L.prox(v, lam, x0=None)"][idx]
            if o_[0] != "ok" or len(seen) <= idx or seen[idx].shape != w0.shape or not np.array_equal(seen[idx], w0):
                fail = {"what": f"{how_}: CG was not started from the given initial guess (zeros for None)",
                        "x0 given": None if idx == 2 else G.il(np.asarray(X0), cplx).tolist(),
                        "x0 used": None if len(seen) <= idx else G.il(seen[idx], cplx).tolist()}
                ctx.disagree("sql2.x0", case, fail["x0 used"], fail["x0 given"], oracle=lambda _c, fail=fail: fail)
                break
            r0 = np.asarray(b2fs(model.call("sql2res", scale=case["scale"], lam=case["lam"], A=[fs2b(r_) for r_ in AR], ncols=AR.shape[1],
                                            w=fs2b(wr), y=case["y"], v=case["v"], x=fs2b(o_[1]))))
            if not float(np.linalg.norm(r0)) <= bound:
                fail0 = {"what": f"{how_} does not solve (I+2 a lam A^H W A)x = v+2 a lam A^H W y to the configured tolerance (with the default start it does)",
                         "x0": None if idx == 2 else G.il(np.asarray(X0), cplx).tolist(), "residual": float(np.linalg.norm(r0)), "bound": bound,
                         "x": np.asarray(o_[1]).tolist()}
                ctx.disagree("sql2.x0.system", case, float(np.linalg.norm(r0)), bound, oracle=lambda _c, fail0=fail0: fail0, note=how_)
                break
    # the hessian the system is built from
    z = snp.array(G.dy(ctx.rng, (n,), cplx))
    hz = _impl(lambda: G.il(np.asarray(L.hessian(z)), cplx))
    want = 2 * b2f(case["scale"]) * (AR.T @ (wr * (AR @ G.il(np.asarray(z), cplx))))
    if hz[0] != "ok" or not _same_arr(hz[1], want):
        ctx.disagree("sql2.hessian", case, list(hz) if hz[0] != "ok" else np.asarray(hz[1]).tolist(), want.tolist(), oracle=oracle)
    # ---- the same loss rescaled *after* it has been used (c*L, L/c, L.set_scale(c)) ----
    if case.get("rescale"):
        how, cb = case["rescale"]
        c_ = b2f(cb)
        if how == "mul":
            L2, s2 = c_ * L, b2f(case["scale"]) * c_
        elif how == "div":
            L2, s2 = L / c_, b2f(case["scale"]) / c_
        else:
            L.set_scale(c_)
            L2, s2 = L, c_
        ctx.count("sql2:rescaled after use (" + how + ")")
        if how in ("mul", "div"):
            # c*L / L/c return a new loss; L keeps its scale and its prox
            x1 = _impl(lambda: G.il(np.asarray(L.prox(v, lam)), cplx))
            if L2 is L or float(L.scale) != b2f(case["scale"]) or x1[0] != "ok" or not (
                    _same_arr(x1[1], x[1]) if exact else np.linalg.norm(np.asarray(x1[1]) - np.asarray(x[1])) <= 1e2 * tol * (1 + np.linalg.norm(x[1]))):
                def alias_oracle(_c, L=L, how=how, c_=c_, before=x[1], after=x1):
                    return {"what": f"forming {'c*L' if how == 'mul' else 'L/c'} with c={c_} changed L itself",
                            "L.scale now": float(L.scale), "L.scale at construction": b2f(case["scale"]),
                            "L.prox(v) before": np.asarray(before).tolist(),
                            "L.prox(v) after": np.asarray(after[1]).tolist() if after[0] == "ok" else list(after), "v": case["v"], "lam": lam}
                ctx.disagree("sql2.alias", case, float(L.scale), b2f(case["scale"]), oracle=alias_oracle)
        x2 = _impl(lambda: G.il(np.asarray(L2.prox(v, lam)), cplx))
        if x2[0] != "ok":
            ctx.disagree("sql2.rescaled.prox", case, list(x2), "ok", oracle=oracle)
            return
        res2 = np.asarray(b2fs(model.call("sql2res", scale=f2b(s2), lam=case["lam"], A=[fs2b(r) for r in AR], ncols=AR.shape[1],
                                          w=fs2b(wr), y=case["y"], v=case["v"], x=fs2b(x2[1]))))
        rhs2 = float(np.linalg.norm(np.asarray(b2fs(case["v"])) + 2 * s2 * lam * (AR.T @ (wr * np.asarray(b2fs(case["y"]))))))
        bound2 = 1e-9 * (1 + rhs2) if exact else 3 * tol * rhs2 + 1e-13 * (1 + rhs2)
        if not float(np.linalg.norm(res2)) <= bound2:
            ctx.disagree("sql2.rescaled.system", case, float(np.linalg.norm(res2)), bound2, oracle=oracle,
                         note=f"after {how} by {c_}: residual of the documented system with the new scale {s2}")
        hz2 = _impl(lambda: G.il(np.asarray(L2.hessian(z)), cplx))
        want2 = 2 * s2 * (AR.T @ (wr * (AR @ G.il(np.asarray(z), cplx))))
        if hz2[0] != "ok" or not _same_arr(hz2[1], want2):
            ctx.disagree("sql2.rescaled.hessian", case, list(hz2) if hz2[0] != "ok" else np.asarray(hz2[1]).tolist(), want2.tolist(),
                         oracle=oracle, note=f"after {how} by {c_}")


def run_loss_flags(ctx, model, scico):
    """capability flags of the derived loss classes x forward-operator classes x sign of y: model rule `lossClsFlags`
    against the constructors; truthfulness on the code: flag False <=> prox raises NotImplementedError, flag True => value of
    the shape of v (that the value is the prox is C02 for the absolute-value losses, C08_sqL2_* for SquaredL2Loss)"""
    import scico.numpy as snp
    from scico import linop, loss, operator

    rng = ctx.rng
    classes = {"sql2": loss.SquaredL2Loss, "sql2abs": loss.SquaredL2AbsLoss, "sql2sqabs": loss.SquaredL2SquaredAbsLoss,
               "poisson": loss.PoissonLoss, "generic": loss.Loss}
    import itertools

    # complete grid class x forward-operator class x sign of y (60 configurations), random data; repeated in the thorough tier
    grid = list(itertools.product(list(classes), ["default", "identity", "sid", "diag", "linear", "nonlinear"], (False, True)))
    for cname, acls, yneg in grid * ctx.n(1, 6):
        n = int(rng.integers(1, 5))
        dt = np.float64
        y = np.abs(common.dyadic(rng, (n,), bits=2, scale=3.0)) + (0.0 if rng.random() < 0.5 else 0.25)
        if yneg:
            y[int(rng.integers(n))] = -float(rng.choice([0.5, 1.0, 2.0]))
        if acls == "default":
            A = None
        elif acls == "identity":
            A = linop.Identity((n,), input_dtype=dt)
        elif acls == "sid":
            A = linop.ScaledIdentity(float(rng.choice([0.5, 1.0, 2.0])), (n,), input_dtype=dt)
        elif acls == "diag":
            A = linop.Diagonal(snp.array(np.abs(common.dyadic(rng, (n,), bits=1, scale=2.0)) + 0.5), input_dtype=dt)
        elif acls == "linear":
            A = linop.MatrixOperator(snp.array(np.abs(common.dyadic(rng, (n, n), bits=1, scale=2.0)) + 0.25), input_cols=0)
        else:
            A = operator.Operator(input_shape=(n,), output_shape=(n,), eval_fn=lambda x: x * x + 1.0, input_dtype=dt)
        L = classes[cname](y=snp.array(y), A=A)
        mA = {"default": "identity", "identity": "identity", "sid": "sid", "diag": "diag", "linear": "linear", "nonlinear": "nonlinear"}[acls]
        r = model.call("lossflags", cls=cname, A=mA, ynonneg=not yneg)
        impl_flags = (bool(L.has_eval), bool(L.has_prox))
        case = {"lossflags": cname, "A": acls, "y": y.tolist()}
        ctx.case({"lossflags": cname, "A": acls, "yneg": yneg}, ("lossflags", cname, acls, yneg))
        ctx.count(f"lossflags:{cname}:{acls}:has_prox={impl_flags[1]}")
        v = snp.array(np.abs(common.dyadic(rng, (n,), bits=2, scale=3.0)) * float(rng.choice([0.125, 1.0])) + 0.125)
        lam = float(rng.choice([0.5, 4.0]))
        pr = _impl(lambda: np.asarray(L.prox(v, lam)))
        ev = _impl(lambda: float(L(v)))

        def oracle(_c, impl_flags=impl_flags, pr=pr, ev=ev, L=L, v=v, lam=lam, cname=cname, acls=acls):
            if impl_flags[1] and pr[0] == "err":
                return {"what": "has_prox is True but prox raises", "kind": pr[1], "v": np.asarray(v).tolist()}
            if not impl_flags[1] and pr[0] == "ok":
                return {"what": "has_prox is False but prox returns a value", "v": np.asarray(v).tolist()}
            if impl_flags[0] != (ev[0] == "ok"):
                return {"what": "has_eval does not tell whether __call__ works", "has_eval": impl_flags[0], "call": list(ev)[:1]}
            if impl_flags[1] and pr[0] == "ok" and cname in ("sql2abs", "sql2sqabs") and acls in ("default", "identity"):
                # advertised prox of a separable loss (A = I): is each entry a minimiser of lam*L + 0.5 (x - v)^2 ?  (grid search
                # over one entry at a time, the others kept at the returned values)
                p = np.asarray(pr[1], dtype=float)
                obj = lambda z: lam * float(L(snp.array(z))) + 0.5 * float(np.sum((z - np.asarray(v)) ** 2))  # noqa: E731
                base = obj(p)
                for i in range(p.size):
                    for c in np.linspace(-4.0, 4.0, 257):
                        z = p.copy()
                        z[i] = c
                        val = obj(z)
                        if val < base - 1e-7 * (1 + abs(base)):
                            return {"what": "has_prox is True but the returned point is not a minimiser of lam*L(x) + 0.5|x - v|^2",
                                    "y": np.asarray(L.y).tolist(), "v": np.asarray(v).tolist(), "lam": lam, "prox": p.tolist(),
                                    "objective_at_prox": base, "better_point": z.tolist(), "objective_there": val}
            return None

        if impl_flags != (r["he"], r["hp"]):
            ctx.disagree("loss.flags", case, list(impl_flags), [r["he"], r["hp"]], oracle=oracle)
        elif oracle(None) is not None:
            ctx.disagree("loss.flags.truthful", case, [list(impl_flags), pr[0], ev[0]], "flags truthful", oracle=oracle)
        elif pr[0] == "ok" and np.asarray(pr[1]).shape != (n,):
            ctx.disagree("loss.flags.shape", case, list(np.asarray(pr[1]).shape), [n])


def run_sql2_weights_shape(ctx, model, scico):
    """SquaredL2Loss with a weight diagonal whose length is n (used as is), 1 (broadcast) or something else (TypeError from
    broadcasting, at __call__ / prox time): model `wNormalize`"""
    import scico.numpy as snp
    from scico import linop, loss

    rng = ctx.rng
    for _ in range(ctx.n(24, 150)):
        cplx = bool(rng.random() < 0.3)
        n = int(rng.integers(2, 6))
        mode = ["same", "one", "other"][int(rng.integers(3))]
        m = n if mode == "same" else (1 if mode == "one" else int(rng.choice([k_ for k_ in range(2, 8) if k_ != n])))
        w = rng.integers(0, 5, size=m).astype(np.float64) / 2
        y, x = G.dy(rng, (n,), cplx), G.dy(rng, (n,), cplx)
        sc, lam = G.pos_dyadic(rng), G.pos_dyadic(rng)
        L = loss.SquaredL2Loss(y=snp.array(y), scale=sc, W=linop.Diagonal(snp.array(w), input_dtype=np.float64))
        ie = _impl(lambda: float(L(snp.array(x))))
        ip = _impl(lambda: G.il(np.asarray(L.prox(snp.array(x), lam)), cplx))
        try:
            r = model.call("sql2w", cplx=cplx, y=fs2b(G.il(y, cplx)), x=fs2b(G.il(x, cplx)), w=fs2b(w), scale=f2b(sc), lam=f2b(lam))
            me = _model_field(r, "eval")
            me = me if me[0] == "err" else ("ok", b2f(me[1]))
            mp = _model_field(r, "prox")
            mp = mp if mp[0] == "err" else ("ok", G.arg_json_flat(mp[1]))
        except ModelErr as e:
            me = mp = ("err", e.kind)
        case = {"sql2w": mode, "n": n, "m": m, "cplx": cplx, "w": w.tolist(), "x": fs2b(G.il(x, cplx)), "y": fs2b(G.il(y, cplx))}
        ctx.case({k_: case[k_] for k_ in ("sql2w", "n", "m", "cplx")}, ("sql2w", mode, cplx, n, m))
        ctx.count(f"sql2w:{mode}:" + (ie[0] if ie[0] == "ok" else "err-" + ie[1]))

        def oracle(_c, ie=ie, mode=mode, w=w, y=y, x=x, sc=sc):
            if mode != "other" and ie[0] == "ok":
                want = float(sc * np.sum(w * np.abs(y - x) ** 2))
                if not _same_num(ie[1], want, 64):
                    return {"what": "SquaredL2Loss value differs from scale*sum(w |y-x|^2) with the weights broadcast", "impl": ie[1], "formula": want}
            if mode == "other" and ie[0] == "ok":
                return {"what": "SquaredL2Loss accepted a weight diagonal that fits neither the data nor a scalar", "len(w)": len(w), "n": len(y)}
            return None

        if ie[0] != me[0] or (ie[0] == "err" and ie[1] != me[1]) or (ie[0] == "ok" and not _same_num(ie[1], me[1], 64)):
            ctx.disagree("sql2w.eval", case, list(ie), list(me), oracle=oracle)
        if ip[0] != mp[0] or (ip[0] == "err" and ip[1] != mp[1]) or (ip[0] == "ok" and not _same_arr(ip[1], mp[1])):
            ctx.disagree("sql2w.prox", case, [ip[0], ip[1] if ip[0] == "err" else np.asarray(ip[1]).tolist()],
                         [mp[0], mp[1] if mp[0] == "err" else np.asarray(mp[1]).tolist()], oracle=oracle)


def run_scale_kinds(ctx, model, scico):
    """ScaledFunctional.has_prox for every kind of scale object (positive / non-positive real, complex dtype incl. 2+0j, real
    and complex tracers inside jax.jit) x wrapped flag; value of (c*f)(x) for complex c is c*f(x)"""
    import jax
    import scico.functional as F
    import scico.numpy as snp

    rng = ctx.rng
    kinds = {"pos": [0.5, 2.0, 3], "nonpos": [0.0, -1.0, -2], "complex": [1j, -1j, 2 + 0j, np.complex128(0.5 + 0.5j)],
             "traced": [1.5, -1.5], "tracedcomplex": [1.5 + 0j, 1j]}
    for kind, vals in kinds.items():
        for c in vals:
            for inner in (True, False):
                f = F.L1Norm() if inner else (F.L1Norm() + F.L2Norm())
                if kind.startswith("traced"):
                    seen = []

                    def probe(cc, f=f, seen=seen):
                        g = F.ScaledFunctional(f, cc)
                        seen.append(bool(g.has_prox))
                        return g(snp.ones((2,), dtype=np.float64))

                    _ = jax.jit(probe)(c)
                    flag = seen[0]
                else:
                    flag = bool(F.ScaledFunctional(f, c).has_prox)
                    x = snp.array(G.dy(rng, (3,), False))
                    val = complex(F.ScaledFunctional(f, c)(x))
                    want = complex(c) * float(f(x))
                    if not (common.close(val.real, want.real, k=8, rtol=TOL) and common.close(val.imag, want.imag, k=8, rtol=TOL)):
                        ctx.disagree("scalekind.eval", {"kind": kind, "c": repr(c)}, repr(val), repr(want),
                                     oracle=lambda _c, val=val, want=want: {"what": "(c*f)(x) differs from c*f(x)", "impl": repr(val), "formula": repr(want)})
                m = bool(model.call("scalekind", kind=kind, inner=inner))
                ctx.case({"scalekind": kind, "c": repr(c), "inner": inner}, ("scalekind", kind, repr(c), inner))
                ctx.count(f"scalekind:{kind}:has_prox={flag}")
                if flag != m:
                    ctx.disagree("scalekind.flag", {"kind": kind, "c": repr(c), "inner": inner}, flag, m,
                                 oracle=lambda _c, flag=flag, kind=kind, c=c, inner=inner: (
                                     {"what": "ScaledFunctional advertises a prox for a scale that is not a positive real", "scale": repr(c), "kind": kind}
                                     if flag and kind in ("nonpos", "complex", "tracedcomplex") else
                                     ({"what": "ScaledFunctional advertises a prox although the wrapped functional has none", "scale": repr(c)} if flag and not inner else None)))


def run_sep_plain(ctx, model, scico):
    """SeparableFunctional applied to a PLAIN array (documented input: BlockArray): `len(x.shape)` is ndim, so the call is
    accepted iff ndim == k and then iterates over the leading axis, stopping at the shorter of (k functionals, shape[0]
    slices); otherwise ValueError.  Model: evalSepPlain / proxSepPlain."""
    import scico.functional as F
    import scico.numpy as snp

    rng = ctx.rng
    for _ in range(ctx.n(40, 300)):
        cplx = bool(rng.random() < 0.3)
        k = int(rng.integers(1, 4))
        ndim = k if rng.random() < 0.8 else int(rng.integers(1, 4))
        shape = tuple(int(rng.integers(1, 4)) for _ in range(ndim))
        tg = G.TreeGen(rng, cplx, allow_lossdefect=False, leaf_kinds=["l1", "sql2", "zero", "hubers", "l2"])
        slice_shape = shape[1:] if len(shape) > 1 else (1,)
        fs = []
        for _i in range(k):
            t = tg.leaf(G.BOTH_FLAGS)
            if rng.random() < 0.4:
                t = {"k": "scaled", "c": f2b(G.pos_dyadic(rng)), "f": t}
            fs.append(t)
        case = {"cplx": cplx, "leaves": tg.leaves, "ops": [], "fs": fs, "shape": list(shape)}
        a = G.dy(rng, shape, cplx)
        lam = G.pos_dyadic(rng)
        parts = [G.build(scico, dict(case, t=t, shape=list(slice_shape)))[0] for t in fs]
        obj = F.SeparableFunctional(parts)
        xj = snp.array(a)
        ie = _impl(lambda: float(obj(xj)))
        ip = _impl(lambda: [G.il(np.asarray(b), cplx) for b in obj.prox(xj, lam)])
        r = model.call("sepplain", cplx=cplx, leaves=case["leaves"], ops=[], fs=fs, shape=list(shape), x=fs2b(G.il(a, cplx)), lam=f2b(lam))
        me = _model_field(r, "eval")
        me = me if me[0] == "err" else ("ok", b2f(me[1]))
        mp = _model_field(r, "prox")
        case["x"] = fs2b(G.il(a, cplx))
        ctx.case({"sepplain": [G.tree_sig(t) for t in fs], "shape": list(shape), "cplx": cplx}, ("sepplain", k, shape, cplx))
        ctx.count(f"sepplain:k={k}:ndim={ndim}:leading={shape[0]}:" + (ie[0] if ie[0] == "ok" else "err-" + ie[1]))

        def oracle(_c, ie=ie, k=k, shape=shape, a=a, fs=fs, case=case):
            # what the code computes must at least be the documented separable sum when the array has exactly k slices
            if ie[0] == "ok" and len(shape) == k and shape[0] == k:
                want = sum(G.np_eval(dict(case, shape=list(a[i].shape) or [1]), [np.atleast_1d(a[i])], fs[i], tuple(a[i].shape) or (1,)) for i in range(k))
                if not _same_num(ie[1], want, 64):
                    return {"what": "SeparableFunctional on a (k, ...) array differs from the sum of f_i(x[i])", "impl": ie[1], "sum": want}
            if ie[0] == "ok" and len(shape) != k:
                return {"what": "SeparableFunctional accepted a plain array whose ndim differs from the number of functionals", "ndim": len(shape), "k": k}
            return None

        if ie[0] != me[0] or (ie[0] == "err" and ie[1] != me[1]) or (ie[0] == "ok" and not _same_num(ie[1], me[1], 64)):
            ctx.disagree("sepplain.eval", case, list(ie), list(me), oracle=oracle)
        if mp is not None:
            if mp[0] == "err":
                bad = ip[0] != "err" or ip[1] != mp[1]
            else:
                mblocks = [np.asarray(b2fs(b)) for b in mp[1]["b"]]
                bad = ip[0] != "ok" or len(ip[1]) != len(mblocks) or any(not _same_arr(p_, q_) for p_, q_ in zip(ip[1], mblocks))
            if bad:
                ctx.disagree("sepplain.prox", case, [ip[0], ip[1] if ip[0] == "err" else [np.asarray(p_).tolist() for p_ in ip[1]]],
                             [mp[0], mp[1] if mp[0] == "err" else [b2fs(b) for b in mp[1]["b"]]], oracle=oracle)


def run_kwargs(ctx, model, scico):
    """keyword arguments of prox / conj_prox are forwarded verbatim through every nesting (model `kwPlan`): every base
    functional the model lists receives exactly the caller's keywords, in the model's order, and a CG-branch SquaredL2Loss
    node starts CG from `x0` (zeros when absent or None).  Recorders are put on the leaf objects and on scico.loss.cg."""
    import scico.loss as SL
    import scico.numpy as snp

    rng = ctx.rng
    done = 0
    tries = 0
    while done < ctx.n(40, 300) and tries < 3000:
        tries += 1
        case = gen_tree_case(ctx, "valid")
        obj, info = G.build(scico, case)
        if obj is TypeError or not bool(obj.has_prox) or info.patterns:
            continue
        cplx = case["cplx"]
        shape = G.norm_shape(case["shape"])
        r = model.call("tree", cplx=cplx, leaves=case["leaves"], ops=case["ops"], t=case["t"], x=case["x"], v=case["v"], lam=case["lam"])
        want = [("leaf", c["leaf"]) if "leaf" in c else ("sql2op", c["sql2op"]) for c in r["kwplan"]]
        v = G.arg_to_scico(case["v"], shape, cplx)
        lam = b2f(case["lam"])
        plain = not isinstance(shape, list)
        marker = object()
        kw = {"foo": marker}
        mode = ["none", "x0", "x0=None"][int(rng.integers(3))] if plain else "none"
        x0 = None
        if mode == "x0":
            x0 = G.arg_to_scico(G.random_arg_json(rng, shape, cplx), shape, cplx)
            kw["x0"] = x0
        elif mode == "x0=None":
            kw["x0"] = None
        got = []
        ids = {id(o): i for i, o in info.leaf_objs.items()}
        for o in info.leaf_objs.values():
            orig = o.prox

            def rec(v_, lam_=1.0, _orig=orig, _o=o, **kws):
                got.append((("leaf", ids[id(_o)]), kws))
                return _orig(v_, lam_, **kws)

            o.prox = rec
        real_cg = SL.cg

        def cg_rec(A_, b_, x0_=None, **kws):
            got.append((("sql2op", None), {"x0": x0_}))
            return real_cg(A_, b_, x0_, **kws)

        SL.cg = cg_rec
        try:
            for which in ("prox", "conj_prox"):
                del got[:]
                res = _impl(lambda: getattr(obj, which)(v, lam, **kw))
                if res[0] != "ok":
                    continue
                seq = [g[0][0] if g[0][0] == "sql2op" else g[0] for g in got]
                wseq = [w[0] if w[0] == "sql2op" else w for w in want]
                bad = None
                if seq != wseq:
                    bad = {"what": f"{which}: receivers of the keyword arguments differ from the model", "got": seq, "model": wseq}
                else:
                    for (who, _), kws in got:
                        if who == "leaf" and not (kws.get("foo") is marker and (("x0" in kws) == ("x0" in kw)) and kws.get("x0") is kw.get("x0")):
                            bad = {"what": f"{which}: a base functional did not receive the caller's keyword arguments verbatim",
                                   "received keys": sorted(kws), "given keys": sorted(kw)}
                        if who == "sql2op":
                            z = np.asarray(kws["x0"])
                            # conj_prox calls prox(v / lam, ...): zeros either way; a given x0 is passed on unchanged
                            # (inside a separable functional the node sees one block: without x0 only "all zeros" is checked)
                            exp = np.asarray(x0) if x0 is not None else np.zeros_like(z)
                            if z.shape != exp.shape or not np.array_equal(z, exp):
                                bad = {"what": f"{which}: SquaredL2Loss started CG from something else than x0 / zeros", "x0 used": z.tolist(),
                                       "expected": exp.tolist()}
                if bad is not None:
                    ctx.disagree("tree.kwargs", dict(case, kw_mode=mode), bad.get("got", bad["what"]), bad.get("model", "verbatim"),
                                 oracle=lambda _c, bad=bad: bad)
        finally:
            SL.cg = real_cg
        ctx.case({"kwargs": G.tree_sig(case["t"]), "cplx": cplx, "mode": mode}, ("kwargs", G.tree_sig(case["t"]), mode) if want else None)
        ctx.count(f"kwargs:{mode}:{len(want)} receivers")
        done += 1


def run_default_precision(ctx, model, scico):
    """the library's DEFAULT precision (no jax_enable_x64; float32 / complex64 data and operators): a worker subprocess builds a sample
    of wrapper trees and SquaredL2Loss cases (closed form and CG path with its default tol = 1e-5) and computes flags, f(x), prox.
    Required: nothing raises that does not raise in x64 (same error kind), flags are the same, results stay 32-bit, values agree
    with the x64 results at a float32 relative tolerance (prox on the CG path: residual-free comparison at 5e-3).  Each
    disagreement is passed through the property oracle (documented formula / objective) before it is reported."""
    import subprocess
    import sys

    trees = []
    while len(trees) < ctx.n(40, 200):
        case = gen_tree_case(ctx, "valid")
        if "lin" in json.dumps(case["t"]) and False:
            continue
        trees.append(case)
    sql2 = [gen_sql2_case(ctx) for _ in range(ctx.n(16, 80))]
    for c_ in sql2:
        c_.pop("rescale", None)
    p = subprocess.run([sys.executable, str(common.VERIF / "harness" / "proxcalc_f32_worker.py")],
                       input=json.dumps({"repo": str(common.REPO), "trees": trees, "sql2": sql2}), capture_output=True, text=True,
                       env={k_: v_ for k_, v_ in os.environ.items() if k_ != "JAX_ENABLE_X64"})
    if p.returncode != 0:
        raise common.Infra("default-precision worker failed: " + p.stderr[-1200:])
    res = json.loads(p.stdout)
    F32 = ("float32", "complex64", "int32")  # (count_nonzero of L0Norm is an int32 in default precision)

    def close32(a, b, rt=2e-4):
        a, b = np.asarray(a, dtype=float).ravel(), np.asarray(b, dtype=float).ravel()
        if a.shape != b.shape:
            return False
        fin = np.isfinite(a) & np.isfinite(b)
        if not np.array_equal(np.isfinite(a), np.isfinite(b)):
            return False
        sc = 1 + (float(np.max(np.abs(b[fin]))) if fin.any() else 0.0)
        return bool(np.all(np.abs(a[fin] - b[fin]) <= rt * sc * max(1.0, np.sqrt(a.size))))

    for case, rec in zip(trees, res["trees"]):
        cplx = case["cplx"]
        shape = G.norm_shape(case["shape"])
        obj, info = G.build(scico, case)
        ctx.case({"default-precision": G.tree_sig(case["t"]), "cplx": cplx}, ("f32", G.tree_sig(case["t"]), cplx) if G.tree_depth(case["t"]) >= 1 else None)
        ctx.count("default-precision:tree")
        if obj is TypeError:
            if rec.get("build") != "type":
                ctx.disagree("f32.construct", case, rec.get("build"), "type")
            continue
        bad = []
        if "build" in rec:
            bad.append(("construction raises in default precision", rec["build"]))
        else:
            x = G.arg_to_scico(case["x"], shape, cplx)
            v = G.arg_to_scico(case["v"], shape, cplx)
            lam = b2f(case["lam"])
            e64 = _impl(lambda: float(obj(x)))
            p64 = _impl(lambda: G.arg_flat(obj.prox(v, lam), cplx))
            cg = "Ql" in G.tree_sig(case["t"])
            if rec["flags"] != [bool(obj.has_eval), bool(obj.has_prox)]:
                bad.append(("flags differ from x64", rec["flags"]))
            if rec["eval"][0] != e64[0] or (e64[0] == "err" and not rec["eval"][1].startswith(e64[1])):
                bad.append(("f(x): raises / returns differently from x64", rec["eval"]))
            elif e64[0] == "ok":
                if not close32([rec["eval"][1]], [e64[1]], 5e-4):
                    bad.append(("f(x) differs from the x64 value beyond float32 accuracy", [rec["eval"][1], e64[1]]))
                if rec.get("eval_dtype") not in F32 + ("python",):
                    bad.append(("f(x) is not a 32-bit value", rec.get("eval_dtype")))
            if rec["prox"][0] != p64[0] or (p64[0] == "err" and not rec["prox"][1].startswith(p64[1])):
                bad.append(("prox: raises / returns differently from x64", rec["prox"] if rec["prox"][0] == "err" else rec["prox"][0]))
            elif p64[0] == "ok":
                if not close32(rec["prox"][1], p64[1], 5e-3 if cg else 5e-4):
                    bad.append(("prox differs from the x64 result beyond float32 accuracy", [rec["prox"][1], np.asarray(p64[1]).tolist()]))
                if any(d_ != ("complex64" if cplx else "float32") for d_ in rec.get("prox_dtypes", [])):
                    bad.append(("prox result is not of the 32-bit dtype of its argument", rec.get("prox_dtypes")))
        if bad:
            def oracle(c_, bad=bad, rec=rec):
                # the property on the default-precision results: documented formula for f(x); any raise / dtype change is a failure by itself
                fail = {"mode": "default precision (jax_enable_x64 off, float32/complex64)", "what": bad[0][0], "details": [list(map(str, b_))[:2] for b_ in bad][:3]}
                try:
                    want = G.np_eval(c_, _blocks_of(c_, c_["x"]))
                    if "eval" in rec and rec["eval"][0] == "ok":
                        fail["formula"] = want
                        fail["f32 value"] = rec["eval"][1]
                except G.NotAvail:
                    pass
                return fail
            ctx.disagree("f32.tree", case, [b_[0] for b_ in bad], "as in x64 within float32 accuracy", oracle=oracle)
    for case, rec in zip(sql2, res["sql2"]):
        cplx = case["cplx"]
        ctx.case({"default-precision": "sql2", "kind": case["kind"], "cplx": cplx}, ("f32-sql2", case["kind"], cplx, case["w"] is not None))
        ctx.count("default-precision:sql2:" + case["kind"])
        bad = []
        if "build" in rec:
            bad.append(("construction raises in default precision", rec["build"]))
        else:
            L, A = build_sql2(scico, case)
            import scico.numpy as snp

            v = snp.array(G.unil(b2fs(case["v"]), cplx))
            lam = b2f(case["lam"])
            exact = case["kind"] in ("ident", "sid", "diag")
            tol = _expected_kw(case)["tol"]
            if rec["flags"] != [bool(L.has_eval), bool(L.has_prox)]:
                bad.append(("flags differ from x64", rec["flags"]))
            if {k_: float(v_) for k_, v_ in rec["kwargs"].items()} != {k_: float(v_) for k_, v_ in _expected_kw(case).items()}:
                bad.append(("prox_kwargs differ", rec["kwargs"]))
            e64 = float(L(v))
            if rec["eval"][0] != "ok" or not close32([rec["eval"][1]], [e64], 5e-4) or rec.get("eval_dtype") not in F32:
                bad.append(("f(x) raises / differs / is not 32-bit", [rec["eval"], rec.get("eval_dtype"), e64]))
            p64 = G.il(np.asarray(L.prox(v, lam)), cplx)
            # CG in float32 with tol (default 1e-5): accuracy of the solution is bounded by max(tol, float32 eps) times the conditioning
            rt = 5e-4 if exact else max(5e-3, 50 * tol)
            if rec["prox"][0] != "ok" or not close32(rec["prox"][1], p64, rt) or rec.get("prox_dtypes") != ["complex64" if cplx else "float32"]:
                bad.append(("prox raises / differs from x64 beyond float32 accuracy / is not 32-bit",
                            [rec["prox"][0], rec.get("prox_dtypes"), rec["prox"][1] if rec["prox"][0] == "ok" else rec["prox"][1], np.asarray(p64).tolist()]))
            h64 = G.il(np.asarray(L.hessian(v)), cplx)
            if rec["hessian"][0] != "ok" or not close32(rec["hessian"][1], h64, 5e-4):
                bad.append(("hessian raises / differs", rec["hessian"][0]))
        if bad:
            ctx.disagree("f32.sql2", case, [b_[0] for b_ in bad], "as in x64 within float32 accuracy",
                         oracle=lambda c_, bad=bad: {"mode": "default precision (jax_enable_x64 off, float32/complex64)", "what": bad[0][0],
                                                     "details": [str(b_[1])[:400] for b_ in bad][:3]})


def run_unit_factor(ctx, scico):
    """`1 * L`, `L * 1.0`, `L / 1`, ... are independent copies: rescaling the product in place leaves L alone (5 loss classes x
    6 ways of writing the unit factor; a history on the same objects)"""
    for desc, fail in G.unit_factor_failures(scico, ctx.rng, reps=ctx.n(1, 4)):
        ctx.case({"unit-factor": desc["class"], "form": desc["form"]}, ("unit-factor", desc["class"], desc["form"]))
        ctx.count("unit-factor:" + desc["form"])
        if fail is not None:
            ctx.disagree("loss.unit_factor", desc, fail.get("what"), "independent copy", oracle=lambda _c, fail=fail: fail)


def run_sql2_ctor(ctx, scico):
    """the hypothesis `W >= 0` of the SquaredL2Loss theorems is what the constructors enforce: a negative weight is
    rejected with ValueError, a weighting that is not a linop.Diagonal with TypeError (all three weighted losses)"""
    import scico.numpy as snp
    from scico import linop, loss

    rng = ctx.rng
    classes = [loss.SquaredL2Loss, loss.SquaredL2AbsLoss, loss.SquaredL2SquaredAbsLoss]
    for _ in range(ctx.n(12, 60)):
        cls = classes[int(rng.integers(3))]
        n = int(rng.integers(1, 5))
        y = snp.array(np.abs(common.dyadic(rng, (n,), bits=2, scale=3.0)))
        w = rng.integers(0, 5, size=n).astype(np.float64) / 2
        mode = ["negative", "zero-ok", "not-diagonal"][int(rng.integers(3))]
        if mode == "negative":
            w[int(rng.integers(n))] = -0.25
            W, want = linop.Diagonal(snp.array(w), input_dtype=np.float64), ("err", "value")
        elif mode == "zero-ok":
            w[int(rng.integers(n))] = 0.0
            W, want = linop.Diagonal(snp.array(w), input_dtype=np.float64), ("ok",)
        else:
            W, want = linop.MatrixOperator(snp.array(np.diag(w)), input_cols=0), ("err", "type")
        got = _impl(lambda: cls(y=y, W=W))
        got = (got[0],) if got[0] == "ok" else got
        ctx.case({"sql2ctor": cls.__name__, "mode": mode, "n": n}, ("sql2ctor", cls.__name__, mode))
        ctx.count(f"sql2ctor:{mode}:{got[0] if got[0] == 'ok' else got[1]}")
        if got != want:
            ctx.disagree("sql2.ctor", {"class": cls.__name__, "mode": mode, "w": w.tolist()}, list(got), list(want),
                         oracle=lambda _c, cls=cls, w=w, got=got: ({"what": f"{cls.__name__} accepted W.diagonal = {w.tolist()} (documented: must be non-negative / a linop.Diagonal)"} if got[0] == "ok" else None))


# --------------------------------------------------------------------------
# Moreau with an independent conjugate


def run_moreau(ctx, scico):
    """conj_prox against closed forms that do not go through `prox`:  (c‖·‖₁)* = indicator of the ∞-ball of radius c
    (prox = clip, for complex data radial clip), (c‖·‖²)* = ‖·‖²/(4c) (prox = v/(1+lam/(2c)))."""
    import scico.functional as F
    import scico.numpy as snp

    rng = ctx.rng
    for _ in range(ctx.n(30, 200)):
        cplx = bool(rng.integers(2))
        n = int(rng.integers(1, 6))
        c = G.pos_dyadic(rng)
        lam = G.pos_dyadic(rng)
        v = G.dy(rng, (n,), cplx, bits=2, scale=4.0)
        which = int(rng.integers(3))
        if which == 0:
            f = c * F.L1Norm()
            a = np.abs(v)
            want = np.where(a > c, v * (c / np.where(a > 0, a, 1)), v)
        elif which == 1:
            f = c * F.SquaredL2Norm()
            want = v / (1 + lam / (2 * c))
        else:
            f = F.ScaledFunctional(F.L2Norm(), c)  # conjugate = indicator of the 2-ball of radius c
            nv = np.linalg.norm(v)
            want = v if nv <= c else v * (c / nv)
        got = np.asarray(f.conj_prox(snp.array(v), lam))
        ctx.case({"moreau": ["l1", "sql2", "l2"][which], "cplx": cplx, "n": n}, ("moreau", which, cplx, n))
        ctx.count("moreau:" + ["l1<->inf-ball", "sql2", "l2<->2-ball"][which])
        if not _same_arr(G.il(got, cplx), G.il(want, cplx)):
            ctx.violation({"kind": "failing-input", "op": "moreau", "functional": ["c*L1", "c*SquaredL2", "c*L2"][which], "c": c,
                           "lam": lam, "v": G.il(v, cplx).tolist(), "conj_prox": G.il(got, cplx).tolist(),
                           "prox_of_conjugate": G.il(want, cplx).tolist()}, True,
                          "conj_prox differs from the prox of the conjugate computed independently")


# --------------------------------------------------------------------------
# entry points


def _corpus_cases():
    d = common.CORPUS_DIR / PROP
    out = []
    if d.exists():
        for f in sorted(d.glob("*.json")):
            c = json.loads(f.read_text())
            out.append((f.name, c))
    return out


def generate(ctx):
    """ast translator (round 4): rewrites lean/Scico/Generated/ProxCalcTables.lean from the working tree of $SCICO_REPO"""
    import proxcalc_translate

    tabs = proxcalc_translate.generate()
    ctx.extra["translated_tables"] = {"flag tables": sorted(tabs["flags"]), "call sites": len(tabs["calls"]), "defaults": len(tabs["defaults"]),
                                      "metric functions": [m for m, _ in tabs["metrics"]], "raise sites": len(tabs["raises"]),
                                      "prox classes": tabs["prox_classes"], "loss classes": tabs["loss_classes"]}
    return [("Scico.Generated.ProxCalcTables", "capability-flag logic of every wrapper constructor and loss class executed on all valuations = model (hasEval/hasProx/scaledHasProxOf/lossClsFlags); **kwargs forwarding sites and argument expressions; constructor defaults; raised exception classes; classes defining prox")]


def correspond(ctx, model):
    scico = common.setup_scico()
    oracle = _oracle(scico)
    soracle = _sql2_oracle(scico)
    for name, c in _corpus_cases():
        ctx.count("corpus")
        if c.get("type") == "sql2":
            run_sql2_case(ctx, model, scico, c["case"], soracle)
        elif c.get("type") == "tree":
            run_tree_case(ctx, model, scico, c["case"], oracle, "corpus")
    for _ in range(ctx.n(220, 2500)):
        run_tree_case(ctx, model, scico, gen_tree_case(ctx, "valid"), oracle, "valid")
    for _ in range(ctx.n(60, 600)):
        run_tree_case(ctx, model, scico, gen_tree_case(ctx, "boundary"), oracle, "boundary")
    for _ in range(ctx.n(15, 100)):
        run_tree_case(ctx, model, scico, gen_blockcount_case(ctx), oracle, "malformed")
    for _ in range(ctx.n(40, 400)):
        case = G.gen_translate_case(ctx.rng)
        shape = G.norm_shape(case["shape"])
        case["x"] = G.random_arg_json(ctx.rng, shape, False)
        case["v"] = G.random_arg_json(ctx.rng, shape, False)
        case["lam"] = f2b(G.pos_dyadic(ctx.rng))
        run_tree_case(ctx, model, scico, case, oracle, "translate")
    for _ in range(ctx.n(30, 250)):
        case = G.gen_same_object_case(ctx.rng)
        shape = G.norm_shape(case["shape"])
        case["x"] = G.random_arg_json(ctx.rng, shape, case["cplx"])
        case["v"] = G.random_arg_json(ctx.rng, shape, case["cplx"], scale=4.0)
        case["lam"] = f2b(G.pos_dyadic(ctx.rng))
        run_tree_case(ctx, model, scico, case, oracle, "same-object")
    for _ in range(ctx.n(80, 800)):
        run_sql2_case(ctx, model, scico, gen_sql2_case(ctx), soracle)
    for _ in range(ctx.n(25, 250)):
        run_sql2_case(ctx, model, scico, gen_sql2_small_case(ctx), soracle)
    for _ in range(ctx.n(40, 400)):
        case = G.gen_rescale_chain_case(ctx.rng)
        shape = G.norm_shape(case["shape"])
        case["x"] = G.random_arg_json(ctx.rng, shape, case["cplx"])
        case["v"] = G.random_arg_json(ctx.rng, shape, case["cplx"])
        case["lam"] = f2b(G.pos_dyadic(ctx.rng))
        run_tree_case(ctx, model, scico, case, oracle, "rescale-chain")
    run_sql2_weights_shape(ctx, model, scico)
    run_scale_kinds(ctx, model, scico)
    run_default_precision(ctx, model, scico)
    run_sep_plain(ctx, model, scico)
    run_kwargs(ctx, model, scico)
    run_unit_factor(ctx, scico)
    run_sql2_ctor(ctx, scico)
    run_loss_flags(ctx, model, scico)
    run_moreau(ctx, scico)


# witnesses of the two findings repaired by 1a0aadd / 689de28 (regression cases; they also sit in corpus/C08)
FIXED_WITNESSES = {
    # Loss(y, f=L1Norm()+L2Norm()) declared has_prox although f has none
    "loss-flags-untruthful": {
        "cplx": False, "leaves": [{"kind": "l1"}, {"kind": "l2"}], "ops": [], "shape": [3],
        "t": {"k": "loss", "y": {"a": fs2b([1.0, 2.0, 3.0])}, "A": None,
              "f": {"k": "sum", "f": {"k": "leaf", "id": 0}, "g": {"k": "leaf", "id": 1}}, "scale": f2b(1.0)},
        "x": {"a": fs2b([0.5, -1.0, 2.0])}, "v": {"a": fs2b([0.5, -1.0, 2.0])}, "lam": f2b(1.0),
    },
    # (-1)*L1Norm() declared has_prox; its prox at v=0 returns 0 whereas -|x|+x²/2 is minimised at ±1
    "scaled-nonpositive-scale": {
        "cplx": False, "leaves": [{"kind": "l1"}], "ops": [], "shape": [3],
        "t": {"k": "mul", "c": f2b(-1.0), "side": 0, "f": {"k": "leaf", "id": 0}},
        "x": {"a": fs2b([0.0, 1.0, -0.5])}, "v": {"a": fs2b([0.0, 1.0, -0.5])}, "lam": f2b(1.0),
    },
}


def _loss_nonpos_witness(scico):
    """known finding `loss-nonpositive-scale`: L = (-1.0) * Loss(y=[0,0], f=L1Norm()) advertises has_prox, and
    L.prox([0,0], 1) = [0,0] although x -> -|x|_1 + 0.5|x|^2 is smaller at [1,1] (objective -1 < 0).
    -> True when the witness still fails exactly like that"""
    import scico.functional as F
    import scico.numpy as snp
    from scico import loss

    y = snp.zeros((2,), dtype=np.float64)
    L = (-1.0) * loss.Loss(y=y, f=F.L1Norm())
    if not bool(L.has_prox):
        return False
    p = np.asarray(L.prox(y, 1.0))
    obj = lambda z: float(L(snp.array(z))) + 0.5 * float(np.sum((z - np.asarray(y)) ** 2))  # noqa: E731
    return bool(np.all(p == 0.0)) and obj(np.ones(2)) < obj(p) - 0.5


def findings(ctx, model):
    """`known:` entry loss-nonpositive-scale; the witnesses of the two repaired findings are run as ordinary cases"""
    scico = common.setup_scico()
    oracle = _oracle(scico)
    for fid, case in FIXED_WITNESSES.items():
        run_tree_case(ctx, model, scico, case, oracle, "regression")
        ctx.known_finding(fid, False)
    ctx.known_finding("loss-nonpositive-scale", _loss_nonpos_witness(scico))


def search(ctx, model, why):
    """failing-input search on the implementation alone (thorough tier): minimiser / flag / formula oracle on random
    nestings of prox-capable bases, Moreau with independent conjugates is part of correspond()."""
    scico = common.setup_scico()
    oracle = _oracle(scico)
    rng = ctx.rng
    if why is not None:
        # broken generated obligation: targeted panel on the functions whose pinned table rows differ
        import proxcalc_translate

        rows = proxcalc_translate.differing_rows()
        ctx.extra["differing_table_rows"] = rows
        soracle = _sql2_oracle(scico)

        def trees(c, stream="valid", n_=(120, 600)):
            for _ in range(c.n(*n_)):
                run_tree_case(c, model, scico, gen_tree_case(c, stream), oracle, stream)

        def same_obj(c):
            for _ in range(c.n(30, 250)):
                case = G.gen_same_object_case(c.rng)
                shape = G.norm_shape(case["shape"])
                case["x"] = G.random_arg_json(c.rng, shape, case["cplx"])
                case["v"] = G.random_arg_json(c.rng, shape, case["cplx"], scale=4.0)
                case["lam"] = f2b(G.pos_dyadic(c.rng))
                run_tree_case(c, model, scico, case, oracle, "same-object")

        def translate(c):
            for _ in range(c.n(40, 400)):
                case = G.gen_translate_case(c.rng)
                shape = G.norm_shape(case["shape"])
                case["x"] = G.random_arg_json(c.rng, shape, False)
                case["v"] = G.random_arg_json(c.rng, shape, False)
                case["lam"] = f2b(G.pos_dyadic(c.rng))
                run_tree_case(c, model, scico, case, oracle, "translate")

        def sql2(c):
            for _ in range(c.n(80, 800)):
                run_sql2_case(c, model, scico, gen_sql2_case(c), soracle)

        S = {"trees": trees, "boundary": lambda c: trees(c, "boundary", (60, 600)), "same": same_obj, "translate": translate, "sql2": sql2,
             "flags": lambda c: run_loss_flags(c, model, scico), "kwargs": lambda c: run_kwargs(c, model, scico), "unit": lambda c: run_unit_factor(c, scico),
             "ctor": lambda c: run_sql2_ctor(c, scico), "scale": lambda c: run_scale_kinds(c, model, scico), "sep": lambda c: run_sep_plain(c, model, scico),
             "moreau": lambda c: run_moreau(c, scico), "w": lambda c: run_sql2_weights_shape(c, model, scico)}
        pick = []
        for r_ in rows:
            cls, _, meth = r_.partition(".")
            if cls == "SquaredL2Loss":
                pick += ["sql2", "w", "ctor", "flags", "trees"]
            elif cls in ("SquaredL2AbsLoss", "SquaredL2SquaredAbsLoss", "PoissonLoss"):
                pick += ["flags", "ctor", "unit"]
            elif cls == "SeparableFunctional":
                pick += ["same", "sep", "trees", "kwargs"]
            elif cls == "ScaledFunctional":
                pick += ["trees", "boundary", "scale", "kwargs", "moreau"]
            elif cls == "Loss":
                pick += ["translate", "trees", "unit", "kwargs", "flags"]
            elif cls == "Functional":
                pick += ["moreau", "trees", "kwargs"]
            elif cls in ("FunctionalSum", "ZeroFunctional"):
                pick += ["trees"]
        if not pick:
            pick = ["trees", "boundary", "flags", "scale", "same", "translate", "sql2", "kwargs", "unit", "ctor", "sep", "moreau", "w"]
        seen, order = set(), []
        for k_ in pick:
            if k_ not in seen:
                seen.add(k_)
                order.append(S[k_])
        return G.panel(ctx, order, rows)
    for _ in range(ctx.n(40, 400)):
        cplx = bool(rng.integers(2))
        shape = G.random_shape(rng, bool(rng.integers(2)))
        tg = G.TreeGen(rng, cplx, allow_lossdefect=False, leaf_kinds=["l1", "sql2", "l2", "hubers", "hubern", "zero"])
        case = tg.case(int(rng.integers(1, 4)), shape)
        case["x"] = G.random_arg_json(rng, shape, cplx)
        case["v"] = G.random_arg_json(rng, shape, cplx)
        case["lam"] = f2b(G.pos_dyadic(rng))
        ctx.count("search:cases")
        r = oracle(case)
        if r is not None:
            return {"case": case, "failing": r}
    return None


def replay(ctx, model, case):
    scico = common.setup_scico()
    c = case.get("case", case)
    if "kind" in c and "n" in c and "t" not in c:
        r = _sql2_oracle(scico)(c)
    else:
        r = _oracle(scico)(c)
    print("replay:", "property FAILS on implementation:" if r else "no failure at this input", json.dumps(r, default=str)[:600] if r else "")
    if r:
        ctx.violation({"kind": "failing-input", "case": c, "failing": r}, True, "replay")
