"""C09 - functionals, losses and metrics evaluate to their definitions (engine ProxCalc, model FuncEval).

Every `__call__` of scico.functional / scico.loss and every function of scico.metric is run on the real
code and on the Lean model `Scico.Model.FuncEval` (evaluation formulas) / `Scico.Model.ProxCalc.eval`
(wrapper arithmetic) with the same dyadic inputs; an independent numpy formula is the property oracle.
"""

from __future__ import annotations

import itertools
import json

import numpy as np

import common
import proxcalc_gen as G
from common import ModelErr, b2f, b2fs, f2b, fs2b

PROP = "C09"
CLAIMED = True
ENGINE = "ProxCalc"
DESIGN_REF = "DESIGN.md §5.2"
TECHNIQUE = (
    "Lean 4 proof about an executable model of every evaluation formula (block = concatenation lemmas by list "
    "induction, indicator range, Huber tie, wrapper arithmetic by induction on the constructor tree, finite-difference "
    "boundary handling, metric identities over the reals) + differential correspondence of the model with scico"
)
LEVEL_TEXT = (
    "Theorems: full reductions on a block argument equal the sum / root-sum-square / count over blocks (any number and "
    "sizes of blocks), L2,1 with l2_axis=None is the sum of block norms; indicators take values in {0, +inf} and are 0 "
    "exactly on their set; the two Huber branches agree at delta; c*f, f*c, f/c, f+g, SeparableFunctional, Loss evaluate "
    "to the arithmetic combination for every nesting; the code-shaped finite difference (append a copy, then diff) is the "
    "documented matrix for append=0 and circular, lifted to every axis of an N-d array (fibre by fibre), and the TV norms are "
    "the documented sums over those differences; L2,1 over the leading axis of a stack; metric identities (mse>=0, "
    "mse=0 iff equal, psnr/snr/isnr relations, rel_res definition with its zero-denominator case, rel_res<=2); nuclear norm on "
    "the singular values (bounds against the Frobenius norm); ProximalAverage weights sum to one; losses: non-negativity, "
    "SquaredL2AbsLoss<=SquaredL2Loss, block = concatenation, Poisson minimum. Tie: every functional/loss/metric x parameter grid x "
    "real/complex x plain/block compared with the model on dyadic data incl. zeros, ties at delta / radius, on-set and "
    "off-set points."
)
LEVEL_NOTE = (
    "Trusted: Lean kernel + Mathlib (propext, Classical.choice, Quot.sound); real-number idealisation (sums are exact on "
    "the dyadic data used, sqrt/log are tied numerically at 1e-9); jax.numpy reductions/elementwise maps as contracts; "
    "the SVD inside NuclearNorm is a contract (singular values supplied, tied against numpy's SVD and exact cases); denoiser "
    "functionals and TV prox are outside; gammaln of PoissonLoss is supplied by scipy; L2,1 over an arbitrary axis subset is "
    "proved for l2_axis=0 (default, used by IsotropicTVNorm) and tied numerically otherwise."
)
PROP_MODULES = ["Scico.Props.C09"]
EXTRA_TARGETS = ["Drv.ProxCalc"]
DRIVER = "ProxCalc"
FILES = [
    "scico/functional/_norm.py", "scico/functional/_indicator.py", "scico/functional/_dist.py",
    "scico/functional/_tvnorm.py", "scico/functional/_proxavg.py", "scico/functional/_functional.py",
    "scico/loss.py", "scico/metric.py", "scico/linop/_diff.py",
]
RULE = (
    "base: 11 functional classes x parameters (delta, beta, radius dyadic) x {float64, complex128} x {1-D, 2-D, block of 1-3 "
    "arrays}; streams: random dyadic, and boundary (all zeros, |x_i| exactly delta, ||x|| exactly radius (Pythagorean), one "
    "negative entry / none, -0.0). L2,1 with axis: shapes of rank 1-3, every axis subset. TV: anisotropic/isotropic x "
    "circular x every axes subset x shapes of rank 1-3 (sizes 1-4). Losses: 4 classes x {Identity, Diagonal, Matrix} x "
    "weights (zeros) x scale. ProximalAverage: weights given/default, no_inf_eval, indicator members. Wrappers: constructor "
    "trees as in C08. Metrics: 7 functions x real/complex x shapes; boundary: equal images, zero images, constant "
    "reference. A case is non-trivial unless the argument is all zeros; distinct by (class, parameters, dtype, shape kind, stream)."
)
ASSUMPTIONS = [
    "jax.numpy sum / abs / sqrt / where / diff / var / mean / log10 are the mathematical operations (contract, tied at 1e-9)",
    "add_full_reduction concatenates the ravelled blocks (property C13)",
    "the projection passed to SetDistance is evaluated by the caller (the model takes P(x) as an input)",
]

TOL = 1e-9


def _impl(fn):
    try:
        return ("ok", fn())
    except Exception as e:  # noqa: BLE001
        return ("err", common.err_kind(e))


def _model(model, op, **kw):
    try:
        return ("ok", b2f(model.call(op, **kw)))
    except ModelErr as e:
        return ("err", e.kind)


def _agree(a, b, k=64):
    if a[0] != b[0]:
        return False
    if a[0] == "err":
        return a[1] == b[1]
    return common.close(a[1], b[1], k=k, rtol=TOL)


def _check(ctx, op, case, impl, mod, formula, k=64):
    """compare implementation and model; the oracle compares the implementation with the independent formula"""

    def oracle(_case):
        if impl[0] == "ok" and formula is not None and not common.close(impl[1], formula, k=k, rtol=1e-8):
            return {"what": "value differs from the documented formula", "impl": impl[1], "formula": formula}
        if impl[0] == "err" and mod[0] == "ok" and formula is not None:
            return {"what": "evaluation raises where the documented formula has a value", "impl_error_kind": impl[1], "formula": formula}
        return None

    if not _agree(impl, mod, k):
        ctx.disagree(op, case, list(impl), list(mod), oracle=oracle)
    elif impl[0] == "ok" and formula is not None and not common.close(impl[1], formula, k=k, rtol=1e-8):
        # model and code agree with each other but not with the documented formula
        ctx.disagree(op + ".formula", case, list(impl), formula, oracle=oracle)


# --------------------------------------------------------------------------
# base functionals


def _boundary_array(rng, shape, cplx, leaf):
    """inputs on the decision boundaries of the functional"""
    n = int(np.prod(shape))
    kind = leaf["kind"]
    mode = int(rng.integers(5))
    if kind in ("l2ball", "hubers", "hubern") and rng.random() < 0.5:
        mode = 1  # on the threshold
    if kind == "nonneg" and rng.random() < 0.5:
        mode = 2  # on the set, zeros included
    if mode == 0:
        a = np.zeros(shape)
    elif mode == 1 and kind in ("hubers", "hubern"):
        d = b2f(leaf["delta"])
        if kind == "hubers":
            a = d * rng.choice([-1.0, 1.0, 0.5, 2.0], size=shape)  # |x_i| = delta exactly for many entries
        else:
            a = np.zeros(shape)
            a.flat[0] = d  # ||x|| = delta exactly
    elif mode == 1 and kind == "l2ball":
        r = b2f(leaf["radius"])
        a = np.zeros(shape)
        if n >= 2:
            a.flat[0], a.flat[1] = 0.6 * r, 0.8 * r  # on the sphere up to rounding; exact for r multiple of 5/4..
            a.flat[0], a.flat[1] = 3 * r / 5, 4 * r / 5
        else:
            a.flat[0] = r
    elif mode == 2:
        a = np.abs(common.dyadic(rng, shape, bits=2, scale=3.0))  # non-negative: on the set of NonNegativeIndicator
        a.flat[int(rng.integers(n))] = 0.0  # a boundary point of the orthant
    elif mode == 3:
        a = np.abs(common.dyadic(rng, shape, bits=2, scale=3.0))
        a.flat[int(rng.integers(n))] = -0.25  # exactly one negative entry
    else:
        a = common.dyadic(rng, shape, bits=2, scale=3.0)
        a.flat[int(rng.integers(n))] = -0.0
    if cplx:
        if mode == 1 and kind in ("hubers",):
            a = a * (1j if rng.random() < 0.5 else 1.0)
        elif mode != 0:
            a = a + 1j * np.where(rng.random(shape) < 0.5, 0.0, common.dyadic(rng, shape, bits=2, scale=3.0))
        a = a.astype(np.complex128)
    return a


def run_base(ctx, model, scico):
    import scico.functional as F
    import scico.numpy as snp

    rng = ctx.rng
    for _ in range(ctx.n(330, 3300)):
        cplx = bool(rng.random() < 0.4)
        kinds = [k for k in (G.LEAF_KINDS_CPLX if cplx else G.LEAF_KINDS_REAL) if k != "custom"]
        block = bool(rng.random() < 0.35)
        if block:
            kinds = [k for k in kinds if k in G.LEAF_KINDS_BLOCK or k in ("nonneg", "l2ball", "l1ml2")]
        leaf = G.gen_leaf(rng, cplx, kinds)
        shape = G.random_shape(rng, block)
        stream = "boundary" if rng.random() < 0.35 else "random"
        shapes = shape if block else [shape]
        if stream == "boundary":
            arrs = [_boundary_array(rng, s, cplx, leaf) for s in shapes]
        else:
            arrs = [G.dy(rng, s, cplx) for s in shapes]
        x = snp.blockarray([snp.array(a) for a in arrs]) if block else snp.array(arrs[0])
        obj = G.build_leaf(F, leaf)
        xj = G.arg_json(x, cplx)
        impl = _impl(lambda: float(obj(x)))
        req = {"fn": leaf["kind"], "cplx": cplx, "x": xj}
        for p in ("delta", "beta", "radius"):
            if p in leaf:
                req[p] = leaf[p]
        mod = _model(model, "feval", **req)
        try:
            formula = G.np_leaf(leaf, arrs)
        except G.NotAvail:
            formula = None
        if leaf["kind"] == "nonneg" and cplx:
            formula = None
        nz = any(np.any(a != 0) for a in arrs)
        case = {"leaf": leaf, "cplx": cplx, "shape": [list(s) for s in shapes], "block": block, "x": xj, "stream": stream}
        ctx.case({k: case[k] for k in ("leaf", "cplx", "shape", "block", "stream")},
                 (leaf["kind"], json.dumps(leaf, sort_keys=True), cplx, block, len(shapes[0]), stream) if nz else None)
        ctx.count(f"base:{leaf['kind']}")
        ctx.count(f"base:{stream}:{'complex' if cplx else 'real'}:{'block' if block else 'plain'}")
        if impl[0] == "ok" and np.isinf(impl[1]):
            ctx.count("base:value=+inf")
        _check(ctx, "feval." + leaf["kind"], case, impl, mod, formula)
        # exact-arithmetic stream: on real dyadic data these kinds involve only exactly representable sums / products
        # (no sqrt, no division by a non-power of two), so code, model and formula must agree to the last bit
        if (not cplx) and leaf["kind"] in EXACT_KINDS and impl[0] == "ok" and mod[0] == "ok" and formula is not None:
            ctx.count("base:exact (bit-for-bit) comparison")
            if not (impl[1] == mod[1] == formula or (np.isinf(impl[1]) and np.isinf(mod[1]) and np.isinf(formula))):
                ctx.disagree("feval.exact." + leaf["kind"], case, impl[1], [mod[1], formula],
                             oracle=lambda _c, impl=impl, formula=formula: {"what": "value differs from the exactly computable documented value",
                                                                            "impl": repr(impl[1]), "formula": repr(formula)})


EXACT_KINDS = {"zero", "l0", "l1", "sql2", "hubers", "nonneg"}


def run_l21_axes(ctx, model, scico):
    import scico.functional as F
    import scico.numpy as snp

    rng = ctx.rng
    for _ in range(ctx.n(60, 600)):
        cplx = bool(rng.random() < 0.4)
        rank = int(rng.integers(1, 4))
        shape = tuple(int(rng.integers(1, 4)) for _ in range(rank))
        subsets = [c for r in range(1, rank + 1) for c in itertools.combinations(range(rank), r)]
        axes = subsets[int(rng.integers(len(subsets)))]
        a = G.dy(rng, shape, cplx) if rng.random() < 0.8 else np.zeros(shape, dtype=np.complex128 if cplx else np.float64)
        l2_axis = axes[0] if (len(axes) == 1 and rng.random() < 0.5) else axes
        obj = F.L21Norm(l2_axis=l2_axis)
        impl = _impl(lambda: float(obj(snp.array(a))))
        mod = _model(model, "feval", fn="l21axes", cplx=cplx, shape=list(shape), axes=list(axes), x=fs2b(G.il(a, cplx)))
        formula = float(np.sum(np.sqrt(np.sum(np.abs(a) ** 2, axis=axes))))
        case = {"shape": list(shape), "axes": list(axes), "cplx": cplx, "x": fs2b(G.il(a, cplx))}
        ctx.case({"l21": list(shape), "axes": list(axes), "cplx": cplx}, ("l21", shape, axes, cplx) if np.any(a != 0) else None)
        ctx.count(f"l21axes:rank{rank}:{len(axes)}axes")
        _check(ctx, "feval.l21axes", case, impl, mod, formula)


HOMOG = {"l1": 1, "l2": 1, "l21none": 1, "l1ml2": 1, "sql2": 2}


def run_tiny(ctx, model, scico):
    """positively homogeneous functionals on data of magnitude 2^-40 (exact scaling by a power of two): f(s x) / s^d must
    equal the model's f(x).  The absolute part of the tolerance rule is meaningless at that magnitude, so the value is
    rescaled (exactly) before it is compared.  Guards against absolute thresholds creeping into the formulas."""
    import scico.functional as F
    import scico.numpy as snp

    rng = ctx.rng
    sc = 2.0 ** -40
    for _ in range(ctx.n(40, 400)):
        cplx = bool(rng.random() < 0.4)
        which = int(rng.integers(3))
        if which == 0:
            kind = list(HOMOG)[int(rng.integers(len(HOMOG)))]
            block = bool(rng.random() < 0.35) and kind != "l1ml2"
            leaf = {"kind": kind} if kind != "l1ml2" else {"kind": kind, "beta": f2b(float(rng.integers(0, 5)) / 4)}
            shape = G.random_shape(rng, block)
            shapes = shape if block else [shape]
            arrs = [G.dy(rng, s_, cplx) for s_ in shapes]
            x = snp.blockarray([snp.array(a * sc) for a in arrs]) if block else snp.array(arrs[0] * sc)
            deg = HOMOG[kind]
            impl = _impl(lambda: float(G.build_leaf(F, leaf)(x)) / sc**deg)
            req = {"fn": kind, "cplx": cplx, "x": G.arg_json(snp.blockarray([snp.array(a) for a in arrs]) if block else snp.array(arrs[0]), cplx)}
            if "beta" in leaf:
                req["beta"] = leaf["beta"]
            mod = _model(model, "feval", **req)
            formula = G.np_leaf(leaf, arrs)
            case = {"tiny": kind, "leaf": leaf, "cplx": cplx, "shape": [list(s_) for s_ in shapes], "block": block, "x": req["x"], "scale": "2^-40"}
            ctx.case({k: case[k] for k in ("tiny", "cplx", "shape", "block")}, ("tiny", kind, cplx, block, len(shapes[0])))
        elif which == 1:
            rank = int(rng.integers(2, 4))
            shape = tuple(int(rng.integers(1, 4)) for _ in range(rank))
            subsets = [c for r_ in range(1, rank + 1) for c in itertools.combinations(range(rank), r_)]
            axes = subsets[int(rng.integers(len(subsets)))]
            a = G.dy(rng, shape, cplx)
            impl = _impl(lambda: float(F.L21Norm(l2_axis=axes)(snp.array(a * sc))) / sc)
            mod = _model(model, "feval", fn="l21axes", cplx=cplx, shape=list(shape), axes=list(axes), x=fs2b(G.il(a, cplx)))
            formula = float(np.sum(np.sqrt(np.sum(np.abs(a) ** 2, axis=axes))))
            case = {"tiny": "l21axes", "shape": list(shape), "axes": list(axes), "cplx": cplx, "x": fs2b(G.il(a, cplx)), "scale": "2^-40"}
            ctx.case({k: case[k] for k in ("tiny", "cplx", "shape", "axes")}, ("tiny-l21", shape, axes, cplx))
        else:
            rank = int(rng.integers(1, 4))
            shape = tuple(int(rng.integers(1, 5)) for _ in range(rank))
            subsets = [c for r_ in range(1, rank + 1) for c in itertools.combinations(range(rank), r_)]
            axes = subsets[int(rng.integers(len(subsets)))]
            circ, iso = bool(rng.integers(2)), bool(rng.integers(2))
            a = G.dy(rng, shape, cplx)
            dt = np.complex128 if cplx else np.float64
            cls = F.IsotropicTVNorm if iso else F.AnisotropicTVNorm
            impl = _impl(lambda: float(cls(circular=circ, axes=axes, input_dtype=dt)(snp.array(a * sc))) / sc)
            comps = [fs2b(a.real.ravel()), fs2b(a.imag.ravel())] if cplx else [fs2b(a.ravel())]
            mod = _model(model, "feval", fn="tv", cplx=cplx, iso=iso, circular=circ, shape=list(shape), axes=list(axes), comps=comps)
            ds = np.stack([_np_fd(a, ax, circ) for ax in axes])
            formula = float(np.sum(np.sqrt(np.sum(np.abs(ds) ** 2, axis=0)))) if iso else float(np.sum(np.abs(ds)))
            case = {"tiny": "tv", "iso": iso, "circular": circ, "shape": list(shape), "axes": list(axes), "cplx": cplx, "comps": comps, "scale": "2^-40"}
            ctx.case({k: case[k] for k in ("tiny", "iso", "circular", "shape", "axes", "cplx")}, ("tiny-tv", iso, circ, shape, axes, cplx))
        ctx.count("tiny:" + case["tiny"])
        _check(ctx, "feval.tiny." + case["tiny"], case, impl, mod, formula, k=256)


def run_l21_call(ctx, model, scico):
    """`L21Norm.__call__` argument check: a block argument is accepted with l2_axis=None only (ValueError otherwise)"""
    import scico.functional as F
    import scico.numpy as snp

    rng = ctx.rng
    for _ in range(ctx.n(20, 150)):
        cplx = bool(rng.random() < 0.3)
        shape = G.random_shape(rng, True)
        arrs = [G.dy(rng, s_, cplx) for s_ in shape]
        x = snp.blockarray([snp.array(a) for a in arrs])
        axis = None if rng.random() < 0.3 else (0 if rng.random() < 0.5 else (0,))
        impl = _impl(lambda: float(F.L21Norm(l2_axis=axis)(x)))
        mod = _model(model, "feval", fn="l21call", cplx=cplx, axes=None if axis is None else [0], shape=None, x=G.arg_json(x, cplx))
        formula = float(sum(np.sqrt(np.sum(np.abs(a) ** 2)) for a in arrs)) if axis is None else None
        case = {"l21call": "block", "axis": None if axis is None else 0, "cplx": cplx, "shape": [list(s_) for s_ in shape], "x": G.arg_json(x, cplx)}
        ctx.case({k: case[k] for k in ("l21call", "axis", "cplx", "shape")}, ("l21call", axis is None, cplx, len(shape)))
        ctx.count("l21call:block:" + ("l2_axis=None" if axis is None else "l2_axis given -> " + (impl[1] if impl[0] == "err" else "value")))

        def oracle(_c, impl=impl, axis=axis):
            if axis is not None and impl[0] == "ok":
                return {"what": "L21Norm(l2_axis=0) accepted a BlockArray (documented: l2_axis must be None for block input)", "value": impl[1]}
            return None

        if not _agree(impl, mod):
            ctx.disagree("feval.l21call", case, list(impl), list(mod), oracle=oracle)
        elif formula is not None and impl[0] == "ok" and not common.close(impl[1], formula, k=64, rtol=1e-8):
            ctx.disagree("feval.l21call.formula", case, list(impl), formula, oracle=lambda _c: {"impl": impl[1], "formula": formula})


def run_nuclear(ctx, model, scico):
    """NuclearNorm: sum of the singular values (computed independently with numpy), ValueError unless 2-D; exact cases:
    diagonal matrices (sum |d_i|), rank-one matrices (|u| |v|), scaled orthogonal 2x2 (2 |c|)"""
    import scico.functional as F
    import scico.numpy as snp

    rng = ctx.rng
    f = F.NuclearNorm()
    for _ in range(ctx.n(40, 400)):
        cplx = bool(rng.random() < 0.3)
        mode = ["random", "random", "diag", "rank1", "rot", "ndim"][int(rng.integers(6))]
        m, n = int(rng.integers(1, 5)), int(rng.integers(1, 5))
        exact = None
        if mode == "random":
            a = G.dy(rng, (m, n), cplx)
        elif mode == "diag":
            d = G.dy(rng, (min(m, n),), cplx)
            a = np.zeros((m, n), dtype=d.dtype)
            a[np.arange(min(m, n)), np.arange(min(m, n))] = d
            exact = float(np.sum(np.abs(d)))
        elif mode == "rank1":
            u, w = G.dy(rng, (m,), cplx), G.dy(rng, (n,), cplx)
            a = np.outer(u, w)
            exact = float(np.linalg.norm(u) * np.linalg.norm(w))
        elif mode == "rot":
            c_ = float(rng.choice([0.5, 1.0, 2.0, -1.5]))
            a = c_ * np.array([[3.0, -4.0], [4.0, 3.0]]) / 5.0
            a = a.astype(np.complex128) if cplx else a
            exact = 2 * abs(c_)
        else:
            sh = [(int(rng.integers(1, 5)),), (2, 2, 2), (1, 2, 1)][int(rng.integers(3))]
            a = G.dy(rng, sh, cplx)
        sv = np.linalg.svd(a, compute_uv=False) if a.ndim == 2 else np.zeros(0)
        impl = _impl(lambda: float(f(snp.array(a))))
        mod = _model(model, "feval", fn="nuclear", cplx=cplx, ndim=a.ndim, sv=fs2b(sv))
        formula = float(np.sum(sv)) if a.ndim == 2 else None
        case = {"nuclear": mode, "cplx": cplx, "shape": list(a.shape), "x": fs2b(G.il(a, cplx))}
        ctx.case({k: case[k] for k in ("nuclear", "cplx", "shape")}, ("nuclear", mode, cplx, a.shape) if np.any(a != 0) else None)
        ctx.count("nuclear:" + mode)
        _check(ctx, "feval.nuclear", case, impl, mod, formula, k=64)
        if exact is not None and impl[0] == "ok" and not common.close(impl[1], exact, k=64, rtol=1e-8):
            ctx.disagree("feval.nuclear.exact", case, list(impl), exact,
                         oracle=lambda _c, impl=impl, exact=exact: {"what": "nuclear norm of a matrix with known singular values", "impl": impl[1], "exact": exact})
        if impl[0] == "ok" and a.ndim == 2:
            # ||X||_F <= ||X||_* <= sqrt(rank) ||X||_F  (theorem C09_nuclear_bounds on the singular values)
            fro = float(np.sqrt(np.sum(np.abs(a) ** 2)))
            if not (fro <= impl[1] * (1 + 1e-9) + 1e-12 and impl[1] <= np.sqrt(min(a.shape)) * fro * (1 + 1e-9) + 1e-12):
                ctx.disagree("feval.nuclear.bounds", case, impl[1], [fro, float(np.sqrt(min(a.shape)) * fro)],
                             oracle=lambda _c, v_=impl[1], fro=fro: {"what": "nuclear norm outside [||X||_F, sqrt(min(m,n)) ||X||_F]", "value": v_, "fro": fro})


def run_l21_exhaustive(ctx, model, scico):
    """exhaustive small scope for L21Norm(l2_axis=axes): every shape with axis sizes 1..3 of rank <= 2 (rank 3: sizes 1..2 in
    the quick tier, 1..3 in the thorough tier) x every non-empty axes subset (given as int when a single axis, tuple otherwise,
    and once more with negative axis numbers), fixed non-constant complex image - ties the grouping theorem C09_l21_axis_groups"""
    import scico.functional as F
    import scico.numpy as snp

    shapes = [sh for r_ in (1, 2) for sh in itertools.product((1, 2, 3), repeat=r_)]
    shapes += list(itertools.product((1, 2, 3) if ctx.thorough else (1, 2), repeat=3))
    done = 0
    for shape in shapes:
        n = int(np.prod(shape))
        a = ((((7 * np.arange(n) ** 2 + 3 * np.arange(n)) % 11) - 5.0) / 2 + 1j * (((5 * np.arange(n) + 1) % 7) - 3.0) / 4).reshape(shape)
        rank = len(shape)
        for axes in [c for r_ in range(1, rank + 1) for c in itertools.combinations(range(rank), r_)]:
            for neg in (False, True):
                ax_arg = tuple(x_ - rank for x_ in axes) if neg else axes
                l2_axis = ax_arg[0] if len(ax_arg) == 1 else ax_arg
                impl = _impl(lambda: float(F.L21Norm(l2_axis=l2_axis)(snp.array(a))))
                mod = _model(model, "feval", fn="l21axes", cplx=True, shape=list(shape), axes=list(axes), x=fs2b(G.il(a, True)))
                formula = float(np.sum(np.sqrt(np.sum(np.abs(a) ** 2, axis=axes))))
                case = {"shape": list(shape), "axes": list(axes), "l2_axis": list(ax_arg), "cplx": True, "x": fs2b(G.il(a, True)), "stream": "exhaustive"}
                ctx.case({k_: case[k_] for k_ in ("shape", "l2_axis", "stream")}, ("l21-exh", shape, ax_arg))
                _check(ctx, "feval.l21axes", case, impl, mod, formula)
                done += 1
    ctx.count("l21axes:exhaustive small scope", done)
    ctx.extra["l21_exhaustive_scope"] = f"{len(shapes)} shapes x all non-empty axes subsets x non-negative / negative axis numbers: {done} configurations"


def run_huber_history(ctx, model, scico):
    """history on one object: a HuberNorm is evaluated, its `delta` attribute is changed, and it is evaluated again (also
    under jax.jit): the value must follow the current delta (lax.cond caches traced branches; fix 681c2a4)"""
    import jax
    import scico.functional as F
    import scico.numpy as snp

    rng = ctx.rng
    for _ in range(ctx.n(16, 100)):
        cplx = bool(rng.random() < 0.3)
        sep = bool(rng.integers(2))
        d1, d2 = G.pos_dyadic(rng), G.pos_dyadic(rng, hi=8.0)
        shape = G.random_shape(rng, False)
        a = G.dy(rng, shape, cplx)
        f = F.HuberNorm(delta=d1, separable=sep)
        x = snp.array(a)
        first = _impl(lambda: float(f(x)))
        if rng.random() < 0.5:
            _ = _impl(lambda: float(jax.jit(f.__call__)(x)))
        f.delta = d2
        vals = [("eager", _impl(lambda: float(f(x)))), ("jit", _impl(lambda: float(jax.jit(lambda z: f(z))(x))))]
        kind = "hubers" if sep else "hubern"
        leaf2 = {"kind": kind, "delta": f2b(d2)}
        mod = _model(model, "feval", fn=kind, cplx=cplx, delta=f2b(d2), x=G.arg_json(x, cplx))
        formula = G.np_leaf(leaf2, [a])
        f1 = G.np_leaf({"kind": kind, "delta": f2b(d1)}, [a])
        case = {"huber-history": kind, "delta first": d1, "delta now": d2, "cplx": cplx, "shape": list(shape), "x": G.arg_json(x, cplx)}
        ctx.case({k_: case[k_] for k_ in ("huber-history", "cplx", "shape")}, ("huber-history", kind, cplx, d1 != d2) if f1 != formula else None)
        ctx.count("huber-history:" + kind)
        if first[0] != "ok" or not common.close(first[1], f1, k=64, rtol=1e-8):
            ctx.disagree("feval.huber_history.first", case, list(first), f1)
        for how, impl in vals:
            _check(ctx, "feval.huber_history." + how, case, impl, mod, formula)


def run_attr_history(ctx, model, scico):
    """ATTRIBUTE history on one object: evaluate, assign a new value to a public parameter of the SAME object (radius, delta, beta,
    l2_axis, scale, y, W, alpha_list), evaluate again on an argument of the same shape and dtype: the value must be the documented
    formula / the model at the NEW parameter (a jitted `__call__` with `self` static, or branches closed over the old value,
    keep the old one).  Compared with model, formula and a fresh object."""
    import scico.functional as F
    import scico.numpy as snp
    from scico import linop, loss

    rng = ctx.rng
    kinds = ["l2ball", "l1ml2", "hubers", "hubern", "l21axis", "scaled", "loss.scale", "loss.y", "sql2.y", "sql2.W", "sql2.scale", "proxavg",
             "tv.circular", "tv.axes"]
    for kind in kinds * ctx.n(2, 8):
        cplx = bool(rng.random() < 0.25) and kind not in ("proxavg",)
        shape = (int(rng.integers(2, 5)),) if kind not in ("l21axis", "tv.circular", "tv.axes") else (int(rng.integers(2, 4)), int(rng.integers(2, 4)))
        a = G.dy(rng, shape, cplx)
        x = snp.array(a)
        nrm = float(np.sqrt(np.sum(np.abs(a) ** 2)))
        mod = None
        if kind == "l2ball":
            r1, r2 = (nrm * 2 + 1.0, max(nrm / 2, 0.125)) if rng.random() < 0.5 else (max(nrm / 2, 0.125), nrm * 2 + 1.0)  # inside <-> outside
            obj, attr, new = F.L2BallIndicator(radius=r1), "radius", r2
            fresh = lambda: F.L2BallIndicator(radius=r2)  # noqa: E731
            formula = float("inf") if nrm > r2 else 0.0
            mod = _model(model, "feval", fn="l2ball", cplx=cplx, radius=f2b(r2), x=G.arg_json(x, cplx))
        elif kind == "l1ml2":
            b1, b2 = float(rng.integers(0, 5)) / 4, float(rng.integers(5, 9)) / 4
            obj, attr, new = F.L1MinusL2Norm(beta=b1), "beta", b2
            fresh = lambda: F.L1MinusL2Norm(beta=b2)  # noqa: E731
            formula = G.np_leaf({"kind": "l1ml2", "beta": f2b(b2)}, [a])
            mod = _model(model, "feval", fn="l1ml2", cplx=cplx, beta=f2b(b2), x=G.arg_json(x, cplx))
        elif kind in ("hubers", "hubern"):
            d1, d2 = G.pos_dyadic(rng), G.pos_dyadic(rng, hi=8.0) + 4.0
            sep = kind == "hubers"
            obj, attr, new = F.HuberNorm(delta=d1, separable=sep), "delta", d2
            fresh = lambda: F.HuberNorm(delta=d2, separable=sep)  # noqa: E731
            formula = G.np_leaf({"kind": kind, "delta": f2b(d2)}, [a])
            mod = _model(model, "feval", fn=kind, cplx=cplx, delta=f2b(d2), x=G.arg_json(x, cplx))
        elif kind == "l21axis":
            ax1, ax2 = (0, 1) if rng.random() < 0.5 else (1, 0)
            obj, attr, new = F.L21Norm(l2_axis=ax1), "l2_axis", ax2
            fresh = lambda: F.L21Norm(l2_axis=ax2)  # noqa: E731
            formula = float(np.sum(np.sqrt(np.sum(np.abs(a) ** 2, axis=ax2))))
            mod = _model(model, "feval", fn="l21axes", cplx=cplx, shape=list(shape), axes=[ax2], x=fs2b(G.il(a, cplx)))
        elif kind == "scaled":
            c1, c2 = G.pos_dyadic(rng), G.pos_dyadic(rng) + 4.0
            obj, attr, new = F.ScaledFunctional(F.L1Norm(), c1), "scale", c2
            fresh = lambda: F.ScaledFunctional(F.L1Norm(), c2)  # noqa: E731
            formula = c2 * float(np.sum(np.abs(a)))
        elif kind in ("loss.scale", "loss.y"):
            y1, y2 = G.dy(rng, shape, cplx), G.dy(rng, shape, cplx)
            s1, s2 = G.pos_dyadic(rng), G.pos_dyadic(rng) + 4.0
            obj = loss.Loss(y=snp.array(y1), f=F.L1Norm(), scale=s1)
            if kind == "loss.scale":
                attr, new = "scale", s2
                fresh = lambda: loss.Loss(y=snp.array(y1), f=F.L1Norm(), scale=s2)  # noqa: E731
                formula = s2 * float(np.sum(np.abs(a - y1)))
            else:
                attr, new = "y", snp.array(y2)
                fresh = lambda: loss.Loss(y=snp.array(y2), f=F.L1Norm(), scale=s1)  # noqa: E731
                formula = s1 * float(np.sum(np.abs(a - y2)))
        elif kind.startswith("sql2."):
            y1, y2 = G.dy(rng, shape, cplx), G.dy(rng, shape, cplx)
            w1, w2 = (rng.integers(0, 5, size=shape).astype(np.float64) / 2 for _ in range(2))
            s1, s2 = G.pos_dyadic(rng), G.pos_dyadic(rng) + 4.0
            mkW = lambda w: linop.Diagonal(snp.array(w), input_dtype=np.float64)  # noqa: E731
            obj = loss.SquaredL2Loss(y=snp.array(y1), scale=s1, W=mkW(w1))
            yy, ww, ss = y1, w1, s1
            if kind == "sql2.y":
                attr, new, yy = "y", snp.array(y2), y2
            elif kind == "sql2.W":
                attr, new, ww = "W", mkW(w2), w2
            else:
                attr, new, ss = "scale", s2, s2
            fresh = lambda: loss.SquaredL2Loss(y=snp.array(yy), scale=ss, W=mkW(ww))  # noqa: E731
            formula = float(ss * np.sum(ww * np.abs(yy - a) ** 2))
            mod = _model(model, "feval", fn="sql2loss", cplx=cplx, scale=f2b(ss), w=fs2b(ww), y=fs2b(G.il(yy, cplx)), ax=fs2b(G.il(a, cplx)))
        elif kind in ("tv.circular", "tv.axes"):
            # (after 06ebce8: the cached finite-difference and prox operators are rebuilt when circular / axes change)
            iso = bool(rng.integers(2))
            cls = F.IsotropicTVNorm if iso else F.AnisotropicTVNorm
            dt = np.complex128 if cplx else np.float64
            c1 = bool(rng.integers(2))
            ax1 = [None, (0,), (1,), (0, 1)][int(rng.integers(4))]
            if kind == "tv.circular":
                attr, new, c2, ax2 = "circular", not c1, not c1, ax1
            else:
                ax2 = [a_ for a_ in [(0,), (1,), (0, 1), (-1,)] if a_ != ax1][int(rng.integers(3))]
                attr, new, c2 = "axes", ax2, c1
            obj = cls(circular=c1, axes=ax1, input_dtype=dt, input_shape=shape if rng.random() < 0.5 else None)
            fresh = lambda: cls(circular=c2, axes=ax2, input_dtype=dt)  # noqa: E731
            axn = (0, 1) if ax2 is None else tuple(sorted(a_ % 2 for a_ in ax2))
            ds = np.stack([_np_fd(a, ax, c2) for ax in axn])
            formula = float(np.sum(np.sqrt(np.sum(np.abs(ds) ** 2, axis=0)))) if iso else float(np.sum(np.abs(ds)))
            comps = [fs2b(a.real.ravel()), fs2b(a.imag.ravel())] if cplx else [fs2b(a.ravel())]
            mod = _model(model, "feval", fn="tv", cplx=cplx, iso=iso, circular=c2, shape=list(shape), axes=list(axn), comps=comps)
            _ = _impl(lambda: np.asarray(obj.prox(x, 0.5)))  # the prox operators are cached as well
        else:
            obj, attr, new = F.ProximalAverage([F.L1Norm(), F.SquaredL2Norm()], alpha_list=[0.5, 0.5]), "alpha_list", [0.25, 0.75]
            fresh = lambda: F.ProximalAverage([F.L1Norm(), F.SquaredL2Norm()], alpha_list=[0.25, 0.75])  # noqa: E731
            formula = 0.25 * float(np.sum(np.abs(a))) + 0.75 * float(np.sum(np.abs(a) ** 2))
        first = _impl(lambda: float(obj(x)))
        setattr(obj, attr, new)
        impl = _impl(lambda: float(obj(x)))
        fr = _impl(lambda: float(fresh()(x)))
        case = {"attr-history": kind, "attribute": attr, "cplx": cplx, "shape": list(shape), "x": G.arg_json(x, cplx), "first value": first[1] if first[0] == "ok" else None}
        ctx.case({k_: case[k_] for k_ in ("attr-history", "attribute", "cplx", "shape")}, ("attr-history", kind, cplx))
        ctx.count("attr-history:" + kind)
        _check(ctx, "feval.attr_history." + kind, case, impl, mod if mod is not None else impl, formula)
        if kind.startswith("tv."):
            # prox of the reused object against a fresh object (the TV prox is an approximation: only their agreement is checked)
            pr = _impl(lambda: G.il(np.asarray(obj.prox(x, 0.5)), cplx))
            pf = _impl(lambda: G.il(np.asarray(fresh().prox(x, 0.5)), cplx))
            ctx.count("attr-history:tv prox vs fresh object")
            if pr[0] != pf[0] or (pr[0] == "ok" and not common.allclose(pr[1], pf[1], rtol=1e-9)):
                ctx.disagree("feval.attr_history.tvprox", case, [pr[0], None if pr[0] != "ok" else np.asarray(pr[1]).tolist()],
                             [pf[0], None if pf[0] != "ok" else np.asarray(pf[1]).tolist()],
                             oracle=lambda _c, attr=attr, pr=pr, pf=pf: {"what": f"after assigning a new `{attr}` the TV prox differs from the prox of a fresh object built with that value",
                                                                         "reused": None if pr[0] != "ok" else np.asarray(pr[1]).tolist(), "fresh": None if pf[0] != "ok" else np.asarray(pf[1]).tolist()})
        if impl[0] == "ok" and fr[0] == "ok" and not (common.close(impl[1], fr[1], k=64, rtol=1e-9) or (np.isinf(impl[1]) and np.isinf(fr[1]))):
            ctx.disagree("feval.attr_history.fresh", case, impl[1], fr[1],
                         oracle=lambda _c, impl=impl, fr=fr, kind=kind, attr=attr: {"what": f"after assigning a new `{attr}` the object evaluates differently from a fresh object built with that value",
                                                                                   "reused": impl[1], "fresh": fr[1], "class": kind})


def run_dist(ctx, model, scico):
    import scico.functional as F
    import scico.numpy as snp

    rng = ctx.rng
    for _ in range(ctx.n(40, 400)):
        cplx = bool(rng.random() < 0.3)
        shape = G.random_shape(rng, False)
        a = G.dy(rng, shape, cplx)
        if rng.random() < 0.2:
            a = np.abs(a.real) if not cplx else a  # inside the set: distance 0
        which = int(rng.integers(2))
        if cplx:
            proj = lambda z: z * snp.minimum(1.0, 1.0 / snp.maximum(snp.abs(z), 1e-300))  # unit disc, entrywise  # noqa: E731
            p_np = a * np.minimum(1.0, 1.0 / np.maximum(np.abs(a), 1e-300))
        else:
            proj = lambda z: snp.maximum(z, 0.0)  # noqa: E731
            p_np = np.maximum(a, 0.0)
        obj = (F.SetDistance if which == 0 else F.SquaredSetDistance)(proj)
        impl = _impl(lambda: float(obj(snp.array(a))))
        p = np.asarray(proj(snp.array(a)))
        mod = _model(model, "feval", fn="setdist" if which == 0 else "sqsetdist", cplx=cplx, x=fs2b(G.il(a, cplx)), p=fs2b(G.il(p, cplx)))
        d = float(np.sqrt(np.sum(np.abs(a - p_np) ** 2)))
        formula = d if which == 0 else 0.5 * d * d
        case = {"which": which, "cplx": cplx, "shape": list(shape), "x": fs2b(G.il(a, cplx))}
        ctx.case({"dist": which, "cplx": cplx, "shape": list(shape)}, ("dist", which, cplx, len(shape)) if d > 0 else None)
        ctx.count("dist:" + ("SetDistance" if which == 0 else "SquaredSetDistance") + (":inside" if d == 0 else ":outside"))
        _check(ctx, "feval.setdist", case, impl, mod, formula)


# --------------------------------------------------------------------------
# TV norms and the finite-difference operator they are built on


def _np_fd(a, ax, circular):
    d = np.roll(a, -1, axis=ax) - a
    if not circular:
        idx = [slice(None)] * a.ndim
        idx[ax] = -1
        d[tuple(idx)] = 0
    return d


def run_tv(ctx, model, scico):
    import scico.functional as F
    import scico.numpy as snp
    from scico.linop import FiniteDifference

    rng = ctx.rng
    for _ in range(ctx.n(90, 900)):
        cplx = bool(rng.random() < 0.3)
        dt = np.complex128 if cplx else np.float64
        rank = int(rng.integers(1, 4))
        shape = tuple(int(rng.integers(1, 5)) for _ in range(rank))
        subsets = [c for r in range(1, rank + 1) for c in itertools.combinations(range(rank), r)]
        axes = subsets[int(rng.integers(len(subsets)))]
        circ = bool(rng.integers(2))
        iso = bool(rng.integers(2))
        mode = rng.random()
        if mode < 0.1:
            a = np.zeros(shape, dtype=dt)
        elif mode < 0.2:
            a = np.full(shape, 1.5, dtype=dt)  # constant image: TV = 0 (circular and append=0)
        else:
            a = G.dy(rng, shape, cplx)
        axes_arg = None if (axes == tuple(range(rank)) and rng.random() < 0.5) else axes
        cls = F.IsotropicTVNorm if iso else F.AnisotropicTVNorm
        pre = bool(rng.integers(2))
        obj = cls(circular=circ, axes=axes_arg, input_shape=shape if pre else None, input_dtype=dt)
        impl = _impl(lambda: float(obj(snp.array(a))))
        comps = [fs2b(a.real.ravel()), fs2b(a.imag.ravel())] if cplx else [fs2b(a.ravel())]
        mod = _model(model, "feval", fn="tv", cplx=cplx, iso=iso, circular=circ, shape=list(shape), axes=list(axes), comps=comps)
        ds = np.stack([_np_fd(a, ax, circ) for ax in axes])
        formula = float(np.sum(np.sqrt(np.sum(np.abs(ds) ** 2, axis=0)))) if iso else float(np.sum(np.abs(ds)))
        case = {"iso": iso, "circular": circ, "shape": list(shape), "axes": list(axes), "cplx": cplx, "comps": comps}
        ctx.case({k: case[k] for k in ("iso", "circular", "shape", "axes", "cplx")},
                 ("tv", iso, circ, shape, axes, cplx) if formula != 0 else None)
        ctx.count(f"tv:{'iso' if iso else 'aniso'}:{'circular' if circ else 'append0'}:rank{rank}")
        _check(ctx, "feval.tv", case, impl, mod, formula, k=256)
        # the operator TVNorm evaluates through, axis by axis, against the model's index formula
        if not cplx and rng.random() < 0.5:
            G_op = FiniteDifference(shape, input_dtype=dt, axes=axes_arg, circular=circ, append=None if circ else 0)
            out = G_op(snp.array(a))
            out = [np.asarray(b) for b in out] if G.is_block(out) else list(np.asarray(out))
            for ax, o in zip(axes, out):
                got = b2fs(model.call("feval", fn="fd", cplx=False, circular=circ, shape=list(shape), ax=ax, x=fs2b(a.ravel())))
                if not common.allclose(np.asarray(o).ravel(), got, rtol=TOL):
                    ctx.disagree("feval.fd", {"shape": list(shape), "ax": ax, "circular": circ, "x": fs2b(a.ravel())},
                                 np.asarray(o).ravel().tolist(), got)
                ctx.count("fd:axis checked")
            if rank == 1:
                got = b2fs(model.call("feval", fn="diff1d", cplx=False, circular=circ, x=fs2b(a.ravel())))
                if not common.allclose(np.asarray(out[0]).ravel(), got, rtol=TOL):
                    ctx.disagree("feval.diff1d", {"circular": circ, "x": fs2b(a.ravel())}, np.asarray(out[0]).ravel().tolist(), got)
                ctx.count("fd:1-D code-shaped diff checked")


def run_tv_history(ctx, model, scico):
    """history on one TV object: it is evaluated on arrays of DIFFERENT rank one after the other (2-D then 3-D, 3-D then 2-D,
    1-D then 3-D ...), with axes=None and with negative axes (whose meaning depends on the rank of the argument), optionally
    constructed with an input_shape of yet another rank.  Every value is compared with the model, with the independent
    finite-difference formula and with a fresh object."""
    import scico.functional as F
    import scico.numpy as snp

    rng = ctx.rng
    for _ in range(ctx.n(24, 160)):
        cplx = bool(rng.random() < 0.25)
        dt = np.complex128 if cplx else np.float64
        iso, circ = bool(rng.integers(2)), bool(rng.integers(2))
        cls = F.IsotropicTVNorm if iso else F.AnisotropicTVNorm
        ranks = [int(r_) for r_ in rng.permutation([1, 2, 3])[: int(rng.integers(2, 4))]]
        mode = ["none", "neg1", "neg2"][int(rng.integers(3))]
        if mode == "neg2":
            ranks = [r_ for r_ in ranks if r_ >= 2] or [2, 3]
            if len(ranks) < 2:
                ranks = [2, 3] if ranks[0] == 2 else [3, 2]
        axes_arg = None if mode == "none" else ((-1,) if mode == "neg1" else (-1, -2))
        pre = None
        if rng.random() < 0.3:
            pre = tuple(int(rng.integers(1, 4)) for _ in range(ranks[0]))
        obj = cls(circular=circ, axes=axes_arg, input_shape=pre, input_dtype=dt)
        for step, rank in enumerate(ranks):
            shape = tuple(int(rng.integers(1, 4)) for _ in range(rank))
            a = G.dy(rng, shape, cplx)
            axes = tuple(range(rank)) if axes_arg is None else tuple(sorted(x_ % rank for x_ in axes_arg))
            impl = _impl(lambda: float(obj(snp.array(a))))
            fresh = _impl(lambda: float(cls(circular=circ, axes=axes_arg, input_dtype=dt)(snp.array(a))))
            comps = [fs2b(a.real.ravel()), fs2b(a.imag.ravel())] if cplx else [fs2b(a.ravel())]
            mod = _model(model, "feval", fn="tv", cplx=cplx, iso=iso, circular=circ, shape=list(shape), axes=list(axes), comps=comps)
            ds = np.stack([_np_fd(a, ax, circ) for ax in axes])
            formula = float(np.sum(np.sqrt(np.sum(np.abs(ds) ** 2, axis=0)))) if iso else float(np.sum(np.abs(ds)))
            case = {"tv-history": {"ranks": ranks, "step": step, "axes_arg": None if axes_arg is None else list(axes_arg), "input_shape": None if pre is None else list(pre)},
                    "iso": iso, "circular": circ, "shape": list(shape), "axes": list(axes), "cplx": cplx, "comps": comps}
            ctx.case({k_: case[k_] for k_ in ("tv-history", "iso", "circular", "shape", "cplx")},
                     ("tv-history", iso, circ, tuple(ranks), step, mode) if formula != 0 else None)
            ctx.count(f"tv-history:{mode}:step{step}:rank{rank}")
            _check(ctx, "feval.tv_history", case, impl, mod, formula, k=256)
            if impl[0] == "ok" and fresh[0] == "ok" and not common.close(impl[1], fresh[1], k=256, rtol=1e-9):
                ctx.disagree("feval.tv_history.fresh", case, impl[1], fresh[1],
                             oracle=lambda _c, impl=impl, fresh=fresh, formula=formula: {"what": "a TV object that was used on an array of another rank before differs from a fresh object",
                                                                                          "reused": impl[1], "fresh": fresh[1], "formula": formula})


def run_tv_exhaustive(ctx, model, scico):
    """exhaustive small scope: every shape of rank <= 2 (quick) / <= 3 (thorough) with axis sizes 1..3, every non-empty
    subset of axes, both boundary modes, both norms, on a fixed non-constant real image; plus the operator itself axis by
    axis.  (The theorems C09_tv_nd / C09_tv_norms quantify over all shapes; this ties the model's index formula to the code
    on a complete small scope rather than on a sample.)"""
    import jax
    import scico.functional as F
    import scico.numpy as snp

    maxrank = 3 if ctx.thorough else 2
    shapes = [sh for r_ in range(1, maxrank + 1) for sh in itertools.product((1, 2, 3), repeat=r_)]
    done = 0
    for shape in shapes:
        n = int(np.prod(shape))
        a = (((7 * np.arange(n) ** 2 + 3 * np.arange(n)) % 11) - 5.0).reshape(shape) / 2  # fixed dyadic, non-constant
        rank = len(shape)
        for axes in [c for r_ in range(1, rank + 1) for c in itertools.combinations(range(rank), r_)]:
            for circ in (False, True):
                for iso in (False, True):
                    cls = F.IsotropicTVNorm if iso else F.AnisotropicTVNorm
                    impl = _impl(lambda: float(cls(circular=circ, axes=axes, input_dtype=np.float64)(snp.array(a))))
                    mod = _model(model, "feval", fn="tv", cplx=False, iso=iso, circular=circ, shape=list(shape), axes=list(axes),
                                 comps=[fs2b(a.ravel())])
                    ds = np.stack([_np_fd(a, ax, circ) for ax in axes])
                    formula = float(np.sum(np.sqrt(np.sum(np.abs(ds) ** 2, axis=0)))) if iso else float(np.sum(np.abs(ds)))
                    case = {"iso": iso, "circular": circ, "shape": list(shape), "axes": list(axes), "cplx": False,
                            "comps": [fs2b(a.ravel())], "stream": "exhaustive"}
                    ctx.case({k: case[k] for k in ("iso", "circular", "shape", "axes", "stream")},
                             ("tv-exh", iso, circ, shape, axes) if formula != 0 else None)
                    _check(ctx, "feval.tv", case, impl, mod, formula, k=256)
                    done += 1
                    if done % 100 == 0:
                        jax.clear_caches()
    ctx.count("tv:exhaustive small scope", done)
    ctx.extra["tv_exhaustive_scope"] = (f"all shapes of rank <= {maxrank} with axis sizes in {{1,2,3}} x all non-empty axes subsets x "
                                        f"circular/append=0 x isotropic/anisotropic, real data: {done} configurations")


# --------------------------------------------------------------------------
# ProximalAverage, losses


def run_proxavg(ctx, model, scico):
    import scico.functional as F
    import scico.numpy as snp

    rng = ctx.rng
    for _ in range(ctx.n(40, 400)):
        n = int(rng.integers(1, 4))
        leaves = [G.gen_leaf(rng, False, ["l1", "sql2", "l2", "nonneg", "l2ball", "hubers", "zero", "custom"]) for _ in range(n)]
        objs = [G.build_leaf(F, d) for d in leaves]
        alphas = None if rng.random() < 0.4 else [G.pos_dyadic(rng) for _ in range(n)]
        if alphas is not None and rng.random() < 0.3:
            alphas = [1.0 / n] * n if n in (1, 2, 4) else alphas  # already sums to one: must be kept as given
        noinf = bool(rng.integers(2))
        x = G.dy(rng, (int(rng.integers(1, 5)),), False)
        if rng.random() < 0.5:
            # an indicator that is infinite at x, not in the last position, non-uniform weights
            n = int(rng.integers(2, 5))
            leaves = [G.gen_leaf(rng, False, ["l1", "sql2", "l2", "hubers"]) for _ in range(n)]
            leaves[int(rng.integers(0, n - 1))] = {"kind": "nonneg"}
            objs = [G.build_leaf(F, d) for d in leaves]
            alphas = [float(k + 1) / 4 for k in rng.permutation(n)]
            x = -np.abs(x) - 0.25
            noinf = bool(rng.random() < 0.8)
        if alphas is not None and rng.random() < 0.1:
            alphas = list(alphas) + [0.5] if rng.random() < 0.5 or len(alphas) == 1 else list(alphas)[:-1]  # wrong length: ValueError
            ctx.count("proxavg:alpha_list of the wrong length")
        ok_ctor = all(o.has_prox for o in objs) and (alphas is None or len(alphas) == n)
        built = _impl(lambda: F.ProximalAverage(objs, alpha_list=alphas, no_inf_eval=noinf))
        case = {"leaves": leaves, "alphas": alphas, "noinf": noinf, "x": fs2b(x)}
        ctx.case({"proxavg": [d["kind"] for d in leaves], "alphas": alphas is not None, "noinf": noinf},
                 ("proxavg", tuple(d["kind"] for d in leaves), alphas is not None, noinf))
        ctx.count("proxavg:" + ("constructed" if built[0] == "ok" else "rejected"))
        if (built[0] == "ok") != ok_ctor:
            def ctor_oracle(_c, built=built, alphas=alphas, n=n, objs=objs):
                if built[0] == "ok" and alphas is not None and len(alphas) != n:
                    return {"what": "ProximalAverage accepted an alpha_list whose length differs from func_list (documented: must have the same length)",
                            "len(alpha_list)": len(alphas), "len(func_list)": n, "stored weights": [float(a_) for a_ in built[1].alpha_list]}
                if built[0] == "ok" and not all(o.has_prox for o in objs):
                    return {"what": "ProximalAverage accepted a functional without prox"}
                return None
            ctx.disagree("proxavg.ctor", case, list(built)[:1], ok_ctor, oracle=ctor_oracle)
            continue
        if built[0] != "ok":
            if built[1] != "value":
                ctx.disagree("proxavg.ctor", case, list(built), ["err", "value"])
            elif all(o.has_prox for o in objs):
                # rejected because of the weights: the model's argument check must reject as well
                try:
                    model.call("feval", fn="proxavg", cplx=False, n=n, alphas=fs2b(alphas), noinf=noinf, vals=fs2b([0.0] * n))
                    ctx.disagree("proxavg.ctor", case, list(built), "model accepts")
                except ModelErr as e:
                    if e.kind != "value":
                        ctx.disagree("proxavg.ctor", case, list(built), ["err", e.kind])
            continue
        pa = built[1]
        he = all(bool(o.has_eval) for o in objs)
        if (bool(pa.has_eval), bool(pa.has_prox)) != (he, True):
            ctx.disagree("proxavg.flags", case, [bool(pa.has_eval), bool(pa.has_prox)], [he, True])
        impl = _impl(lambda: float(pa(snp.array(x))))
        if not he:
            if impl != ("err", "value"):
                ctx.disagree("proxavg.eval", case, list(impl), ["err", "value"])
            continue
        vals = [G.np_leaf(d, [x]) for d in leaves]
        r = model.call("feval", fn="proxavg", cplx=False, n=n, alphas=None if alphas is None else fs2b(alphas), noinf=noinf, vals=fs2b(vals))
        w = np.asarray(b2fs(r["weights"]))
        if not common.allclose(np.asarray(pa.alpha_list, dtype=float), w, rtol=TOL):
            ctx.disagree("proxavg.weights", case, list(map(float, pa.alpha_list)), w.tolist())
        ws = np.full(n, 1.0 / n) if alphas is None else (np.asarray(alphas) if sum(alphas) == 1.0 else np.asarray(alphas) / sum(alphas))
        terms = [a * v for a, v in zip(ws, vals)]
        formula = float(sum(t for t in terms if not (noinf and np.isinf(t))))
        _check(ctx, "feval.proxavg", case, impl, ("ok", b2f(r["value"])), formula)


def run_losses(ctx, model, scico):
    import scico.numpy as snp
    from scico import linop, loss
    from scipy.special import gammaln

    rng = ctx.rng
    for _ in range(ctx.n(100, 1000)):
        cls = ["sql2", "sql2abs", "sql2sqabs", "poisson"][int(rng.integers(4))]
        cplx = bool(rng.random() < 0.4) and cls != "poisson"
        dt = np.complex128 if cplx else np.float64
        n = int(rng.integers(1, 5))
        m = n
        ak = ["ident", "diag", "mat"][int(rng.integers(3))]
        if ak == "ident":
            A, Ad = None, np.eye(n, dtype=dt)
        elif ak == "diag":
            d = G.dy(rng, (n,), cplx, bits=1, scale=2.0)
            A, Ad = linop.Diagonal(snp.array(d), input_dtype=dt), np.diag(d)
        else:
            m = int(rng.integers(1, 5))
            Ad = G.dy(rng, (m, n), cplx, bits=1, scale=2.0)
            A = linop.MatrixOperator(snp.array(Ad), input_cols=0)
        x = G.dy(rng, (n,), cplx) if rng.random() < 0.85 else np.zeros(n, dtype=dt)
        if cls == "poisson":
            Ad = np.abs(Ad) + (0.0 if ak != "mat" else 0.25)
            if ak == "diag":
                Ad = np.diag(np.abs(np.diag(Ad)) + 0.25)
                A = linop.Diagonal(snp.array(np.diag(Ad)), input_dtype=dt)
            elif ak == "mat":
                A = linop.MatrixOperator(snp.array(Ad), input_cols=0)
            x = np.abs(G.dy(rng, (n,), False)) + 0.25  # A x > 0
            y = rng.integers(0, 6, size=m).astype(np.float64)
        elif cls == "sql2":
            y = G.dy(rng, (m,), cplx)
        else:
            y = np.abs(common.dyadic(rng, (m,), bits=2, scale=3.0))  # real non-negative measurements
        w = None if rng.random() < 0.4 or cls == "poisson" else rng.integers(0, 5, size=m).astype(np.float64) / 2
        W = None if w is None else linop.Diagonal(snp.array(w), input_dtype=np.float64)
        s = G.pos_dyadic(rng)
        yj = snp.array(y.astype(dt) if cls == "sql2" else y)
        if cls == "sql2":
            L = loss.SquaredL2Loss(y=yj, A=A, scale=s, W=W)
        elif cls == "sql2abs":
            L = loss.SquaredL2AbsLoss(y=yj, A=A if A is not None else linop.Identity((n,), input_dtype=dt), scale=s, W=W)
        elif cls == "sql2sqabs":
            L = loss.SquaredL2SquaredAbsLoss(y=yj, A=A if A is not None else linop.Identity((n,), input_dtype=dt), scale=s, W=W)
        else:
            L = loss.PoissonLoss(y=yj, A=A, scale=s)
        ax = Ad @ x
        impl = _impl(lambda: float(L(snp.array(x))))
        wj = None if w is None else fs2b(w)
        ww = 1.0 if w is None else w
        if cls == "sql2":
            mod = _model(model, "feval", fn="sql2loss", cplx=cplx, scale=f2b(s), w=wj, y=fs2b(G.il(y, cplx)), ax=fs2b(G.il(ax, cplx)))
            formula = float(s * np.sum(ww * np.abs(y - ax) ** 2))
        elif cls == "sql2abs":
            mod = _model(model, "feval", fn="sql2absloss", cplx=cplx, scale=f2b(s), w=wj, y=fs2b(y), ax=fs2b(G.il(ax, cplx)))
            formula = float(s * np.sum(ww * (y - np.abs(ax)) ** 2))
        elif cls == "sql2sqabs":
            mod = _model(model, "feval", fn="sql2sqabsloss", cplx=cplx, scale=f2b(s), w=wj, y=fs2b(y), ax=fs2b(G.il(ax, cplx)))
            formula = float(s * np.sum(ww * (y - np.abs(ax) ** 2) ** 2))
        else:
            const = gammaln(y + 1.0)
            mod = _model(model, "feval", fn="poisson", cplx=False, scale=f2b(s), y=fs2b(y), ax=fs2b(ax), const=fs2b(const))
            formula = float(s * np.sum(ax - y * np.log(ax) + const))
        case = {"loss": cls, "A": ak, "cplx": cplx, "n": n, "m": m, "weights": w is not None}
        ctx.case(case, (cls, ak, cplx, w is not None, n, m) if np.any(x != 0) else None)
        ctx.count(f"loss:{cls}:{ak}:{'complex' if cplx else 'real'}")
        flags_ok = bool(L.has_eval)
        if not flags_ok:
            ctx.disagree("loss.flags", case, False, True)
        _check(ctx, "feval." + cls, dict(case, x=fs2b(G.il(x, cplx)), y=fs2b(G.il(y, cplx))), impl, mod, formula)


def run_unit_factor(ctx, scico):
    """`1 * L`, `L * 1.0`, `L / 1`, ... are independent copies: rescaling the product in place leaves L alone (5 loss classes x
    6 ways of writing the unit factor; a history on the same objects)"""
    for desc, fail in G.unit_factor_failures(scico, ctx.rng, reps=ctx.n(1, 4)):
        ctx.case({"unit-factor": desc["class"], "form": desc["form"]}, ("unit-factor", desc["class"], desc["form"]))
        ctx.count("unit-factor:" + desc["form"])
        if fail is not None:
            ctx.disagree("loss.unit_factor", desc, fail.get("what"), "independent copy", oracle=lambda _c, fail=fail: fail)


def run_losses_block(ctx, model, scico):
    """the four losses on block arrays (default Identity forward operator, block weights): the value is the documented
    formula on the concatenation of the blocks"""
    import scico.numpy as snp
    from scico import linop, loss
    from scipy.special import gammaln

    rng = ctx.rng
    for _ in range(ctx.n(40, 400)):
        cls = ["sql2", "sql2abs", "sql2sqabs", "poisson"][int(rng.integers(4))]
        cplx = bool(rng.random() < 0.4) and cls != "poisson"
        shape = G.random_shape(rng, True)
        xs = [G.dy(rng, s_, cplx) for s_ in shape]
        if cls == "poisson":
            xs = [np.abs(G.dy(rng, s_, False)) + 0.25 for s_ in shape]
            ys = [rng.integers(0, 6, size=s_).astype(np.float64) for s_ in shape]
        elif cls == "sql2":
            ys = [G.dy(rng, s_, cplx) for s_ in shape]
        else:
            ys = [np.abs(common.dyadic(rng, s_, bits=2, scale=3.0)) for s_ in shape]
        ws = None if rng.random() < 0.4 or cls == "poisson" else [rng.integers(0, 5, size=s_).astype(np.float64) / 2 for s_ in shape]
        W = None if ws is None else linop.Diagonal(snp.blockarray([snp.array(w) for w in ws]), input_dtype=np.float64)
        sc = G.pos_dyadic(rng)
        yj = snp.blockarray([snp.array(y) for y in ys])
        xj = snp.blockarray([snp.array(x) for x in xs])
        if cls == "sql2":
            L = loss.SquaredL2Loss(y=yj, scale=sc, W=W)
        elif cls == "sql2abs":
            L = loss.SquaredL2AbsLoss(y=yj, scale=sc, W=W)
        elif cls == "sql2sqabs":
            L = loss.SquaredL2SquaredAbsLoss(y=yj, scale=sc, W=W)
        else:
            L = loss.PoissonLoss(y=yj, scale=sc)
        impl = _impl(lambda: float(L(xj)))
        fx = np.concatenate([x.ravel() for x in xs])
        fy = np.concatenate([y.ravel() for y in ys])
        fw = None if ws is None else np.concatenate([w.ravel() for w in ws])
        wj = None if fw is None else fs2b(fw)
        ww = 1.0 if fw is None else fw
        if cls == "sql2":
            mod = _model(model, "feval", fn="sql2loss", cplx=cplx, scale=f2b(sc), w=wj, y=fs2b(G.il(fy, cplx)), ax=fs2b(G.il(fx, cplx)))
            formula = float(sc * np.sum(ww * np.abs(fy - fx) ** 2))
        elif cls == "sql2abs":
            mod = _model(model, "feval", fn="sql2absloss", cplx=cplx, scale=f2b(sc), w=wj, y=fs2b(fy), ax=fs2b(G.il(fx, cplx)))
            formula = float(sc * np.sum(ww * (fy - np.abs(fx)) ** 2))
        elif cls == "sql2sqabs":
            mod = _model(model, "feval", fn="sql2sqabsloss", cplx=cplx, scale=f2b(sc), w=wj, y=fs2b(fy), ax=fs2b(G.il(fx, cplx)))
            formula = float(sc * np.sum(ww * (fy - np.abs(fx) ** 2) ** 2))
        else:
            const = gammaln(fy + 1.0)
            mod = _model(model, "feval", fn="poisson", cplx=False, scale=f2b(sc), y=fs2b(fy), ax=fs2b(fx), const=fs2b(const))
            formula = float(sc * np.sum(fx - fy * np.log(fx) + const))
        case = {"loss": cls, "A": "ident", "block": [list(s_) for s_ in shape], "cplx": cplx, "weights": ws is not None,
                "x": fs2b(G.il(fx, cplx)), "y": fs2b(G.il(fy, cplx))}
        ctx.case({k: case[k] for k in ("loss", "block", "cplx", "weights")}, ("loss-block", cls, cplx, ws is not None, len(shape)))
        ctx.count(f"loss:{cls}:block:{'complex' if cplx else 'real'}")
        _check(ctx, "feval.block." + cls, case, impl, mod, formula)


# --------------------------------------------------------------------------
# wrappers


def run_trees(ctx, model, scico):
    rng = ctx.rng
    for _ in range(ctx.n(150, 1500)):
        cplx = bool(rng.random() < 0.35)
        shape = G.random_shape(rng, bool(rng.random() < 0.45))
        tg = G.TreeGen(rng, cplx, allow_lossdefect=bool(rng.integers(2)))
        case = tg.case(int(rng.integers(1, ctx.n(3, 4) + 1)), shape)
        case["x"] = G.random_arg_json(rng, shape, cplx) if rng.random() < 0.9 else G.random_arg_json(rng, shape, cplx, scale=0.0)
        obj, info = G.build(scico, case)
        key = (G.tree_sig(case["t"]), cplx, isinstance(shape, list))
        ctx.case({"tree": G.tree_sig(case["t"]), "cplx": cplx, "shape": case["shape"]}, key if G.tree_depth(case["t"]) >= 1 else None)
        ctx.count(f"tree:depth={G.tree_depth(case['t'])}")
        if obj is TypeError:
            ctx.count("tree:construction rejected (TypeError)")
            continue
        if info.alias:
            # c*L / L/c changed (or returned) L: the tree no longer evaluates to the arithmetic combination of its parts
            a_ = info.alias[0]
            ctx.disagree("tree.alias", case, info.alias, "c*L and L/c return a new loss and leave L unchanged",
                         oracle=lambda _c, a_=a_: ({"what": "L(x) changed after P = c*L (or L/c); P.set_scale(..)", **{k_: a_[k_] for k_ in a_}}
                                                   if (a_["L(x) before"] is not None and a_["L(x) before"] != a_["L(x) after"]) or a_["same_object"] else None))
        x = G.arg_to_scico(case["x"], shape, cplx)
        impl = _impl(lambda: float(obj(x)))
        r = model.call("tree", cplx=cplx, leaves=case["leaves"], ops=case["ops"], t=case["t"], x=case["x"])
        me = r["eval"]
        mod = ("ok", b2f(me["ok"])) if "ok" in me else ("err", me["err"])
        try:
            shapes = shape if isinstance(shape, list) else [shape]
            blocks = G._json_blocks(case["x"], shape, cplx) if isinstance(shape, list) else [G.unil(b2fs(case["x"]["a"]), cplx, tuple(shape))]
            formula = G.np_eval(case, blocks)
        except G.NotAvail:
            formula = None
        ctx.count("tree:eval " + (impl[0] if impl[0] == "ok" else "err-" + impl[1]))
        _check(ctx, "tree.eval", case, impl, mod, formula, k=256)


# --------------------------------------------------------------------------
# metrics


def _np_metric(name, a, b, c=None, rng_=None):
    with np.errstate(divide="ignore", invalid="ignore"):
        mse = lambda p, q: np.mean(np.abs(p - q) ** 2)  # noqa: E731
        var = lambda p: np.mean(np.abs(p - np.mean(p)) ** 2)  # noqa: E731
        if name == "mae":
            return float(np.mean(np.abs(a - b)))
        if name == "mse":
            return float(mse(a, b))
        if name == "snr":
            return float(10 * np.log10(var(a) / mse(a, b)))
        if name == "psnr":
            r = abs(np.max(a) - np.min(a)) if rng_ is None else rng_
            return float(10 * np.log10(r**2 / mse(a, b)))
        if name == "isnr":
            return float(10 * np.log10(mse(a, b) / mse(a, c)))
        if name == "bsnr":
            return float(10 * np.log10(var(a) / var(b - a)))
        if name == "rel_res":
            nrm = max(np.linalg.norm(a.ravel()), np.linalg.norm(b.ravel()))
            return 0.0 if nrm == 0 else float(np.linalg.norm((b - a).ravel()) / nrm)
    raise common.Infra(name)


def run_metrics(ctx, model, scico):
    import scico.numpy as snp
    from scico import metric

    rng = ctx.rng
    names = ["mae", "mse", "snr", "psnr", "isnr", "bsnr", "rel_res"]
    for _ in range(ctx.n(210, 2100)):
        name = names[int(rng.integers(len(names)))]
        cplx = bool(rng.random() < 0.35) and name != "psnr"
        shape = G.random_shape(rng, False)
        stream = ["random", "random", "equal", "zero", "constant-ref"][int(rng.integers(5))]
        a = G.dy(rng, shape, cplx)
        b = G.dy(rng, shape, cplx)
        c = G.dy(rng, shape, cplx)
        if stream == "equal":
            b = a.copy()
            if rng.random() < 0.5:
                c = a.copy()
        elif stream == "zero":
            a = np.zeros_like(a)
            if rng.random() < 0.5:
                b = np.zeros_like(b)
        elif stream == "constant-ref":
            a = np.full_like(a, 1.5)
        kw, mkw = {}, {}
        sr = None
        if name == "psnr" and rng.random() < 0.5:
            sr = float(rng.choice([1.0, 255.0, 0.5]))
            kw["signal_range"] = sr
            mkw["range"] = f2b(sr)
        fn = getattr(metric, name)
        if name == "isnr":
            impl = _impl(lambda: float(fn(snp.array(a), snp.array(b), snp.array(c))))
            mkw["c"] = fs2b(G.il(c, cplx))
        else:
            impl = _impl(lambda: float(fn(snp.array(a), snp.array(b), **kw)))
        mod = _model(model, "metric", name=name, cplx=cplx, a=fs2b(G.il(a, cplx)), b=fs2b(G.il(b, cplx)), **mkw)
        formula = _np_metric(name, a, b, c, sr)
        case = {"metric": name, "cplx": cplx, "shape": list(shape), "stream": stream, "a": fs2b(G.il(a, cplx)),
                "b": fs2b(G.il(b, cplx)), "c": fs2b(G.il(c, cplx)), "range": sr}
        ctx.case({k: case[k] for k in ("metric", "cplx", "shape", "stream", "range")},
                 (name, cplx, len(shape), stream, sr) if stream != "zero" else None)
        ctx.count(f"metric:{name}:{stream}")
        if impl[0] == "ok" and not np.isfinite(impl[1]):
            ctx.count("metric:non-finite value (" + ("nan" if np.isnan(impl[1]) else ("+inf" if impl[1] > 0 else "-inf")) + ")")
        _check(ctx, "metric." + name, case, impl, mod, formula)
    # every metric on block arrays: the documented formula on the concatenation of the blocks (before 200a606 all but
    # rel_res raised TypeError: snp.mean / var / max / min are not block reductions - finding metric-blockarray, repaired)
    for _ in range(ctx.n(35, 350)):
        name = names[int(rng.integers(len(names)))]
        if name == "rel_res":
            continue
        cplx = bool(rng.random() < 0.3) and name != "psnr"
        shape = G.random_shape(rng, True)
        ab, bb, cb = ([G.dy(rng, s_, cplx) for s_ in shape] for _ in range(3))
        blk = lambda zs: snp.blockarray([snp.array(z) for z in zs])  # noqa: E731
        fl = lambda zs: np.concatenate([z.ravel() for z in zs])  # noqa: E731
        fn = getattr(metric, name)
        if name == "isnr":
            impl = _impl(lambda: float(fn(blk(ab), blk(bb), blk(cb))))
        else:
            impl = _impl(lambda: float(fn(blk(ab), blk(bb))))
        mkw = {"c": fs2b(G.il(fl(cb), cplx))} if name == "isnr" else {}
        mod = _model(model, "metric", name=name, cplx=cplx, a=fs2b(G.il(fl(ab), cplx)), b=fs2b(G.il(fl(bb), cplx)), **mkw)
        formula = _np_metric(name, fl(ab), fl(bb), fl(cb), None)
        case = {"metric": name, "block": [list(s_) for s_ in shape], "cplx": cplx, "a": fs2b(G.il(fl(ab), cplx)),
                "b": fs2b(G.il(fl(bb), cplx)), "c": fs2b(G.il(fl(cb), cplx))}
        ctx.case({k: case[k] for k in ("metric", "block", "cplx")}, ("metric-block", name, cplx, len(shape)))
        ctx.count(f"metric:{name}:block:" + ("value" if impl[0] == "ok" else "err-" + impl[1]))
        _check(ctx, "metric.block." + name, case, impl, mod, formula)
    # rel_res on block arrays (the only metric whose reductions are block-aware)
    for _ in range(ctx.n(15, 150)):
        shape = G.random_shape(rng, True)
        ab = [G.dy(rng, s, False) for s in shape]
        bb = [G.dy(rng, s, False) if rng.random() < 0.8 else np.zeros(s) for s in shape]
        impl = _impl(lambda: float(metric.rel_res(snp.blockarray([snp.array(z) for z in ab]), snp.blockarray([snp.array(z) for z in bb]))))
        fa = np.concatenate([z.ravel() for z in ab])
        fb = np.concatenate([z.ravel() for z in bb])
        mod = _model(model, "metric", name="rel_res", cplx=False, a=fs2b(fa), b=fs2b(fb))
        ctx.case({"metric": "rel_res", "block": [list(s) for s in shape]}, ("rel_res-block", len(shape)))
        ctx.count("metric:rel_res:block")
        _check(ctx, "metric.rel_res.block", {"a": fs2b(fa), "b": fs2b(fb)}, impl, mod, _np_metric("rel_res", fa, fb))


# --------------------------------------------------------------------------


def _corpus(ctx, model, scico):
    d = common.CORPUS_DIR / PROP
    if not d.exists():
        return
    import scico.functional as F
    import scico.numpy as snp

    for f in sorted(d.glob("*.json")):
        c = json.loads(f.read_text())
        ctx.count("corpus")
        if c.get("type") == "base":
            leaf, cplx = c["leaf"], c["cplx"]
            shapes = [tuple(s) for s in c["shape"]]
            arrs = [G.unil(b2fs(b), cplx, s) for b, s in zip(c["x"]["b"] if "b" in c["x"] else [c["x"]["a"]], shapes)]
            x = snp.blockarray([snp.array(a) for a in arrs]) if "b" in c["x"] else snp.array(arrs[0])
            obj = G.build_leaf(F, leaf)
            impl = _impl(lambda: float(obj(x)))
            req = {"fn": leaf["kind"], "cplx": cplx, "x": c["x"]}
            for p in ("delta", "beta", "radius"):
                if p in leaf:
                    req[p] = leaf[p]
            mod = _model(model, "feval", **req)
            ctx.case({"corpus": f.name}, ("corpus", f.name))
            _check(ctx, "feval." + leaf["kind"], c, impl, mod, G.np_leaf(leaf, arrs))


def generate(ctx):
    """ast translator (round 4): rewrites lean/Scico/Generated/ProxCalcTables.lean from the working tree of $SCICO_REPO"""
    import proxcalc_translate

    tabs = proxcalc_translate.generate()
    ctx.extra["translated_tables"] = {"flag tables": sorted(tabs["flags"]), "call sites": len(tabs["calls"]), "defaults": len(tabs["defaults"]),
                                      "metric functions": [m for m, _ in tabs["metrics"]], "raise sites": len(tabs["raises"]),
                                      "prox classes": tabs["prox_classes"], "loss classes": tabs["loss_classes"]}
    return [("Scico.Generated.ProxCalcTables", "metric functions and the reductions they call; defaults of norm / TV / ProximalAverage constructors; exception classes of the modelled argument checks (same generated module as C08)")]


def correspond(ctx, model):
    scico = common.setup_scico()
    _corpus(ctx, model, scico)
    run_base(ctx, model, scico)
    run_l21_axes(ctx, model, scico)
    run_l21_exhaustive(ctx, model, scico)
    run_huber_history(ctx, model, scico)
    run_attr_history(ctx, model, scico)
    run_l21_call(ctx, model, scico)
    run_tiny(ctx, model, scico)
    run_nuclear(ctx, model, scico)
    run_dist(ctx, model, scico)
    run_tv(ctx, model, scico)
    run_tv_exhaustive(ctx, model, scico)
    run_tv_history(ctx, model, scico)
    run_proxavg(ctx, model, scico)
    run_losses(ctx, model, scico)
    run_losses_block(ctx, model, scico)
    run_unit_factor(ctx, scico)
    run_trees(ctx, model, scico)
    run_metrics(ctx, model, scico)


def findings(ctx, model):
    """no `known:` entry for C09.  Witness of the repaired finding metric-blockarray (200a606) as a regression case:
    metric.mse(blockarray([[1,2],[[3]]]), blockarray([[1.5,2],[[2]]])) = (0.25 + 0 + 1)/3"""
    scico = common.setup_scico()
    import scico.numpy as snp
    from scico import metric

    a = snp.blockarray([snp.array(np.array([1.0, 2.0])), snp.array(np.array([[3.0]]))])
    b = snp.blockarray([snp.array(np.array([1.5, 2.0])), snp.array(np.array([[2.0]]))])
    impl = _impl(lambda: float(metric.mse(a, b)))
    mod = _model(model, "metric", name="mse", cplx=False, a=fs2b([1.0, 2.0, 3.0]), b=fs2b([1.5, 2.0, 2.0]))
    ctx.case({"regression": "metric-blockarray"}, ("regression", "metric-blockarray"))
    _check(ctx, "metric.block.mse", {"regression": "metric-blockarray"}, impl, mod, 1.25 / 3)
    ctx.known_finding("metric-blockarray", False)
    # finding tvnorm-stale-operator (repaired 06ebce8): the operator cached by TVNorm.__call__ ignored a later change of `circular` / `axes`
    import scico.functional as F

    x = snp.array(np.array([[1.0, -2.0, 3.0], [0.5, 4.0, -1.0]]))
    tv = F.AnisotropicTVNorm(circular=True, input_dtype=np.float64)
    v0 = float(tv(x))
    tv.circular = False
    v1 = float(tv(x))
    fresh = float(F.AnisotropicTVNorm(circular=False, input_dtype=np.float64)(x))
    ctx.known_finding("tvnorm-stale-operator", False)  # repaired by 06ebce8: regression case
    ctx.case({"regression": "tvnorm-stale-operator"}, ("regression", "tvnorm-stale-operator"))
    if not (v0 == 41.0 and v1 == fresh == 27.0):
        ctx.violation({"kind": "failing-input", "op": "tvnorm attribute history", "x": np.asarray(x).tolist(), "circular=True": v0,
                       "after circular=False": v1, "fresh": fresh}, True,
                      "TVNorm after `circular = False` differs from a fresh object (regression of 06ebce8)")


def search(ctx, model, why):
    """failing-input search.  After a broken generated obligation (`why` names the module) the table rows of the working tree
    that differ from the pinned ones are determined and the streams that exercise exactly those functions are re-run with a
    doubled budget as a targeted panel (oracle: implementation vs the independent documented formula).  Without `why`
    (thorough tier): no separate search - every stream of correspond() already carries the formula oracle."""
    if why is None:
        return None
    import proxcalc_translate

    scico = common.setup_scico()
    rows = proxcalc_translate.differing_rows()
    ctx.extra["differing_table_rows"] = rows
    S = {
        "base": lambda c: run_base(c, model, scico), "tiny": lambda c: run_tiny(c, model, scico), "huber": lambda c: run_huber_history(c, model, scico),
        "attr": lambda c: run_attr_history(c, model, scico), "l21": lambda c: run_l21_axes(c, model, scico), "l21x": lambda c: run_l21_exhaustive(c, model, scico), "l21c": lambda c: run_l21_call(c, model, scico),
        "nuclear": lambda c: run_nuclear(c, model, scico), "dist": lambda c: run_dist(c, model, scico), "tv": lambda c: run_tv(c, model, scico),
        "tvh": lambda c: run_tv_history(c, model, scico), "proxavg": lambda c: run_proxavg(c, model, scico), "losses": lambda c: run_losses(c, model, scico),
        "lossb": lambda c: run_losses_block(c, model, scico), "unit": lambda c: run_unit_factor(c, scico), "trees": lambda c: run_trees(c, model, scico),
        "metrics": lambda c: run_metrics(c, model, scico),
    }
    pick = []
    for r in rows:
        cls = r.split(".")[0]
        if cls in ("L0Norm", "L1Norm", "SquaredL2Norm", "L2Norm", "L1MinusL2Norm", "NonNegativeIndicator", "L2BallIndicator"):
            pick += ["base", "tiny", "attr"]
        elif cls == "HuberNorm":
            pick += ["base", "huber", "attr"]
        elif cls == "L21Norm":
            pick += ["l21x", "l21", "l21c", "base", "tiny"]
        elif cls == "NuclearNorm":
            pick += ["nuclear"]
        elif cls in ("SetDistance", "SquaredSetDistance"):
            pick += ["dist"]
        elif cls == "TVNorm":
            pick += ["tv", "tvh", "attr"]
        elif cls == "ProximalAverage":
            pick += ["proxavg"]
        elif cls in ("SquaredL2Loss", "SquaredL2AbsLoss", "SquaredL2SquaredAbsLoss", "PoissonLoss"):
            pick += ["losses", "lossb", "unit", "trees"]
        elif cls in ("ScaledFunctional", "SeparableFunctional", "FunctionalSum", "ZeroFunctional", "Loss", "Functional"):
            pick += ["trees", "unit"]
        elif cls == "metric":
            pick += ["metrics"]
    if not pick:
        pick = list(S)  # flag logic / class lists: everything
    seen, order = set(), []
    for k_ in pick:
        if k_ not in seen:
            seen.add(k_)
            order.append(S[k_])
    return G.panel(ctx, order, rows)


def replay(ctx, model, case):
    """re-evaluate the property oracle (implementation vs independent numpy formula) at the recorded case"""
    scico = common.setup_scico()
    import scico.functional as F
    import scico.numpy as snp
    from scico import metric

    c = case.get("case", case)
    failing = None
    if "leaf" in c and "x" in c:  # base functional
        leaf, cplx = c["leaf"], c["cplx"]
        shapes = [tuple(s) for s in c["shape"]]
        raw = c["x"]["b"] if "b" in c["x"] else [c["x"]["a"]]
        arrs = [G.unil(b2fs(b), cplx, s) for b, s in zip(raw, shapes)]
        x = snp.blockarray([snp.array(a) for a in arrs]) if "b" in c["x"] else snp.array(arrs[0])
        impl = _impl(lambda: float(G.build_leaf(F, leaf)(x)))
        want = G.np_leaf(leaf, arrs)
        if impl[0] == "ok" and not common.close(impl[1], want, k=64, rtol=1e-8):
            failing = {"impl": impl[1], "formula": want}
    elif "metric" in c:
        cplx = c["cplx"]
        shape = tuple(c["shape"])
        a, b, cc = (G.unil(b2fs(c[k]), cplx, shape) for k in ("a", "b", "c"))
        fn = getattr(metric, c["metric"])
        kw = {"signal_range": c["range"]} if c.get("range") is not None else {}
        impl = _impl(lambda: float(fn(snp.array(a), snp.array(b), snp.array(cc)) if c["metric"] == "isnr" else fn(snp.array(a), snp.array(b), **kw)))
        want = _np_metric(c["metric"], a, b, cc, c.get("range"))
        if impl[0] == "ok" and not common.close(impl[1], want, k=64, rtol=1e-8):
            failing = {"impl": impl[1], "formula": want}
    elif "t" in c:  # wrapper tree
        obj, _ = G.build(scico, c)
        shape = G.norm_shape(c["shape"])
        if obj is not TypeError:
            impl = _impl(lambda: float(obj(G.arg_to_scico(c["x"], shape, c["cplx"]))))
            blocks = G._json_blocks(c["x"], shape, c["cplx"]) if isinstance(shape, list) else [G.unil(b2fs(c["x"]["a"]), c["cplx"], tuple(shape))]
            try:
                want = G.np_eval(c, blocks)
                if impl[0] == "ok" and not common.close(impl[1], want, k=256, rtol=1e-8):
                    failing = {"impl": impl[1], "formula": want}
            except G.NotAvail:
                pass
    else:
        print("replay: this case kind is reproduced by re-running `./check C09 quick` with the recorded VERIF_SEED")
        return
    print("replay:", "property FAILS on implementation:" if failing else "no failure at this input", failing or "")
    if failing:
        ctx.violation({"kind": "failing-input", "case": c, "failing": failing}, True, "replay")
