"""Independent numpy implementations of the DOCUMENTED maps of scico's built-in linear operators.

`ref_matrix(name, cfg)` returns the dense matrix (row-major flattening of input / output, BlockArrays
concatenated) of the documented map of the operator `opgrid.build(name, cfg)` would construct, using
only numpy (no scico, no jax).  Used by harness/c04.py
  * as the property oracle on the implementation (random inputs: real operator vs this matrix), and
  * as the reference for the classes outside the Lean model (N-d / fractional-centre circular
    convolution, N-d convolution, non-constant pad modes, projected gradients, 3-D X-ray, optics, ...).
Abel: the reference is PyAbel itself (abel.Transform, method "daun").
"""

from __future__ import annotations

import itertools
import math

import numpy as np

from opgrid import dec, _idx_dec


def prod(s):
    return int(np.prod(s, dtype=int))


def kron_axis(shape, ax, A):
    """I_outer (x) A (x) I_inner for a 1-d matrix A acting on axis `ax` of an array of shape `shape`"""
    outer, inner = prod(shape[:ax]), prod(shape[ax + 1 :])
    return np.kron(np.kron(np.eye(outer), A), np.eye(inner))


def from_fn(fn, shape, dtype=np.float64):
    """dense matrix of a numpy function on arrays of `shape` (basis vectors)"""
    n = prod(shape)
    cols = []
    for j in range(n):
        e = np.zeros(n, dtype=dtype)
        e[j] = 1
        y = fn(e.reshape(shape))
        if isinstance(y, (list, tuple)):
            y = np.concatenate([np.asarray(b).ravel() for b in y])
        cols.append(np.asarray(y).ravel())
    return np.stack(cols, 1) if cols else np.zeros((0, 0))


# ---------------------------------------------------------------- finite differences


def fd_matrix_1d(n, prepend, append, circular):
    """banded matrix of the SingleAxisFiniteDifference docstring"""
    band = np.zeros((max(n - 1, 0), n))
    for i in range(n - 1):
        band[i, i], band[i, i + 1] = -1, 1
    if circular:
        last = np.zeros((1, n))
        last[0, 0] += 1
        last[0, n - 1] -= 1
        return np.vstack([band, last])
    rows = []
    if prepend == 0:
        rows.append(np.zeros((1, n)))
    elif prepend == 1:
        r = np.zeros((1, n))
        r[0, 0] = 1
        rows.append(r)
    rows.append(band)
    if append == 0:
        rows.append(np.zeros((1, n)))
    elif append == 1:
        r = np.zeros((1, n))
        r[0, n - 1] = -1
        rows.append(r)
    return np.vstack(rows)


def norm_axes(axes, nd):
    if axes is None:
        return list(range(nd))
    if isinstance(axes, int):
        axes = [axes]
    return [a % nd for a in axes]


def r_SingleAxisFiniteDifference(c):
    sh = c["shape"]
    ax = c["axis"] % len(sh)
    return kron_axis(sh, ax, fd_matrix_1d(sh[ax], c["prepend"], c["append"], c["circular"]))


def r_FiniteDifference(c):
    sh = c["shape"]
    return np.vstack([kron_axis(sh, ax, fd_matrix_1d(sh[ax], c["prepend"], c["append"], c["circular"])) for ax in norm_axes(c["axes"], len(sh))])


# ---------------------------------------------------------------- DFT


def dft_matrix_1d(n, m, norm, inverse=False):
    """m-point DFT of a length-n signal cropped / zero-padded to m  (m x n)"""
    k = np.arange(m)[:, None]
    j = np.arange(m)[None, :]
    W = np.exp((2j if inverse else -2j) * np.pi * j * k / m)
    if inverse:
        s = {None: 1 / m, "backward": 1 / m, "ortho": 1 / math.sqrt(m), "forward": 1.0}[norm]
    else:
        s = {None: 1.0, "backward": 1.0, "ortho": 1 / math.sqrt(m), "forward": 1 / m}[norm]
    P = np.zeros((m, n))
    for i in range(min(n, m)):
        P[i, i] = 1
    return s * W @ P


def dft_axes(c):
    sh, axes, ash = c["shape"], c["axes"], c["axes_shape"]
    nd = len(sh)
    if axes is None:
        axes = list(range(nd)) if ash is None else list(range(nd - len(ash), nd))
    if ash is None:
        ash = [sh[a] for a in axes]
    return [a % nd for a in axes], list(ash)


def r_DFT(c):
    sh = list(c["shape"])
    axes, ash = dft_axes(c)
    M = np.eye(prod(sh), dtype=complex)
    cur = list(sh)
    for a, m in zip(axes, ash):
        M = kron_axis(cur, a, dft_matrix_1d(cur[a], m, c["norm"])) @ M
        cur[a] = m
    return M


def dft_inverse_documented(c):
    """the inverse the documentation promises when no axis is truncated: inverse transform at the
    transform size, then crop to the input size"""
    sh = list(c["shape"])
    axes, ash = dft_axes(c)
    cur = list(sh)
    for a, m in zip(axes, ash):
        cur[a] = m
    M = np.eye(prod(cur), dtype=complex)
    for a, m in zip(axes, ash):
        n = sh[a]
        C = np.zeros((min(n, m), m))
        for i in range(min(n, m)):
            C[i, i] = 1
        if n > m:  # truncated axis: pad back with zeros (pseudo-inverse)
            C = np.vstack([C, np.zeros((n - m, m))])
        M = kron_axis(cur, a, C @ dft_matrix_1d(m, m, c["norm"], inverse=True)) @ M
        cur[a] = n
    return M


# ---------------------------------------------------------------- circular convolution


def shift_kernel(hpad, centers):
    """filter whose centre `c` (possibly fractional) is moved to index 0: g = IDFT(DFT(h) * phase),
    phase(f) = exp(+2 pi i c f~/n) with the signed frequency f~ (cos(pi c) at the Nyquist bin)"""
    nd = len(centers)
    G = np.fft.fftn(hpad, axes=list(range(hpad.ndim - nd, hpad.ndim)))
    for d, cval in enumerate(centers):
        ax = hpad.ndim - nd + d
        n = hpad.shape[ax]
        ph = np.zeros(n, dtype=complex)
        for f in range(n):
            if 2 * f < n:
                ph[f] = np.exp(2j * np.pi * cval * f / n)
            elif 2 * f == n:
                ph[f] = math.cos(math.pi * cval)
            else:
                ph[f] = np.exp(2j * np.pi * cval * (f - n) / n)
        shp = [1] * hpad.ndim
        shp[ax] = n
        G = G * ph.reshape(shp)
    return np.fft.ifftn(G, axes=list(range(hpad.ndim - nd, hpad.ndim)))


def circ_matrix_nd(g, xshape, nd, real_out):
    """y[b, i] = sum_j g[b_h, (i - j) mod n] x[b_x, j] with numpy broadcasting over the leading axes"""
    xshape = tuple(xshape)
    oshape = np.broadcast_shapes(g.shape, xshape)
    conv_shape = oshape[len(oshape) - nd :]
    N = prod(xshape)
    M = np.zeros((prod(oshape), N), dtype=complex)
    gl = np.broadcast_to(g, oshape)
    lead_o = oshape[: len(oshape) - nd]
    xlead = xshape[: len(xshape) - nd]
    for oi in itertools.product(*[range(s) for s in oshape]):
        bo, io = oi[: len(lead_o)], oi[len(lead_o) :]
        # batch index of x that broadcasts to bo
        bx = tuple((bo[len(lead_o) - len(xlead) + t] if xlead[t] != 1 else 0) for t in range(len(xlead)))
        row = np.ravel_multi_index(oi, oshape)
        for jx in itertools.product(*[range(s) for s in conv_shape]):
            d = tuple((a - b) % n for a, b, n in zip(io, jx, conv_shape))
            col = np.ravel_multi_index(bx + jx, xshape)
            M[row, col] += gl[bo + d]
    return M.real if real_out else M


def r_CircularConvolve(c):
    xs = c["shape"]
    if c["route"] == "from_operator":
        if c["inner"] == "circ":
            inner = dict(c, route="init", h_center=None, h_is_dft=False)
            return r_CircularConvolve(inner)
        return kron_axis(xs, c["axis"], fd_matrix_1d(xs[c["axis"]], None, None, True))
    nd = c["ndims"] if c["ndims"] is not None else len(xs)
    h = dec(c["h"])
    conv_shape = xs[len(xs) - nd :]
    if c["h_is_dft"]:
        g = np.fft.ifftn(h, axes=list(range(h.ndim - nd, h.ndim)))
        real_out = c["dtype"] in ("float64", "float32")
    else:
        # fftn(h, s=conv_shape): the filter is zero-padded, or cropped on the axes where it is longer
        h = h[tuple([slice(None)] * (h.ndim - nd) + [slice(0, n) for n in conv_shape])]
        pad = [(0, 0)] * (h.ndim - nd) + [(0, n - k) for n, k in zip(conv_shape, h.shape[h.ndim - nd :])]
        g = np.pad(h, pad)
        hc = c["h_center"]
        if hc is not None:
            hc = [hc] if isinstance(hc, (int, float)) else list(hc)
            g = shift_kernel(g, hc)
        real_out = not (np.iscomplexobj(h) or c["dtype"].startswith("complex"))
    return circ_matrix_nd(np.asarray(g, dtype=complex), xs, nd, real_out)


# ---------------------------------------------------------------- linear convolution


def conv_full_nd(a, b):
    out = np.zeros([p + q - 1 for p, q in zip(a.shape, b.shape)], dtype=np.result_type(a, b))
    for ia in itertools.product(*[range(s) for s in a.shape]):
        for ib in itertools.product(*[range(s) for s in b.shape]):
            out[tuple(p + q for p, q in zip(ia, ib))] += a[ia] * b[ib]
    return out


def conv_mode(a, b, mode):
    """convolve(a, b, mode): 'same' is centred w.r.t. 'full' and has the shape of the FIRST argument"""
    full = conv_full_nd(a, b)
    if mode == "full":
        return full
    if mode == "same":
        sl = tuple(slice((q - 1) // 2, (q - 1) // 2 + p) for p, q in zip(a.shape, b.shape))
        return full[sl]
    sl = tuple(slice(min(p, q) - 1, max(p, q)) for p, q in zip(a.shape, b.shape))
    return full[sl]


def r_Convolve(c):
    h = dec(c["h"])
    dt = complex if (np.iscomplexobj(h) or c["dtype"].startswith("complex")) else float
    return from_fn(lambda x: conv_mode(x, h, c["mode"]), c["shape"], dt)


def r_ConvolveByX(c):
    xf = dec(c["h"])
    dt = complex if (np.iscomplexobj(xf) or c["dtype"].startswith("complex")) else float
    return from_fn(lambda h: conv_mode(xf, h, c["mode"]), c["shape"], dt)


# ---------------------------------------------------------------- array-function wrappers


def _pw(pw, nd):
    a = np.asarray(pw)
    if a.ndim == 0:
        return [(int(a), int(a))] * nd
    if a.ndim == 1:
        return [(int(a[0]), int(a[1]))] * nd
    return [(int(r[0]), int(r[1])) for r in a]


def r_Pad(c):
    return from_fn(lambda x: np.pad(x, _pw(c["pad_width"], len(c["shape"])), mode=c["mode"]), c["shape"])


def r_Crop(c):
    w = _pw(c["crop_width"], len(c["shape"]))
    return from_fn(lambda x: x[tuple(slice(lo, x.shape[i] - hi) for i, (lo, hi) in enumerate(w))], c["shape"])


def r_Reshape(c):
    return np.eye(prod(c["shape"]))


def r_Transpose(c):
    return from_fn(lambda x: np.transpose(x, c["axes"]), c["shape"])


def r_Sum(c):
    if "blocks" in c:
        # documented: with an axis each block is reduced separately (result: the blocks of per-block sums), without an
        # axis the whole block array is summed
        sizes = [prod(b) for b in c["blocks"]]
        n = sum(sizes)
        cols = []
        for j in range(n):
            e = np.zeros(n)
            e[j] = 1
            parts, o = [], 0
            for b, sz in zip(c["blocks"], sizes):
                parts.append(e[o:o + sz].reshape(b))
                o += sz
            if c["axis"] is None:
                cols.append(np.asarray([sum(float(p.sum()) for p in parts)]))
            else:
                cols.append(np.concatenate([np.asarray(p.sum(axis=c["axis"])).ravel() for p in parts]))
        return np.stack(cols, 1)
    ax = c["axis"]
    ax = tuple(ax) if isinstance(ax, list) else ax
    return from_fn(lambda x: np.sum(x, axis=ax, keepdims=c["keepdims"]), c["shape"])


def r_Slice(c):
    idx = _idx_dec(c["idx"])
    return from_fn(lambda x: x[idx], c["shape"])


def r_Identity(c):
    return np.eye(prod(c["shape"]))


def r_ScaledIdentity(c):
    s = c["scalar"]
    s = complex(*s) if isinstance(s, list) else s
    return s * np.eye(prod(c["shape"]))


def r_Diagonal(c):
    d = dec(c["diagonal"])
    ish = c["input_shape"] or list(d.shape)
    dt = complex if np.iscomplexobj(d) else float
    return from_fn(lambda x: d * x, ish, dt)


def r_MatrixOperator(c):
    A = dec(c["A"])
    k = c["input_cols"]
    return A if k == 0 else np.kron(A, np.eye(k))


def _shapes(name, c):
    """(input_shape, output_shape) of the documented operator, nested lists for block arrays"""
    import opgrid

    op = opgrid.build(name, c)
    return op.input_shape, op.output_shape


def r_VerticalStack(c):
    return np.vstack([ref_matrix(n, cc) for n, cc in c["ops"]])


def r_DiagonalStack(c):
    Ms = [ref_matrix(n, cc) for n, cc in c["ops"]]
    R = np.zeros((sum(m.shape[0] for m in Ms), sum(m.shape[1] for m in Ms)), dtype=np.result_type(*Ms))
    r = q = 0
    for m in Ms:
        R[r : r + m.shape[0], q : q + m.shape[1]] = m
        r += m.shape[0]
        q += m.shape[1]
    return R


def r_DiagonalReplicated(c):
    name, cc = c["op"]
    A = ref_matrix(name, cc)
    ish, osh = _shapes(name, cc)
    ish, osh = list(ish), list(osh)
    rep = c["replicates"]
    ia = c["input_axis"] if c["input_axis"] >= 0 else len(ish) + 1 + c["input_axis"]
    oa = ia if c["output_axis"] is None else c["output_axis"]
    if oa < 0:  # negative values count from the end of the OUTPUT array (rank len(osh) + 1)
        oa = len(osh) + 1 + oa
    in_sh = ish[:ia] + [rep] + ish[ia:]
    out_sh = osh[:oa] + [rep] + osh[oa:]

    def fn(x):
        outs = []
        for r in range(rep):
            xr = np.take(x, r, axis=ia)
            outs.append((A @ xr.ravel()).reshape(osh))
        return np.stack(outs, axis=oa)

    assert prod(out_sh) == rep * prod(osh)
    return from_fn(fn, in_sh, A.dtype)


def r_ComposedLinearOperator(c):
    import opgrid

    B = ref_matrix(*c["B"])
    osh = list(opgrid.build(*c["B"]).output_shape)
    if c["A"] == "fd_last":
        A = kron_axis(osh, len(osh) - 1, fd_matrix_1d(osh[-1], None, None, True))
    else:
        A = np.diag(np.arange(1, 1 + prod(osh), dtype=float))
    return A @ B


# ---------------------------------------------------------------- projected gradients


def _grad_list(x, axes, cdiff):
    out = []
    for ax in axes:
        if cdiff:
            out.append(np.gradient(x, axis=ax))
        else:
            out.append(np.diff(x, axis=ax, append=np.take(x, [-1], axis=ax)))
    return out


def _project(shape, axes, coords, cdiff):
    """sum_m coord[m] * grad[m] for every coordinate system; block output when more than one"""

    def fn(x):
        g = _grad_list(x, axes, cdiff)
        if coords is None:
            return g
        return [sum(cm * gm for cm, gm in zip(cs, g)) for cs in coords]

    return from_fn(fn, shape)


def proj_coords(name, c):
    """(axes, coords): coords is None (plain stacked differences) or, per local axis, the list of coordinate
    fields c_m (arrays broadcastable against the input) multiplying the difference along axes[m]"""
    sh = c["shape"]
    if name == "ProjectedGradient":
        axes = list(range(len(sh))) if c["axes"] is None else c["axes"]
        coords = None
        if c["coord"] is not None:
            coords = []
            for cc in c["coord"]:
                if "block" in cc:
                    coords.append([dec(b) for b in cc["block"]])
                else:
                    a = dec(cc["array"])
                    coords.append([a[m] for m in range(a.shape[0])])
        return axes, coords
    if name == "PolarGradient":
        axes = [0, 1] if c["axes"] is None else c["axes"]
        g0, g1 = _position_grids(sh, axes, c["center"], [(sh[a] - 1) / 2 for a in axes])
        theta = np.arctan2(g0 + 0 * g1, g1 + 0 * g0)
        coords = []
        if c["angular"]:
            coords.append([-np.cos(theta), np.sin(theta)])
        if c["radial"]:
            coords.append([np.sin(theta), np.cos(theta)])
        return axes, coords
    if name == "CylindricalGradient":
        axes = [0, 1, 2] if c["axes"] is None else c["axes"]
        dc = [(sh[a] - 1) / 2 for a in axes]
        dc[2] = 0
        g0, g1, _ = _position_grids(sh, axes, c["center"], dc)
        theta = np.arctan2(g0 + 0 * g1, g1 + 0 * g0)
        coords = []
        if c["angular"]:
            coords.append([-np.cos(theta), np.sin(theta), 0.0])
        if c["radial"]:
            coords.append([np.sin(theta), np.cos(theta), 0.0])
        if c["axial"]:
            coords.append([0.0, 0.0, 1.0])
        return axes, coords
    if name == "SphericalGradient":
        axes = [0, 1, 2] if c["axes"] is None else c["axes"]
        g0, g1, g2 = _position_grids(sh, axes, c["center"], [(sh[a] - 1) / 2 for a in axes])
        z = 0 * g0 + 0 * g1 + 0 * g2
        g0, g1, g2 = g0 + z, g1 + z, g2 + z
        theta = np.arctan2(g1, g0)
        phi = np.arctan2(np.sqrt(g0**2 + g1**2), g2)
        coords = []
        if c["azimuthal"]:
            coords.append([np.sin(theta), -np.cos(theta), 0.0])
        if c["polar"]:
            coords.append([np.cos(phi) * np.cos(theta), np.cos(phi) * np.sin(theta), -np.sin(phi)])
        if c["radial"]:
            coords.append([np.sin(phi) * np.cos(theta), np.sin(phi) * np.sin(theta), np.cos(phi)])
        return axes, coords
    raise KeyError(name)


def _position_grids(shape, axes, center, default_center):
    """coordinates of every array position relative to the centre, along the gradient axes,
    as arrays broadcastable against the input"""
    nd = len(shape)
    cen = default_center if center is None else center
    out = []
    for k, ax in enumerate(axes):
        g = np.arange(shape[ax], dtype=float) - cen[k]
        shp = [1] * nd
        shp[ax] = shape[ax]
        out.append(g.reshape(shp))
    return out


def _r_proj(name, c):
    axes, coords = proj_coords(name, c)
    return _project(c["shape"], axes, coords, c["cdiff"])


def r_ProjectedGradient(c):
    return _r_proj("ProjectedGradient", c)


def r_PolarGradient(c):
    return _r_proj("PolarGradient", c)


def r_CylindricalGradient(c):
    return _r_proj("CylindricalGradient", c)


def r_SphericalGradient(c):
    return _r_proj("SphericalGradient", c)


# ---------------------------------------------------------------- X-ray


def xray2d_geometry(c):
    """defaults of XRayTransform2D.__init__"""
    sh = c["shape"]
    dx = c["dx"]
    if dx is None:
        dx = [math.sqrt(2) / 2] * 2
    elif not isinstance(dx, list):
        dx = [dx, dx]
    x0 = c["x0"] if c["x0"] is not None else [-(sh[0] * dx[0]) / 2, -(sh[1] * dx[1]) / 2]
    ny = c["det_count"] if c["det_count"] is not None else int(math.ceil(math.hypot(*sh)))
    y0 = c["y0"] if c["y0"] is not None else -ny / 2
    return sh, dx, x0, ny, y0


def xray2d_weights(c, angle):
    """documented footprint model: pixel (i,j) projects to a boxcar starting at Px (left edge of the
    projected pixel) of width (w+f)/2; fraction min(1-frac(Px), width)/width goes to bin floor(Px)"""
    sh, dx, x0, ny, y0 = xray2d_geometry(c)
    u = (math.cos(angle), math.sin(angle))
    corners = [x0[0] * u[0] + x0[1] * u[1] - y0 + a * dx[0] * u[0] + b * dx[1] * u[1] for a in (0, 1) for b in (0, 1)]
    pxmin = min(corners)
    i = np.arange(sh[0])[:, None]
    j = np.arange(sh[1])[None, :]
    Px = pxmin + dx[0] * u[0] * i + dx[1] * u[1] * j
    d1, d2 = abs(dx[0] * u[0] + dx[1] * u[1]), abs(dx[0] * u[0] - dx[1] * u[1])
    width = (max(d1, d2) + min(d1, d2)) / 2
    inds = np.floor(Px).astype(int)
    w = np.minimum(1 - (Px - inds), width) / width
    return inds, w, Px


def xray2d_width(c, angle):
    """width of the boxcar footprint of a pixel at this angle"""
    sh, dx, x0, ny, y0 = xray2d_geometry(c)
    u = (math.cos(angle), math.sin(angle))
    d1, d2 = abs(dx[0] * u[0] + dx[1] * u[1]), abs(dx[0] * u[0] - dx[1] * u[1])
    return (max(d1, d2) + min(d1, d2)) / 2


def r_XRayTransform2D(c):
    """documented boxcar model: pixel p contributes w to bin I and 1 - w to bin I + 1, each when that bin is on the
    detector (the integral of the pixel's boxcar over the bin)"""
    sh, dx, x0, ny, y0 = xray2d_geometry(c)
    npx = prod(sh)
    rows = []
    for ang in c["angles"]:
        inds, w, _ = xray2d_weights(c, ang)
        A = np.zeros((ny, npx))
        for p, (I, wt) in enumerate(zip(inds.ravel(), w.ravel())):
            if 0 <= I < ny:
                A[I, p] += wt
            if 0 <= I + 1 < ny:
                A[I + 1, p] += 1 - wt
        rows.append(A)
    return np.vstack(rows)


def xray3d_geometry(c):
    """per view: (M (2x3), t (2,)) of the homogeneous projection matrices built by matrices_from_euler_angles"""
    from scipy.spatial.transform import Rotation

    sh, det = c["shape"], c["det_shape"]
    if "matrices" in c:  # hand-written (views, 2, 4) matrices: M and t of the documented convention
        return [(np.asarray(Mh, dtype=float)[:, :3], np.asarray(Mh, dtype=float)[:, 3]) for Mh in c["matrices"]]
    vs = np.ones(3) if c["voxel_spacing"] is None else np.asarray(c["voxel_spacing"])
    ds = np.ones(2) if c["det_spacing"] is None else np.asarray(c["det_spacing"])
    R = Rotation.from_euler(c["seq"], np.asarray(c["angles"], dtype=float)).as_matrix()[:, :2, :]
    Ms = []
    for Rv in R:
        Mv = np.diag(1 / ds) @ Rv @ np.diag(vs)
        t = -Mv @ (np.asarray(sh) / 2) + np.asarray(det) / 2
        Ms.append((Mv, t))
    return Ms


def xray3d_left_edges(c):
    """left edges (detector-bin units) of the footprints (squares of side 0.5 centred at the projected voxel centres):
    array (views, nvox, 2)"""
    sh = c["shape"]
    out = []
    for Mv, t in xray3d_geometry(c):
        out.append([Mv @ (np.asarray(ijk) + 0.5) + t - 0.25 for ijk in itertools.product(*[range(s) for s in sh])])
    return np.asarray(out)


def xray3d_integer_edge(c, eps=1e-9):
    """some footprint has its left edge on a detector-bin edge (regression class of the fixed finding xray3d-integer-edge)"""
    le = xray3d_left_edges(c)
    return bool(np.any(np.abs(le - np.round(le)) < eps))


def r_XRayTransform3D(c):
    """documented model, from the geometry only: voxel (i,j,k) has its centre projected to M (i+1/2, j+1/2, k+1/2) + t;
    its footprint is the square of side 1/2 centred there; detector pixel (a, b) covers [a, a+1) x [b, b+1) and receives
    the fraction of the footprint's area that lies in it (computed as a product of interval overlaps)"""
    sh, det = c["shape"], c["det_shape"]
    nvox = prod(sh)
    w = 0.5

    def overlaps(left, nbins):
        """{bin: |[left, left + w] ∩ [bin, bin + 1]| / w} for the bins of the detector that are met"""
        out = {}
        for b in range(int(np.floor(left)), int(np.floor(left + w)) + 1):
            ov = min(b + 1, left + w) - max(b, left)
            if ov > 0 and 0 <= b < nbins:
                out[b] = ov / w
        return out

    blocks = []
    for Mv, t in xray3d_geometry(c):
        A = np.zeros((prod(det), nvox))
        for p, ijk in enumerate(itertools.product(*[range(s) for s in sh])):
            left = Mv @ (np.asarray(ijk) + 0.5) + t - w / 2
            for a, wa in overlaps(left[0], det[0]).items():
                for b, wb in overlaps(left[1], det[1]).items():
                    A[a * det[1] + b, p] += wa * wb
        blocks.append(A)
    return np.vstack(blocks)


# ---------------------------------------------------------------- optics


def signed_freq(n, d):
    return np.array([(i if 2 * i < n else i - n) / (n * d) for i in range(n)])


def kp_documented(shape, dx):
    """radial transverse frequency: axis 0 <-> (N_x, dx[0]), axis 1 <-> (N_y, dx[1])"""
    if len(shape) == 1:
        return 2 * np.pi * signed_freq(shape[0], dx[0])
    kx = 2 * np.pi * signed_freq(shape[0], dx[0])
    ky = 2 * np.pi * signed_freq(shape[1], dx[1])
    return np.sqrt(kx[:, None] ** 2 + ky[None, :] ** 2)


def _dxs(c):
    dx = c["dx"]
    return list(dx) if isinstance(dx, list) else [dx] * len(c["shape"])


def _propagator(c, transfer):
    """F^-1 D F at the padded size with zero padding before and cropping after"""
    sh = c["shape"]
    pf = c["pad_factor"]
    psh = [pf * s for s in sh]
    kp = kp_documented(psh, _dxs(c))
    D = transfer(kp).astype(np.complex64).astype(complex)

    def fn(x):
        X = np.fft.fftn(x, s=psh)
        y = np.fft.ifftn(D * X)
        return y[tuple(slice(0, s) for s in sh)]

    return from_fn(fn, sh, complex)


def r_AngularSpectrumPropagator(c):
    k0, z = c["k0"], c["z"]
    return _propagator(c, lambda kp: np.exp(1j * z * np.sqrt((k0**2 - kp**2).astype(complex))))


def r_FresnelPropagator(c):
    k0, z = c["k0"], c["z"]
    return _propagator(c, lambda kp: np.exp(1j * z * (k0 - kp**2 / (2 * k0))))


def r_FraunhoferPropagator(c):
    sh, dx, k0, z = c["shape"], _dxs(c), c["k0"], c["z"]
    L = [s * d for s, d in zip(sh, dx)]
    dxD = [abs(2 * np.pi * z / (k0 * l)) for l in L]
    # destination grid: N samples of spacing dx_D starting at -L_D/2
    xD = [-abs(2 * np.pi * z / (k0 * d)) / 2 + dd * np.arange(s) for s, d, dd in zip(sh, dx, dxD)]
    r2 = xD[0] ** 2 if len(sh) == 1 else xD[0][:, None] ** 2 + xD[1][None, :] ** 2
    P = -1j * np.exp(1j * k0 * z) * np.exp(1j * 0.5 * k0 / z * r2) * k0 / (2 * np.pi) * abs(1 / z) * np.prod(dx)
    P = P.astype(np.complex64).astype(complex)
    return from_fn(lambda x: np.fft.ifftshift(P * np.fft.fftn(np.fft.fftshift(x))), sh, complex)


# ---------------------------------------------------------------- Abel, Haar / finite sums, misc


def r_AbelTransform(c):
    import abel

    sh = c["shape"]
    return from_fn(lambda x: abel.Transform(x, direction="forward", method="daun", transform_options={"degree": 0, "verbose": False}, symmetry_axis=None).transform, sh)


def fsum_matrix_1d(n):
    A = np.zeros((n, n))
    for i in range(n):
        A[i, i] += 1
        A[i, (i + 1) % n] += 1
    return A


def r_SingleAxisFiniteSum(c):
    sh = c["shape"]
    ax = c["axis"] % len(sh)
    return kron_axis(sh, ax, fsum_matrix_1d(sh[ax]))


def r_FiniteSum(c):
    sh = c["shape"]
    return np.vstack([kron_axis(sh, ax, fsum_matrix_1d(sh[ax])) for ax in norm_axes(c["axes"], len(sh))])


def r_SingleAxisHaarTransform(c):
    sh = c["shape"]
    ax = c["axis"] % len(sh)
    s = 1 / math.sqrt(2)
    return np.vstack([s * kron_axis(sh, ax, fsum_matrix_1d(sh[ax])), s * kron_axis(sh, ax, fd_matrix_1d(sh[ax], None, None, True))])


def r_HaarTransform(c):
    sh = c["shape"]
    return np.vstack([r_SingleAxisHaarTransform({"shape": sh, "axis": ax}) for ax in norm_axes(c["axes"], len(sh))])


def r_linop_from_function(c):
    fns = {"flip": np.flip, "roll": np.roll, "cumsum": np.cumsum, "conj_twice": lambda x: x}
    return from_fn(lambda x: fns[c["fn"]](x, **c["kwargs"]), c["shape"], complex if c["dtype"].startswith("complex") else float)


def ref_matrix(name, cfg):
    return globals()["r_" + name](cfg)
