"""Translator of the Prox engine (C02, DESIGN §6.3): data of the scico source that the hand-written model / harness copies
-> lean/Scico/Generated/ProxTables.lean, rewritten on every run from the working tree of $SCICO_REPO with `ast` only
(scico is not imported).  The generated module states `decide`-able obligations against the expected tables of
`Scico/Proofs/ProxTables.lean`:

* flags      : every class of functional/_norm.py, _indicator.py, _dist.py, _functional.py, _tvnorm.py, _proxavg.py, _denoiser.py and
               loss.py with its bases and its class-level `has_eval` / `has_prox` ("unset" when the constructor decides);
* defaults   : default arguments of every `__init__` and `prox` of those classes, the `default_prox_kwargs` literal of
               `SquaredL2Loss.__init__`, the defaults of `solver.cg`, the threshold literal of `loss._dep_cubic_root`, `_check_root(tol=)`;
* dispatch   : per (class, method) of loss.py the `if`/`elif` tests and the exception classes raised, in source order (the
               isinstance dispatch of `SquaredL2Loss.prox`, the constructor guards on `W`, `A`, `y`, `f`);
* bases      : the subclass chain `Identity < ScaledIdentity < Diagonal < LinearOperator` the dispatch relies on.
"""

from __future__ import annotations

import ast
import os
from pathlib import Path

import common

OUT = common.LEAN_DIR / "Scico" / "Generated" / "ProxTables.lean"

FUNCTIONAL_FILES = ["_norm.py", "_indicator.py", "_dist.py", "_functional.py", "_tvnorm.py", "_proxavg.py", "_denoiser.py"]


def _repo():
    return Path(os.environ.get("SCICO_REPO", "/repo"))


def _parse(rel):
    p = _repo() / rel
    return ast.parse(p.read_text(), filename=str(p))


def _classes(tree):
    return [n for n in tree.body if isinstance(n, ast.ClassDef)]


def _flag(cls, name):
    for st in cls.body:
        tgt, val = None, None
        if isinstance(st, ast.Assign) and len(st.targets) == 1 and isinstance(st.targets[0], ast.Name):
            tgt, val = st.targets[0].id, st.value
        elif isinstance(st, ast.AnnAssign) and isinstance(st.target, ast.Name):
            tgt, val = st.target.id, st.value
        if tgt == name:
            return ast.unparse(val) if val is not None else "unset"
    return "unset"


def _method(cls, name):
    for st in cls.body:
        if isinstance(st, ast.FunctionDef) and st.name == name:
            return st
    return None


def _defaults(fn):
    """[(param, default text)] of the parameters that have a default"""
    a = fn.args
    out = []
    pos = a.posonlyargs + a.args
    for p, d in zip(pos[len(pos) - len(a.defaults):], a.defaults):
        out.append((p.arg, ast.unparse(d)))
    for p, d in zip(a.kwonlyargs, a.kw_defaults):
        if d is not None:
            out.append((p.arg, ast.unparse(d)))
    return out


def _dispatch(fn):
    """`if`/`elif` tests and raised exception classes of a function body, in source order (nested functions excluded)"""
    out = []

    def walk(stmts):
        for st in stmts:
            if isinstance(st, (ast.FunctionDef, ast.ClassDef, ast.Lambda)):
                continue
            if isinstance(st, ast.If):
                out.append("if " + ast.unparse(st.test))
                walk(st.body)
                if st.orelse:
                    if not (len(st.orelse) == 1 and isinstance(st.orelse[0], ast.If)):
                        out.append("else")
                    walk(st.orelse)
            elif isinstance(st, ast.Raise):
                exc = st.exc
                name = ast.unparse(exc.func) if isinstance(exc, ast.Call) else (ast.unparse(exc) if exc is not None else "reraise")
                out.append("raise " + name)
            elif isinstance(st, ast.Assert):
                out.append("assert " + ast.unparse(st.test))
            elif isinstance(st, (ast.For, ast.While, ast.With, ast.Try)):
                walk(getattr(st, "body", []))
                walk(getattr(st, "orelse", []))
                for h in getattr(st, "handlers", []):
                    walk(h.body)
                walk(getattr(st, "finalbody", []))
            elif isinstance(st, ast.Assign) and any(ast.unparse(t) == "self.has_prox" or ast.unparse(t) == "self.has_eval" for t in st.targets):
                out.append(ast.unparse(st.targets[0]) + " = " + ast.unparse(st.value))

    walk(fn.body)
    return out


def extract():
    flags, defaults, dispatch, bases = [], [], [], []
    files = [("scico/functional/" + f, f) for f in FUNCTIONAL_FILES] + [("scico/loss.py", "loss.py")]
    for rel, short in files:
        tree = _parse(rel)
        for c in _classes(tree):
            flags.append((short, c.name, ",".join(ast.unparse(b) for b in c.bases), _flag(c, "has_eval"), _flag(c, "has_prox")))
            for mname in ("__init__", "prox"):
                fn = _method(c, mname)
                if fn is not None:
                    for p, d in _defaults(fn):
                        defaults.append((f"{c.name}.{mname}", p, d))
            if short == "loss.py":
                for mname in ("__init__", "prox", "__call__"):
                    fn = _method(c, mname)
                    if fn is not None:
                        dispatch.append((c.name, mname, _dispatch(fn)))
    # literals of loss.py
    loss = _parse("scico/loss.py")
    for node in ast.walk(loss):
        if isinstance(node, ast.FunctionDef) and node.name == "__init__":
            for st in ast.walk(node):
                if isinstance(st, ast.Assign) and len(st.targets) == 1 and ast.unparse(st.targets[0]) == "default_prox_kwargs" and isinstance(st.value, ast.Dict):
                    for k, v in zip(st.value.keys, st.value.values):
                        defaults.append(("SquaredL2Loss.default_prox_kwargs", ast.literal_eval(k), ast.unparse(v)))
        if isinstance(node, ast.FunctionDef) and node.name == "_dep_cubic_root":
            for cmp_ in ast.walk(node):
                if isinstance(cmp_, ast.Compare) and "abs(p)" in ast.unparse(cmp_.left) and len(cmp_.ops) == 1:
                    defaults.append(("_dep_cubic_root", "band " + type(cmp_.ops[0]).__name__, ast.unparse(cmp_.comparators[0])))
        if isinstance(node, ast.FunctionDef) and node.name in ("_check_root", "_cbrt"):
            for p, d in _defaults(node):
                defaults.append((node.name, p, d))
    solver = _parse("scico/solver.py")
    for node in solver.body:
        if isinstance(node, ast.FunctionDef) and node.name == "cg":
            for p, d in _defaults(node):
                defaults.append(("solver.cg", p, d))
    diag = _parse("scico/linop/_diag.py")
    for c in _classes(diag):
        if c.name in ("Diagonal", "ScaledIdentity", "Identity"):
            bases.append((c.name, ",".join(ast.unparse(b) for b in c.bases)))
    # transcribed helpers: the return expression of `numpy/util.py::no_nan_divide` (model `noNanDiv`: EXACT-zero test of the denominator)
    helpers = []
    util = _parse("scico/numpy/util.py")
    for node in util.body:
        if isinstance(node, ast.FunctionDef) and node.name == "no_nan_divide":
            body = [st for st in node.body if not (isinstance(st, ast.Expr) and isinstance(st.value, ast.Constant))]
            helpers.append(("no_nan_divide", " ; ".join(ast.unparse(st) for st in body)))
    return {"flags": flags, "defaults": defaults, "dispatch": dispatch, "bases": bases, "helpers": helpers}


def _s(x):
    return '"' + str(x).replace("\\", "\\\\").replace('"', '\\"') + '"'


def _tuple(t):
    return "(" + ", ".join(_s(x) if not isinstance(x, list) else "[" + ", ".join(_s(y) for y in x) + "]" for x in t) + ")"


def _list(rows, indent="  "):
    if not rows:
        return "[]"
    return "[\n" + ",\n".join(indent + _tuple(r) for r in rows) + "]"


def render(t):
    return f"""/- GENERATED by harness/prox_translate.py from scico/functional/*.py, scico/loss.py, scico/solver.py, scico/linop/_diag.py (ast)
   — rewritten on every run, do not edit. -/
import Scico.Proofs.ProxTables

namespace Scico.Generated.ProxTables
open Scico.ProxTables

/-- (file, class, bases, class-level has_eval, class-level has_prox) -/
def flags : List (String × String × String × String × String) := {_list(t['flags'])}

/-- (callable, parameter, default as written) -/
def defaults : List (String × String × String) := {_list(t['defaults'])}

/-- (class of loss.py, method, `if` tests / raises / flag assignments in source order) -/
def dispatch : List (String × String × List String) := {_list(t['dispatch'])}

/-- (class of linop/_diag.py, bases) -/
def bases : List (String × String) := {_list(t['bases'])}

/-- (helper, statements of its body) -/
def helpers : List (String × String) := {_list(t['helpers'])}

/-- `no_nan_divide` is the transcribed one: `where(y != 0, x / where(y != 0, y, 1), 0)` — an EXACT-zero test (model `noNanDiv`) -/
theorem helpers_ok : checkHelpers helpers = true := by decide

/-- the classes and their advertised flags are the ones the model knows: every class that advertises a prox is either modelled
    (C02 theorem) or on the list of documented approximations / wrappers of other engines -/
theorem flags_ok : checkFlags flags = true := by decide

/-- every default argument the model / the tie relies on has the value recorded in `expectedDefaults` -/
theorem defaults_ok : checkDefaults defaults = true := by decide

/-- constructor guards and the `isinstance` dispatch of the losses are the modelled ones (`Guard`, `sqL2LossGuard`, `absLossGuard`) -/
theorem dispatch_ok : checkDispatch dispatch = true := by decide

/-- `Identity < ScaledIdentity < Diagonal < LinearOperator`: an `Identity` takes the `Diagonal` branch of `SquaredL2Loss.prox` -/
theorem bases_ok : checkBases bases = true := by decide

end Scico.Generated.ProxTables
"""


def generate():
    t = extract()
    OUT.parent.mkdir(parents=True, exist_ok=True)
    new = render(t)
    if not OUT.exists() or OUT.read_text() != new:
        OUT.write_text(new)
    return t


if __name__ == "__main__":
    import json

    print(json.dumps(generate(), indent=1))
