"""Fresh-process reference stream of C19 (engine Cache) and the audit of module-level state.

Why: the multi-mode runner of harness/c19.py compares every mode / history with the value of a fresh OBJECT in the
same process.  State that lives outside the objects - a module-level dict, a class attribute, a function attribute, an
lru_cache - is shared by the "fresh" object and the used one, so a process-global first-call-wins memo makes all modes
agree with each other (round-1 gap).  Two independent views close it:

  * `run_requests` (this file executed as a script, in a NEW interpreter): for each requested catalogue entry the
    history stream is run on a THROW-AWAY object first (other shapes / dtypes / parameters), then the probe call is
    evaluated on a NEW object.  Per-object state cannot explain a difference from the main process' fresh-eager value
    (the probed object is new in both); the two processes differ exactly in what was called first / before.
  * `module_state()` : a by-value picture of every mutable container reachable from the scico modules (module globals,
    class attributes, function attributes, default arguments, closure cells, lru_cache sizes).  Compared before / after
    the whole check: code under C19 has no business leaving anything there.

Protocol of the script: stdin = one JSON object {"seed", "thorough", "requests": [[entry, call], ...]};
stdout = one JSON line {"results": [{"entry", "call", "ok": [[dtype, shape, hex]...]} | {"entry","call","err": kind}]}.
"""

from __future__ import annotations

import json
import os
import subprocess
import sys
from pathlib import Path

import numpy as np

HERE = Path(__file__).resolve().parent


def catalog_rng(seed):
    """the generator the catalogue arguments are drawn from - a function of VERIF_SEED only, so that a second
    process rebuilds bit-identical arguments"""
    return np.random.Generator(np.random.PCG64([int(seed), 1919]))


def build_catalog(seed, thorough):
    import cache_catalog as cc

    rng = catalog_rng(seed)
    dts = [np.float64, np.float32, np.complex64] if thorough else [np.float64, np.float32]
    ents = []
    ents += cc.functional_entries(rng, dts + ([np.complex64] if not thorough else []))
    ents += cc.loss_entries(rng, dts)
    ents += cc.operator_entries(rng, dts + ([np.complex64] if not thorough else []), heavy=True)
    ents += cc.optimiser_entries(rng, heavy=thorough)
    return ents


def build_catalog_single(seed):
    """the single-precision part of the catalogue only (float32 / complex64), for the default-precision worker: built identically in
    a process with and without jax_enable_x64 (the arguments are numpy float32 / complex64 arrays before they reach jax)"""
    import cache_catalog as cc

    rng = np.random.Generator(np.random.PCG64([int(seed), 3232]))
    dts = [np.float32, np.complex64]
    return cc.functional_entries(rng, dts) + cc.loss_entries(rng, dts) + cc.operator_entries(rng, dts, heavy=True)


def encode(canon):
    return [[str(a.dtype), list(a.shape), np.ascontiguousarray(a).tobytes().hex()] for a in canon]


def decode(enc):
    return [np.frombuffer(bytes.fromhex(h), dtype=np.dtype(dt)).reshape(shape) for dt, shape, h in enc]


def run_requests(seed, thorough, requests):
    """executed in the fresh interpreter"""
    sys.path.insert(0, str(HERE))
    import common

    common.setup_scico()
    import cache_catalog as cc

    ents = {e.name: e for e in build_catalog(seed, thorough)}
    out = []
    for ename, cname in requests:
        e = ents.get(ename)
        call = None if e is None else next((c for c in e.calls if c[0] == cname), None)
        if call is None:
            out.append({"entry": ename, "call": cname, "missing": True})
            continue
        _, getf, args = call
        try:
            if e.hist is not None:
                e.hist(e.build(None))  # history on a throw-away object of the same kind, BEFORE the first probe
        except Exception:  # noqa: BLE001  (history calls may be rejected; they are not the subject)
            pass
        try:
            r = getf(e.build(None))(*args)
            out.append({"entry": ename, "call": cname, "ok": encode(cc.canon(r))})
        except Exception as ex:  # noqa: BLE001
            out.append({"entry": ename, "call": cname, "err": common.err_kind(ex) + ":" + type(ex).__name__})
    return out


def spawn_async(seed, thorough, requests):
    """main-process side: start the evaluation of `requests` in a new interpreter (returns the handle)"""
    import common

    env = dict(os.environ)
    env["SCICO_REPO"] = str(common.REPO)
    env.setdefault("JAX_PLATFORMS", "cpu")
    env["PYTHONDONTWRITEBYTECODE"] = "1"
    p = subprocess.Popen([sys.executable, str(HERE / "cache_fresh.py")], stdin=subprocess.PIPE, stdout=subprocess.PIPE,
                         stderr=subprocess.PIPE, text=True, env=env)
    p.stdin.write(json.dumps({"seed": seed, "thorough": thorough, "requests": requests}))
    p.stdin.close()
    p.stdin = None  # so that communicate() does not touch the closed pipe
    return p


def collect(p, timeout=1500):
    """wait for a handle of `spawn_async`; returns the list of results"""
    import common

    try:
        out, err = p.communicate(timeout=timeout)
        rc = p.returncode
    except subprocess.TimeoutExpired:
        p.kill()
        raise common.Infra("fresh-process reference timed out")
    if rc != 0:
        raise common.Infra("fresh-process reference failed: " + err[-800:])
    line = next((ln for ln in reversed(out.splitlines()) if ln.startswith("{\"results\"")), None)
    if line is None:
        raise common.Infra("fresh-process reference printed no result: " + out[-400:] + err[-400:])
    return json.loads(line)["results"]


# ----------------------------------------------------------------------------------------------
# module-level state


def _val(v, depth=3):
    """by-value picture of a container (arrays by bytes, objects by type name)"""
    if isinstance(v, (float, complex)) and not isinstance(v, bool):
        return ("num", repr(v))  # NaN does not compare equal to itself
    if v is None or isinstance(v, (bool, int, str, bytes)):
        return v
    if isinstance(v, np.ndarray) or str(getattr(type(v), "__module__", "")).startswith(("jax", "jaxlib")) and hasattr(v, "shape") and hasattr(v, "dtype"):
        try:
            a = np.asarray(v)
            return ("array", str(a.dtype), a.shape, a.tobytes())
        except Exception:  # noqa: BLE001  (tracers)
            return ("array?", type(v).__name__)
    if depth <= 0:
        return ("...", type(v).__name__)
    if isinstance(v, dict):
        return ("dict", tuple(sorted(((repr(k)[:80], _val(x, depth - 1)) for k, x in v.items()), key=lambda t: t[0])))
    if isinstance(v, (list, tuple, set, frozenset)):
        items = [_val(x, depth - 1) for x in v]
        if isinstance(v, (set, frozenset)):
            items = sorted(items, key=repr)
        return (type(v).__name__, tuple(items))
    return ("obj", type(v).__name__)


def _is_data(v):
    """plain data a module / class can hold as state: containers, scalars, None, arrays"""
    if v is None or isinstance(v, (bool, int, float, complex, str, bytes, dict, list, set, bytearray, tuple, np.ndarray)):
        return True
    try:
        return str(getattr(type(v), "__module__", "")).startswith(("jax", "jaxlib")) and hasattr(v, "shape") and hasattr(v, "dtype") and not callable(v)
    except Exception:  # noqa: BLE001  (lazy module proxies)
        return False


def _containers_of_function(f, out, where):
    import functools  # noqa: F401

    d = getattr(f, "__dict__", None)
    if d:
        for k, v in d.items():
            if k in ("__wrapped__",):
                continue
            if isinstance(v, (dict, list, set, bytearray)):
                out[f"{where}.<attr {k}>"] = _val(v)
    for nm in ("__defaults__", "__kwdefaults__"):
        dv = getattr(f, nm, None)
        if dv:
            vals = dv.values() if isinstance(dv, dict) else dv
            for i, v in enumerate(vals):
                if isinstance(v, (dict, list, set)):
                    out[f"{where}.<{nm}[{i}]>"] = _val(v)
    cl = getattr(f, "__closure__", None)
    if cl:
        for i, c in enumerate(cl):
            try:
                v = c.cell_contents
            except ValueError:
                continue
            if isinstance(v, (dict, list, set)):
                out[f"{where}.<closure[{i}]>"] = _val(v)
    ci = getattr(f, "cache_info", None)
    if callable(ci):
        try:
            out[f"{where}.<lru_cache size>"] = int(ci().currsize)
        except Exception:  # noqa: BLE001
            pass


def module_state(prefix="scico"):
    """{location: by-value picture} of every mutable container reachable from the loaded scico modules"""
    import inspect

    out = {}
    for mname, mod in sorted(sys.modules.items()):
        if mod is None or not (mname == prefix or mname.startswith(prefix + ".")):
            continue
        for k, v in list(vars(mod).items()):
            if k.startswith("__"):
                continue
            where = f"{mname}.{k}"
            if _is_data(v):
                out[where] = _val(v)
            elif inspect.isfunction(v) or hasattr(v, "cache_info"):
                if getattr(v, "__module__", mname) == mname:
                    _containers_of_function(v, out, where)
            elif inspect.isclass(v) and getattr(v, "__module__", None) == mname:
                for ck, cv in list(vars(v).items()):
                    if ck.startswith("__") and ck not in ("__init__", "__call__"):
                        continue
                    cw = f"{where}.{ck}"
                    if _is_data(cv):
                        out[cw] = _val(cv)
                    else:
                        fn = cv.__func__ if isinstance(cv, (staticmethod, classmethod)) else cv
                        if inspect.isfunction(fn) or hasattr(fn, "cache_info"):
                            _containers_of_function(fn, out, cw)
                        elif isinstance(cv, property):
                            for acc in (cv.fget, cv.fset):
                                if acc is not None:
                                    _containers_of_function(acc, out, cw)
    return out


def state_diff(before, after):
    """locations present in both pictures whose value changed (modules imported later are not a change)"""
    return sorted(k for k in before if k in after and before[k] != after[k])


if __name__ == "__main__":
    req = json.loads(sys.stdin.read())
    res = run_requests(req["seed"], req["thorough"], [tuple(r) for r in req["requests"]])
    sys.stdout.write("\n" + json.dumps({"results": res}) + "\n")
