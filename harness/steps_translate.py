"""Translator of the Steps engine (C11 / C03, DESIGN §6.3): what `lean/Scico/Model/Steps.lean` copies from the optimiser sources
-> lean/Scico/Generated/StepsTables.lean.  Reads with `ast` only (nothing is imported or executed).

* `ctors`       : every optimiser class with its base class and the parameters of `__init__` with their defaults (as source text;
                  `<required>` when there is none) - alpha = 1.0, B = None, c = None, x0 / z0 / u0 = None, fast_dual_residual = True, ...
* `skeletons`   : normalised statement lists (nesting depth, text) of every method the model transcribes: `__init__`, `step`,
                  `objective`, `norm_primal_residual`, `norm_dual_residual`, `norm_residual`, `z_init`, `u_init`, `minimizer`,
                  `f_quad_approx`, `_working_vars_finite`, `_objective_evaluatable`, `_itstat_extra_fields`, plus
                  `Functional.conj_prox` (PDHG's dual step) and `LinearSubproblemSolver.compute_rhs` (the x-update right-hand side)
* `assigns`     : the attributes of `self` assigned by `step` / `__init__` of every class, in source order (the state fields the
                  model's step functions update, and the order in which `*_old` copies are taken)
* `solvers`     : the sub-problem solver classes of `_admmaux.py`: base class, whether `internal_init` reduces over `C_list`
                  (`solverReduces` of `admmInitFull`), constructor defaults
* `constraints` : the display-math blocks of each class docstring that state a parameter constraint (contain an inequality or
                  `\\in`), whitespace-normalised - the hypotheses of the C03 theorems are transcriptions of exactly these.

The generated module states `ctors = Scico.Steps.Source.ctors`, `skeletons = …`, `constraints = …`, `assigns = …`, `solvers = …` (tables of
`lean/Scico/Model/StepsSource.lean`), closed by `decide`.  `python3 harness/steps_translate.py --model` prints the tables in the
form the model file holds them.
"""

from __future__ import annotations

import ast
import re
from pathlib import Path

import common
from stepsize_translate import find_function, lean_str, skeleton

OUT = common.LEAN_DIR / "Scico" / "Generated" / "StepsTables.lean"

F_ADMM, F_LADMM, F_PADMM, F_PD, F_PGM = ("scico/optimize/_admm.py", "scico/optimize/_ladmm.py", "scico/optimize/_padmm.py",
                                         "scico/optimize/_primaldual.py", "scico/optimize/_pgm.py")
F_FUNC, F_AUX = "scico/functional/_functional.py", "scico/optimize/_admmaux.py"

CLASSES = [(F_ADMM, "ADMM"), (F_LADMM, "LinearizedADMM"), (F_PADMM, "ProximalADMMBase"), (F_PADMM, "ProximalADMM"),
           (F_PADMM, "NonLinearPADMM"), (F_PD, "PDHG"), (F_PGM, "PGM"), (F_PGM, "AcceleratedPGM")]

METHODS = ["__init__", "_working_vars_finite", "_objective_evaluatable", "_itstat_extra_fields", "minimizer", "objective",
           "f_quad_approx", "norm_primal_residual", "norm_dual_residual", "norm_residual", "z_init", "u_init", "step"]

EXTRA = [("Functional.conj_prox", F_FUNC, "Functional", "conj_prox"),
         ("LinearSubproblemSolver.compute_rhs", F_AUX, "LinearSubproblemSolver", "compute_rhs"),
         ("LinearSubproblemSolver.solve", F_AUX, "LinearSubproblemSolver", "solve"),
         ("LinearSubproblemSolver.internal_init", F_AUX, "LinearSubproblemSolver", "internal_init"),
         ("GenericSubproblemSolver.solve", F_AUX, "GenericSubproblemSolver", "solve"),
         ("MatrixSubproblemSolver.solve", F_AUX, "MatrixSubproblemSolver", "solve"),
         ("CircularConvolveSolver.solve", F_AUX, "CircularConvolveSolver", "solve"),
         ("FBlockCircularConvolveSolver.solve", F_AUX, "FBlockCircularConvolveSolver", "solve"),
         ("G0BlockCircularConvolveSolver.compute_rhs", F_AUX, "G0BlockCircularConvolveSolver", "compute_rhs"),
         ("G0BlockCircularConvolveSolver.solve", F_AUX, "G0BlockCircularConvolveSolver", "solve")]


def signature(fn):
    """parameters of a function (without self / **kwargs) with their defaults as source text"""
    args = fn.args
    names = [a.arg for a in args.args]
    defaults = [None] * (len(names) - len(args.defaults)) + list(args.defaults)
    out = []
    for nm, d in zip(names, defaults):
        if nm == "self":
            continue
        out.append((nm, "<required>" if d is None else ast.unparse(d)))
    for a, d in zip(args.kwonlyargs, args.kw_defaults):
        out.append((a.arg, "<required>" if d is None else ast.unparse(d)))
    return out


def assigned_attrs(fn):
    """attributes of `self` assigned by a method, in source order (targets `self.a`, `self.a[i]`, tuple targets flattened)"""
    out = []

    def tgt(t):
        if isinstance(t, (ast.Tuple, ast.List)):
            for e in t.elts:
                tgt(e)
        else:
            txt = ast.unparse(t)
            if txt.startswith("self."):
                out.append(txt[5:])

    class V(ast.NodeVisitor):
        def visit_Assign(self, node):
            for t in node.targets:
                tgt(t)

        def visit_AnnAssign(self, node):
            if node.value is not None:
                tgt(node.target)

        def visit_AugAssign(self, node):
            tgt(node.target)

        def visit_FunctionDef(self, node):  # nested helper definitions assign nothing on self at call time of the method
            if node is fn:
                self.generic_visit(node)

    V().visit(fn)
    return out


def math_constraints(doc):
    """display-math blocks of a docstring that state a constraint"""
    if not doc:
        return []
    out = []
    for blk in re.split(r"\.\. math::", doc)[1:]:
        lines = blk.split("\n")
        body = []
        for ln in lines[1:] if lines and lines[0].strip() == "" else lines:
            if ln.strip() == "" and body:
                break
            if ln.startswith("    ") or ln.startswith("\t") or not body:
                if ln.strip():
                    body.append(ln.strip())
            else:
                break
        txt = " ".join(" ".join(body).split())
        if re.search(r"(?<![=\\])[<>](?!=)|\\geq|\\leq|\\in\b|\\le\b|\\ge\b", txt) and "argmin" not in txt and "begin{aligned}" not in txt:
            out.append(txt)
    # inline constraints such as :math:`\alpha \in [0, 1]`
    for m in re.finditer(r":math:`([^`]*\\in\s*[\[(][^`]*)`", doc):
        out.append(" ".join(m.group(1).split()))
    return out


def read_tables(repo: Path | None = None):
    repo = Path(repo) if repo else common.REPO
    trees = {}

    def tree(p):
        if p not in trees:
            trees[p] = ast.parse((repo / p).read_text())
        return trees[p]

    out = {"ctors": [], "skeletons": [], "constraints": [], "assigns": []}
    for path, cname in CLASSES:
        cls = [n for n in tree(path).body if isinstance(n, ast.ClassDef) and n.name == cname]
        if not cls:
            raise common.Infra(f"steps_translate: class {cname} not found in {path}")
        c = cls[0]
        bases = [ast.unparse(b) for b in c.bases]
        init = find_function(tree(path), cname, "__init__")
        out["ctors"].append((cname, ",".join(bases), signature(init) if init is not None else []))
        for m in METHODS:
            fn = find_function(tree(path), cname, m)
            if fn is not None:
                out["skeletons"].append((f"{cname}.{m}", skeleton(fn.body)))
                if m in ("step", "__init__"):
                    out["assigns"].append((f"{cname}.{m}", assigned_attrs(fn)))
        out["constraints"].append((cname, math_constraints(ast.get_docstring(c, clean=False))))
    # sub-problem solver classes of _admmaux.py: base class, constructor defaults, and whether `internal_init` (own or inherited
    # through super().internal_init) reduces over C_list - the `solverReduces` flag of `admmInitFull` (N = 0 is a TypeError there)
    aux = tree(F_AUX)
    solvers = {}
    for n in aux.body:
        if isinstance(n, ast.ClassDef) and n.name.endswith(("Solver",)) and ("SubproblemSolver" in n.name or any("Solver" in ast.unparse(b) for b in n.bases)):
            ii = find_function(aux, n.name, "internal_init")
            own = False
            sup = False
            if ii is not None:
                for c in ast.walk(ii):
                    if isinstance(c, ast.Call):
                        fn_txt = ast.unparse(c.func)
                        if fn_txt == "reduce":
                            own = True
                        if fn_txt == "super().internal_init":
                            sup = True
            else:
                sup = True
            init = find_function(aux, n.name, "__init__")
            solvers[n.name] = (",".join(ast.unparse(b) for b in n.bases), own, sup, signature(init) if init is not None else [])
    def reduces(name, fuel=8):
        if name not in solvers or fuel == 0:
            return False
        base, own, sup, _ = solvers[name]
        return own or (sup and reduces(base, fuel - 1))
    out["solvers"] = [(k, v[0], reduces(k), v[3]) for k, v in solvers.items()]
    for key, path, cname, m in EXTRA:
        fn = find_function(tree(path), cname, m)
        if fn is None:
            raise common.Infra(f"steps_translate: {key} not found")
        out["skeletons"].append((key, skeleton(fn.body)))
    return out


def _tables(t, ns_model=False):
    L = []
    L.append("def ctors : List (String × String × List (String × String)) := [")
    L.append(",\n".join(
        f"  ({lean_str(c)}, {lean_str(b)}, [" + ", ".join(f"({lean_str(n)}, {lean_str(d)})" for n, d in sig) + "])"
        for c, b, sig in t["ctors"]) + "]")
    L.append("")
    L.append("def skeletons : List (String × List (Nat × String)) := [")
    rows = []
    for key, sk in t["skeletons"]:
        if sk:
            rows.append(f"  ({lean_str(key)}, [\n" + ",\n".join(f"    ({d}, {lean_str(s)})" for d, s in sk) + "])")
        else:
            rows.append(f"  ({lean_str(key)}, [])")
    L.append(",\n".join(rows) + "]")
    L.append("")
    L.append("def assigns : List (String × List String) := [")
    L.append(",\n".join(f"  ({lean_str(k)}, [" + ", ".join(lean_str(x) for x in a) + "])" for k, a in t["assigns"]) + "]")
    L.append("")
    L.append("def solvers : List (String × String × Bool × List (String × String)) := [")
    L.append(",\n".join(
        f"  ({lean_str(k)}, {lean_str(b)}, {'true' if r else 'false'}, [" + ", ".join(f"({lean_str(n)}, {lean_str(d)})" for n, d in sig) + "])"
        for k, b, r, sig in t["solvers"]) + "]")
    L.append("")
    L.append("def constraints : List (String × List String) := [")
    L.append(",\n".join(f"  ({lean_str(c)}, [" + ", ".join(lean_str(x) for x in cs) + "])" for c, cs in t["constraints"]) + "]")
    return "\n".join(L)


def render(t):
    return (
        "/- GENERATED by harness/steps_translate.py from scico/optimize/{_admm,_ladmm,_padmm,_primaldual,_pgm,_admmaux}.py and\n"
        "   scico/functional/_functional.py — rewritten on every run, do not edit. -/\n"
        "import Scico.Model.StepsSource\n\n"
        "namespace Scico.Generated.StepsTables\n\n"
        + _tables(t)
        + "\n\ntheorem ctors_ok : ctors = Scico.Steps.Source.ctors := by decide +kernel\n"
        "theorem skeletons_ok : skeletons = Scico.Steps.Source.skeletons := by decide +kernel\n"
        "theorem constraints_ok : constraints = Scico.Steps.Source.constraints := by decide +kernel\n"
        "theorem assigns_ok : assigns = Scico.Steps.Source.assigns := by decide +kernel\n"
        "theorem solvers_ok : solvers = Scico.Steps.Source.solvers := by decide +kernel\n\n"
        "end Scico.Generated.StepsTables\n"
    )


def render_model(t):
    return _tables(t)


def generate(repo: Path | None = None):
    try:
        t = read_tables(repo)
        txt = render(t)
    except (common.Infra, SyntaxError, OSError, AttributeError) as e:
        # untranslatable source (class / file missing, not parseable): a stub obligation that cannot be discharged, so that the
        # runner reports "generated obligation no longer checks" (and searches for a failing input) instead of an infrastructure error
        t = None
        why = " ".join(str(e).split()).replace("-/", "- /")[:300]
        txt = ("import Scico.Model.StepsSource\n\n/-! GENERATED by harness/steps_translate.py - the source could not be translated: "
               + why + " -/\n\nnamespace Scico.Generated.StepsTables\n\n"
               "theorem source_translatable : (false : Bool) = true := by decide\n\nend Scico.Generated.StepsTables\n")
    OUT.parent.mkdir(parents=True, exist_ok=True)
    if not OUT.exists() or OUT.read_text() != txt:
        # atomic replacement: C11 and C03 may run side by side and a concurrent `lake build` must never see a partial file
        import os

        tmp = OUT.with_name(OUT.name + f".{os.getpid()}.tmp")
        tmp.write_text(txt)
        os.replace(tmp, OUT)
    return t


PINNED = Path(__file__).with_name("steps_pinned.json")


def rows(t):
    """the tables as one flat dict `table:row-name -> value` (JSON-normalised)"""
    import json

    out = {}
    for table, items in t.items():
        for it in items:
            out[f"{table}:{it[0]}"] = json.loads(json.dumps(it[1:]))
    return out


def write_pinned():
    """python-readable copy of the pinned tables (same content as Model/StepsSource.lean; refresh both together from a clean HEAD)"""
    import json

    PINNED.write_text(json.dumps(rows(read_tables()), indent=0, sort_keys=True))


def diff_rows(repo: Path | None = None):
    """names of the table rows in which the working tree differs from the pinned copy - used to aim the failing-input search at
    the function whose transcription went stale"""
    import json

    try:
        cur = rows(read_tables(repo))
    except Exception:  # noqa: BLE001
        return ["untranslatable"]
    pinned = json.loads(PINNED.read_text())
    return sorted(k for k in set(cur) | set(pinned) if cur.get(k) != pinned.get(k))


if __name__ == "__main__":
    import sys

    if "--pin" in sys.argv:
        write_pinned()
    elif "--model" in sys.argv:
        print(render_model(read_tables()))
    else:
        import json

        print(json.dumps(read_tables(), indent=1, default=str))
