"""C10 - every ADMM x-update solver returns the sub-problem minimiser (engine LinSolve).

Random ADMM states (f = None / weighted squared-l2 loss with scale != 1/2, several C_i, arbitrary z, u, rho, real and
complex) are built with scico's own classes for every solver of scico/optimize/_admmaux.py.  Compared with the Lean
model: the operator and right-hand side LinearSubproblemSolver hands to cg, the arguments MatrixSubproblemSolver hands
to MatrixATADSolver (and the solution of that solver), the DFT-domain divisor of CircularConvolveSolver, the rescaled
systems of the two block-circulant solvers, the objective of GenericSubproblemSolver.  Oracle: residual of the
*documented* normal equations at the x each real solver returns, agreement of all applicable solvers, reported accuracy.
"""

from __future__ import annotations

import json
import os

import numpy as np

import common
import linsolve_util as lu
from common import ModelErr, b2f, f2b
from linsolve_util import dec, enc, tolist, vclose

PROP = "C10"
CLAIMED = True
ENGINE = "LinSolve"
DESIGN_REF = "DESIGN.md §5.4"
TECHNIQUE = (
    "Lean 4 proofs (quadratic expansion in an arbitrary real/complex inner-product space; list induction for the assembled "
    "operators; field algebra for the rescalings, with a machine-checked counterexample for the G0 solver) + correspondence of "
    "the assembled systems with the real solver objects on random ADMM states"
)
LEVEL_TEXT = (
    "Lean theorems: x solves (2a A^H W A + sum rho_i C_i^H C_i) x = 2a A^H W y + sum rho_i C_i^H (z_i-u_i) iff it minimises the "
    "x-step objective (W >= 0, a >= 0, rho_i >= 0, real or complex, any number of C_i with different codomains); the operator / "
    "right-hand side / factorisation arguments / DFT divisor assembled by Linear-, Matrix-, CircularConvolve-solver are that system for "
    "every scale, weighting, list of C_i and state (z,u); FBlock's division by 2a is an equivalence exactly for unweighted losses; "
    "G0's system carries 2*omega*rho_1 on the first term: equivalent iff (2 omega - 1) rho_1 C_1^H(C_1 x - v_1) = 0 (proved), "
    "counterexample for omega = 2 (proved).  Round 2: uniqueness of the solution of the normal equations when some C_i is injective "
    "with rho_i > 0 (all exact solvers return the same x); the objective GenericSubproblemSolver hands to scipy is the x-step objective, "
    "its exact minimisers are the solutions of the normal equations; rel_res is invariant under the scaling by 1/(2a) resp. 1/(2 omega rho_1) "
    "used by the block-circulant solvers.  Back ends (scico cg, jax cg, factorisation/Woodbury, Sherman-Morrison) are covered by C14."
)
LEVEL_NOTE = (
    "Trusted: Lean kernel + Mathlib axioms; operator arithmetic of scico.linop (rho*C.gram_op, sums: property C05), adjoints (C01), "
    "CircularConvolve.from_operator / fftn as the diagonalisation of shift-invariant operators (contract, exercised by the spatial-domain "
    "oracle); scipy's minimiser behind GenericSubproblemSolver (only its objective is tied; C18); rounding not modelled."
)
PROP_MODULES = ["Scico.Props.C10"]
EXTRA_TARGETS = ["Drv.LinSolve"]
DRIVER = "LinSolve"
FILES = ["scico/optimize/_admmaux.py", "scico/solver.py", "scico/loss.py", "scico/linop/_circconv.py"]
RULE = (
    "streams kwhist (constructions of LinearSubproblemSolver objects with various cg_kwargs before/after the probed default one), reuse (one "
    "solver instance attached to two ADMM objects with different data, all 7 solver classes), "
    "dense (Linear/scico-cg, Linear/jax-cg, Matrix, Generic on the same problem), history (the same, on a loss that was "
    "used - Hessian, prox, an ADMM built on it - and then rescaled by c*L, L*c, L/c, set_scale, twice), circ, fblock, g0: random sizes (n<=5, "
    "K<=3, N<=6), real/complex, f none/Matrix/Diagonal/CircularConvolve/Identity forward operator, scale in {0.25,0.5,1,2}, weights "
    "none/positive/with zeros, 1-3 C_i (Identity, Diagonal, MatrixOperator, CircularConvolve, circular FiniteDifference), rho dyadic>0, "
    "random z,u,x0; the first cases of every stream are drawn until they match a list of required configurations (STRATA: complex + "
    "mixed Diagonal/Matrix C_i, weighted wide A on the Woodbury path, f=None + matrix C_i, G0 with three different rho, ...); "
    "a case is non-trivial when the normal-equation matrix is not a multiple of the identity; distinct by full input."
)
ASSUMPTIONS = [
    "scico.linop operator arithmetic (scalar * gram_op, +) denotes the pointwise construction (property C05) and .adj is the adjoint (C01)",
    "CircularConvolve.from_operator(G).h_dft is the transfer function of a shift-invariant G and fftn diagonalises it (contract; "
    "the spatial-domain residual oracle exercises it on every case)",
    "the back ends (scico cg, jax cg, MatrixATADSolver, ConvATADSolver) meet their own contracts (property C14)",
]

_S = {}
_TAB = {}


def generate(ctx):
    """round 4: the data the model copies from the source are re-read by `ast` into Scico/Generated/LinSolveTables.lean on every run"""
    import linsolve_translate

    t = linsolve_translate.generate()
    ctx.extra["source_tables"] = {"defaults": {n: dict(d) for n, d in t["defaults"]}, "kwdicts": {c: dict(d) for c, _, d in t["kwdicts"]},
                                  "checks": {c: len(cs) for c, cs in t["checks"]}, "woodbury": [list(a) for a in t["woodbury"]]}
    return [("Scico.Generated.LinSolveTables", "defaults of cg/lstsq/bisect/golden/cg_solver and of the solver constructors, default cg/solve "
             "keyword dicts, guarded raises of every internal_init, Woodbury branch condition: source = model tables (solverTables)")]


def _tables(model):
    """default keyword dictionaries / default arguments as held by the MODEL (`solverTables`, driver op `tables`)"""
    if not _TAB:
        import ast as _ast

        r = model.call("tables")
        _TAB["kw"] = {e[0]: {k: _ast.literal_eval(v) for k, v in e[2]} for e in r["kwdicts"]}
        _TAB["defaults"] = {e[0]: {k: v for k, v in e[1]} for e in r["defaults"]}
        CG_DEFAULTS.clear()
        CG_DEFAULTS.update(_TAB["kw"]["LinearSubproblemSolver"])
    return _TAB


def _setup():
    if not _S:
        scico = common.setup_scico()
        import jax
        import jax.numpy as jnp

        from scico import functional, linop, loss, solver
        from scico.optimize import ADMM
        from scico.optimize import _admmaux as aux

        _S.update(scico=scico, jax=jax, jnp=jnp, functional=functional, linop=linop, loss=loss, ADMM=ADMM, aux=aux, solver=solver)
    return _S


def _arr(v, cplx, shape=None):
    if v is None:
        return None
    if cplx:
        a = np.array([complex(p[0], p[1]) for p in v], dtype=np.complex128)
    else:
        a = np.array(v, dtype=np.float64)
    return a.reshape(shape) if shape is not None else a


def _key(case):
    return json.dumps(case, sort_keys=True)[:20000]


def _dt(cplx):
    return np.complex128 if cplx else np.float64


def _dense(op, in_shape, cplx):
    """dense matrix of a real scico operator (columns = images of basis arrays, row-major flattening)"""
    jnp = _S["jnp"]
    n = int(np.prod(in_shape))
    cols = []
    for k in range(n):
        e = np.zeros(n, dtype=_dt(cplx))
        e[k] = 1.0
        cols.append(np.array(op(jnp.array(e.reshape(in_shape)))).ravel())
    return np.stack(cols, axis=1)


def _relres(ax, b):
    nrm = max(float(np.linalg.norm(ax.ravel())), float(np.linalg.norm(b.ravel())))
    return 0.0 if nrm == 0.0 else float(np.linalg.norm((b - ax).ravel())) / nrm


# =============================================================================================
# dense stream: Linear (scico cg, jax cg), Matrix, Generic


def gen_dense(rng):
    n = int(rng.integers(1, 6))
    cplx = bool(rng.integers(0, 3) == 0)
    dy = bool(rng.integers(0, 2))
    fk = str(rng.choice(["none", "matrix", "matrix", "diagonal"]))
    f = None
    if fk != "none":
        if fk == "matrix":
            m = int(rng.choice([max(1, n - 2), n, n + 2]))
            A = lu.rnd(rng, (m, n), cplx, dy, scale=1.0)
        else:
            m = n
            A = lu.rnd(rng, (n,), cplx, dy, scale=1.0)
        wk = int(rng.integers(0, 3))
        W = None
        if wk >= 1:
            W = rng.integers(1, 9, size=m) / 4.0
            if wk == 2 and m > 1:
                W[int(rng.integers(0, m))] = 0.0
        # the weighting operator as an object: None / an explicit Identity / a ScaledIdentity (uniform weight c != 1) / a Diagonal
        wk2 = int(rng.integers(0, 4))
        wkind = "none" if W is None else "diag"
        if wk2 == 0 and W is None:
            wkind = "identity"
        elif wk2 == 1:
            wkind = "scaled"
            W = np.full(m, float(rng.choice([0.25, 0.5, 2.0, 3.0])))
        f = {"kind": fk, "m": m, "A": tolist(A), "W": None if W is None else [float(w) for w in W], "Wkind": wkind,
             "scale": float(rng.choice([0.25, 0.5, 1.0, 2.0])), "y": tolist(lu.rnd(rng, (m,), cplx, dy))}
    terms = []
    for i in range(int(rng.integers(1, 4))):
        ck = str(rng.choice(["identity", "diagonal", "matrix"])) if i > 0 else str(rng.choice(["identity", "diagonal"]))
        if ck == "identity":
            p, C = n, None
        elif ck == "diagonal":
            p = n
            C = lu.rnd(rng, (n,), cplx, dy, scale=1.0)
            C = np.where(np.abs(C) < 0.5, 1.0, C)  # the first term keeps the system positive definite
        else:
            p = int(rng.integers(1, n + 2))
            C = lu.rnd(rng, (p, n), cplx, dy, scale=1.0)
        terms.append({"kind": ck, "p": p, "C": None if C is None else tolist(C), "rho": float(rng.integers(1, 17)) / 4.0,
                      "z": tolist(lu.rnd(rng, (p,), cplx, dy)), "u": tolist(lu.rnd(rng, (p,), cplx, dy))})
    return {"kind": "dense", "n": n, "cplx": cplx, "f": f, "terms": terms, "x0": tolist(lu.rnd(rng, (n,), cplx, dy))}


def gen_history(rng):
    """dense problem whose loss was used and rescaled before the x-step (c*L, L*c, L/c, set_scale, scaled twice)"""
    while True:
        case = gen_dense(rng)
        if case["f"] is not None:
            break
    final = case["f"]["scale"]
    uses = [["use", str(rng.choice(["hessian", "prox", "admm"]))]]
    c = float(rng.choice([2.0, 4.0, 0.5, 0.25, 8.0]))
    kind = str(rng.choice(["mul", "rmul", "div", "set_scale", "mul-mul", "use-mul-use-div", "set_scale-mul"]))
    if kind in ("mul", "rmul"):
        steps, s0 = uses + [[kind, c]], final / c
    elif kind == "div":
        steps, s0 = uses + [["div", c]], final * c
    elif kind == "set_scale":
        steps, s0 = uses + [["set_scale", final]], final * c
    elif kind == "mul-mul":
        steps, s0 = uses + [["mul", c], ["use", "hessian"], ["rmul", 2.0]], final / (2.0 * c)
    elif kind == "use-mul-use-div":
        steps, s0 = uses + [["mul", c], ["use", "prox"], ["div", 4.0]], final * 4.0 / c
    else:
        steps, s0 = uses + [["set_scale", final / c], ["use", "hessian"], ["mul", c]], 3.0 * final
    case["f"]["history"] = {"scale0": s0, "steps": steps, "kind": kind}
    case["kind"] = "history"
    return case


def _dense_numpy(case):
    """the documented system in numpy: H x = q"""
    n, cplx = case["n"], case["cplx"]
    H = np.zeros((n, n), dtype=_dt(cplx))
    q = np.zeros(n, dtype=_dt(cplx))
    f = case["f"]
    Ad = Wd = y = None
    if f is not None:
        A = _arr(f["A"], cplx)
        Ad = A.reshape(f["m"], n) if f["kind"] == "matrix" else np.diag(A)
        Wd = np.ones(f["m"]) if f["W"] is None else np.array(f["W"])
        y = _arr(f["y"], cplx)
        H += 2 * f["scale"] * Ad.conj().T @ (Wd[:, None] * Ad)
        q += 2 * f["scale"] * Ad.conj().T @ (Wd * y)
    Cs = []
    for t in case["terms"]:
        if t["kind"] == "identity":
            Cd = np.eye(n, dtype=_dt(cplx))
        elif t["kind"] == "diagonal":
            Cd = np.diag(_arr(t["C"], cplx))
        else:
            Cd = _arr(t["C"], cplx, (t["p"], n))
        Cs.append(Cd)
        H += t["rho"] * Cd.conj().T @ Cd
        q += t["rho"] * Cd.conj().T @ (_arr(t["z"], cplx) - _arr(t["u"], cplx))
    return H, q, Ad, Wd, y, Cs


def _build_dense(case, solver_obj):
    S = _setup()
    jnp, linop, loss, functional, ADMM = S["jnp"], S["linop"], S["loss"], S["functional"], S["ADMM"]
    n, cplx = case["n"], case["cplx"]
    dt = _dt(cplx)
    f = None
    if case["f"] is not None:
        cf = case["f"]
        A = _arr(cf["A"], cplx)
        Aop = linop.MatrixOperator(jnp.array(A.reshape(cf["m"], n), dtype=dt)) if cf["kind"] == "matrix" else linop.Diagonal(jnp.array(A, dtype=dt))
        wkind = cf.get("Wkind", "none" if cf["W"] is None else "diag")
        if wkind == "identity":
            W = linop.Identity((cf["m"],), input_dtype=np.float64)
        elif wkind == "scaled":
            W = linop.ScaledIdentity(float(cf["W"][0]), (cf["m"],), input_dtype=np.float64)
        else:
            W = None if cf["W"] is None else linop.Diagonal(jnp.array(np.array(cf["W"]), dtype=np.float64))
        hist = cf.get("history")
        f = loss.SquaredL2Loss(y=jnp.array(_arr(cf["y"], cplx), dtype=dt), A=Aop, scale=cf["scale"] if not hist else hist["scale0"], W=W)
        if hist:
            # the loss has a past: it is used (Hessian, prox, an ADMM with a Linear-family solver built on it) and then
            # rescaled; the x-step must see the loss as it is now (effective scale = cf["scale"])
            x0h = jnp.array(_arr(case["x0"], cplx), dtype=dt)
            for step in hist["steps"]:
                if step[0] == "use":
                    _ = np.array(f.hessian(x0h))
                    _ = float(f(x0h))
                    if step[1] == "prox":
                        _ = np.array(f.prox(x0h, 0.5))
                    elif step[1] == "admm":
                        ADMM(f=f, g_list=[functional.ZeroFunctional()], C_list=[linop.Identity((n,), input_dtype=dt)], rho_list=[1.0], x0=x0h,
                             maxiter=1, subproblem_solver=S["aux"].LinearSubproblemSolver())
                elif step[0] == "mul":
                    f = step[1] * f
                elif step[0] == "rmul":
                    f = f * step[1]
                elif step[0] == "div":
                    f = f / step[1]
                elif step[0] == "set_scale":
                    f.set_scale(step[1])
            if abs(float(f.scale) - cf["scale"]) > 1e-12:
                raise common.Infra(f"history does not end at the declared scale: {float(f.scale)} vs {cf['scale']}")
    C_list = []
    for t in case["terms"]:
        if t["kind"] == "identity":
            C_list.append(linop.Identity((n,), input_dtype=dt))
        elif t["kind"] == "diagonal":
            C_list.append(linop.Diagonal(jnp.array(_arr(t["C"], cplx), dtype=dt)))
        else:
            C_list.append(linop.MatrixOperator(jnp.array(_arr(t["C"], cplx, (t["p"], n)), dtype=dt)))
    k = len(C_list)
    admm = ADMM(f=f, g_list=[functional.ZeroFunctional() for _ in range(k)], C_list=C_list, rho_list=[t["rho"] for t in case["terms"]],
                x0=jnp.array(_arr(case["x0"], cplx), dtype=dt), maxiter=1, subproblem_solver=solver_obj)
    admm.z_list = [jnp.array(_arr(t["z"], cplx), dtype=dt) for t in case["terms"]]
    admm.u_list = [jnp.array(_arr(t["u"], cplx), dtype=dt) for t in case["terms"]]
    return admm


def _model_terms(case, Cs):
    cplx = case["cplx"]
    return [{"p": int(Cd.shape[0]), "rho": f2b(t["rho"]), "C": enc(Cd, cplx), "z": enc(_arr(t["z"], cplx), cplx), "u": enc(_arr(t["u"], cplx), cplx)}
            for t, Cd in zip(case["terms"], Cs)]


def _model_f(case, Ad, Wd, y):
    if case["f"] is None:
        return None
    cplx = case["cplx"]
    return {"m": int(Ad.shape[0]), "scale": f2b(case["f"]["scale"]), "A": enc(Ad, cplx), "W": enc(Wd.astype(_dt(cplx)), cplx), "y": enc(y, cplx)}


def _impl_dense(case, which):
    S = _setup()
    jnp, aux = S["jnp"], S["aux"]
    cplx = case["cplx"]
    x0 = jnp.array(_arr(case["x0"], cplx), dtype=_dt(cplx))
    out = {}
    try:
        if which == "linear-scico":
            sv = aux.LinearSubproblemSolver(cg_kwargs={"tol": 1e-11, "maxiter": 300}, cg_function="scico")
        elif which == "linear-jax":
            sv = aux.LinearSubproblemSolver(cg_kwargs={"tol": 1e-11, "maxiter": 300}, cg_function="jax")
        elif which == "matrix":
            sv = aux.MatrixSubproblemSolver(check_solve=True)
        else:
            sv = aux.GenericSubproblemSolver(minimize_kwargs={"options": {"maxiter": 300}})
        admm = _build_dense(case, sv)
        if which == "generic":
            captured = {}
            orig = aux.minimize

            def spy(obj, x0_, **kw):
                captured["obj"] = obj
                return orig(obj, x0_, **kw)

            aux.minimize = spy
            try:
                x = sv.solve(x0)
            finally:
                aux.minimize = orig
            out["obj"] = captured["obj"]
        else:
            x = sv.solve(x0)
        out["x"] = np.array(x)
        out["solver"] = sv
        out["admm"] = admm
    except Exception as e:  # noqa: BLE001
        return {"err": common.err_kind(e), "msg": repr(e)[:200]}
    return out


def oracle_dense(case):
    H, q, *_ = _dense_numpy(case)
    cond = float(np.linalg.cond(H))
    xs = np.linalg.solve(H, q)
    bad = {}
    for which in ("linear-scico", "linear-jax", "matrix") + (("generic",) if not case["cplx"] else ()):
        im = _impl_dense(case, which)
        if "err" in im:
            bad[which] = {"error": im["err"], "msg": im.get("msg")}
            continue
        res = _relres(H @ im["x"], q)
        tol = {"linear-scico": 1e-9, "linear-jax": 1e-8, "matrix": 1e-11, "generic": 1e-3}[which] * max(1.0, cond)
        if not np.all(np.isfinite(im["x"])) or res > tol:
            bad[which] = {"relative_residual_of_normal_equations": res, "x": tolist(im["x"]), "minimiser": tolist(xs)}
        if which == "matrix" and abs(float(im["solver"].accuracy) - res) > 1e-9:
            bad["matrix-accuracy"] = {"reported": float(im["solver"].accuracy), "true": res}
    return bad or None


def run_dense(ctx, model, case):
    n, cplx = case["n"], case["cplx"]
    dtc = "c" if cplx else "r"
    H, q, Ad, Wd, y, Cs = _dense_numpy(case)
    ctx.count("dense:complex" if cplx else "dense:real")
    ctx.count("dense:f=" + ("none" if case["f"] is None else case["f"]["kind"]))
    if case["f"] is not None:
        ctx.count(f"dense:scale={case['f']['scale']}")
        ctx.count("dense:W=" + ("none" if case["f"]["W"] is None else "zeros" if 0.0 in case["f"]["W"] else "positive"))
        ctx.count("dense:Wop=" + case["f"].get("Wkind", "?"))
    if case["f"] is not None and case["f"].get("history"):
        ctx.count("history:" + case["f"]["history"]["kind"])
    ctx.count(f"dense:terms={len(case['terms'])}")
    for t in case["terms"]:
        ctx.count("dense:C=" + t["kind"])
    trivial = np.allclose(H, H[0, 0] * np.eye(n))
    ctx.case({"kind": "dense", "n": n, "cplx": cplx, "terms": [t["kind"] for t in case["terms"]]}, None if trivial else _key(case))
    kk = 100 * n * (len(case["terms"]) + 1)
    # --- Linear: operator and right-hand side handed to cg
    r = model.call("admm", dt=dtc, which="linear", n=n, terms=_model_terms(case, Cs), f=_model_f(case, Ad, Wd, y))
    mcols = np.stack([dec(c, cplx) for c in r["lhscols"]], axis=1)
    mrhs = dec(r["rhs"], cplx)
    if not vclose(mcols, H, kk) or not vclose(mrhs, q, kk):
        raise common.Infra("model's assembled system differs from the documented system (theorem C10_assembly_linear violated?)")
    im = _impl_dense(case, "linear-scico")
    if "err" in im:
        ctx.disagree("c10.linear.error", case, {"err": im["err"], "msg": im["msg"]}, "ok", oracle=oracle_dense)
        return
    lhs_impl = _dense(im["solver"].lhs_op, (n,), cplx)
    rhs_impl = np.array(im["solver"].compute_rhs())
    bad = None
    if not vclose(lhs_impl, mcols, kk):
        bad = ("linear.lhs_op", tolist(lhs_impl), tolist(mcols))
    elif not vclose(rhs_impl, mrhs, kk):
        bad = ("linear.rhs", tolist(rhs_impl), tolist(mrhs))
    xs = np.linalg.solve(H, q)
    cond = float(np.linalg.cond(H))
    if bad is None and not vclose(im["x"], xs, kk, rtol=1e-8 * max(1, cond)):
        bad = ("linear.x(scico cg)", tolist(im["x"]), tolist(xs))
    if bad is None:
        ij = _impl_dense(case, "linear-jax")
        if "err" in ij:
            bad = ("linear-jax.error", {"err": ij["err"], "msg": ij["msg"]}, "ok")
        elif not vclose(ij["x"], xs, kk, rtol=1e-7 * max(1, cond)):
            bad = ("linear.x(jax cg)", tolist(ij["x"]), tolist(xs))
    # --- Matrix: arguments of MatrixATADSolver, its solution, its accuracy
    if bad is None:
        imx = _impl_dense(case, "matrix")
        if "err" in imx:
            kinds = {t["kind"] for t in case["terms"]}
            if imx["err"] == "type" and "matrix" in kinds and len(kinds) > 1:
                # Diagonal/Identity and MatrixOperator C_i mixed: their gram operators add to a generic LinearOperator
                ctx.disagree("c10.dense.matrix.error", case, {"err": imx["err"], "msg": imx["msg"]}, "ok", oracle=oracle_dense, known_id="matrix-mixed")
                return
            bad = ("matrix.error", {"err": imx["err"], "msg": imx["msg"]}, "ok")
        else:
            s = imx["solver"].solver
            if case["f"] is None:
                mA, mW, msc, mm = np.zeros((1, n), dtype=_dt(cplx)), np.ones(1), 0.5, 1
            else:
                mA, mW, msc, mm = Ad, Wd, case["f"]["scale"], int(Ad.shape[0])
            mterms = []
            for t, Cd in zip(case["terms"], Cs):
                if t["kind"] == "matrix":
                    mterms.append({"rho": f2b(t["rho"]), "diag": False, "p": int(Cd.shape[0]), "C": enc(Cd, cplx)})
                else:
                    mterms.append({"rho": f2b(t["rho"]), "diag": True, "C": enc(np.diag(Cd), cplx)})
            rm = model.call("admm_matrix", dt=dtc, n=n, m=mm, scale=f2b(msc), A=enc(mA, cplx), W=enc(mW.astype(_dt(cplx)), cplx), terms=mterms)
            D_impl = np.array(s.D)
            W_impl = np.array(s.W)
            mD = dec(rm["d"]["D"], cplx, (n,) if rm["d"]["ddiag"] else (n, n))
            ctx.count("dense:matrix-branch=" + ("woodbury" if rm["woodbury"] else "direct"))
            if (D_impl.ndim == 1) != rm["d"]["ddiag"]:
                bad = ("matrix.D.ndim", int(D_impl.ndim), 1 if rm["d"]["ddiag"] else 2)
            elif not vclose(D_impl, mD, kk):
                bad = ("matrix.D", tolist(D_impl), tolist(mD))
            elif not vclose(np.broadcast_to(W_impl, (mm,)), dec(rm["W"], cplx), kk):
                bad = ("matrix.W", tolist(W_impl), tolist(dec(rm["W"], cplx)))
            elif not vclose(np.array(s.A), dec(rm["A"], cplx, (mm, n)), kk):
                bad = ("matrix.A", tolist(np.array(s.A)), tolist(dec(rm["A"], cplx)))
            elif (int(np.array(s.factor[0]).shape[0]) == mm and mm < n) != rm["woodbury"]:
                bad = ("matrix.branch", int(np.array(s.factor[0]).shape[0]), rm["woodbury"])
            else:
                ra = model.call("atad", dt=dtc, m=mm, n=n, k=0, A=rm["A"], W=rm["W"], ddiag=rm["d"]["ddiag"], D=rm["d"]["D"], b=enc(mrhs, cplx),
                                x=enc(imx["x"], cplx))
                xm = dec(ra["x"], cplx)
                finite_w = bool(np.all(np.array(mW) != 0)) or not rm["woodbury"]
                if finite_w and not vclose(imx["x"], xm, kk, rtol=1e-8 * max(1, cond)):
                    bad = ("matrix.x", tolist(imx["x"]), tolist(xm))
                elif not vclose(imx["x"], xs, kk, rtol=1e-8 * max(1, cond)):
                    bad = ("matrix.x-vs-minimiser", tolist(imx["x"]), tolist(xs))
                elif abs(float(imx["solver"].accuracy) - b2f(ra["accuracy"])) > 1e-9:
                    bad = ("matrix.accuracy", float(imx["solver"].accuracy), b2f(ra["accuracy"]))
    # --- Generic: the objective handed to scipy
    if bad is None and not cplx:
        ig = _impl_dense(case, "generic")
        if "err" in ig:
            bad = ("generic.error", {"err": ig["err"], "msg": ig["msg"]}, "ok")
        else:
            jnp = _S["jnp"]
            for xt in (xs, _arr(case["x0"], cplx), ig["x"]):
                vi = float(ig["obj"](jnp.array(xt)))
                vm = b2f(model.call("genobj", dt=dtc, n=n, terms=_model_terms(case, Cs), f=_model_f(case, Ad, Wd, y), x=enc(xt, cplx)))
                if not common.close(vi, vm, kk):
                    bad = ("generic.objective", vi, vm)
                    break
            if bad is None:
                vo = float(ig["obj"](jnp.array(xs)))
                vg = float(ig["obj"](jnp.array(ig["x"])))
                if vg > vo + 1e-5 * (1 + abs(vo)):
                    bad = ("generic.x-not-minimal", vg, vo)
    if bad:
        ctx.disagree("c10.dense." + bad[0], case, bad[1], bad[2], oracle=oracle_dense)


# =============================================================================================
# circular stream: CircularConvolveSolver


def gen_circ(rng):
    nd = int(rng.integers(1, 3))
    shape = [int(rng.integers(2, 6)) for _ in range(nd)]
    cplx = bool(rng.integers(0, 3) == 0)
    fk = str(rng.choice(["none", "identity", "conv", "conv"]))
    f = None
    if fk != "none":
        ks = [int(rng.integers(1, s + 1)) for s in shape]
        wk = int(rng.integers(0, 5))
        f = {"kind": fk, "h": tolist(lu.rnd(rng, ks, cplx, False, 1.0)), "ks": ks, "scale": float(rng.choice([0.25, 0.5, 1.0, 2.0])),
             "y": tolist(lu.rnd(rng, shape, cplx, False)), "W": None if wk else [float(w) for w in (rng.integers(1, 9, size=int(np.prod(shape))) / 4.0)],
             "Wop": "identity" if wk in (1, 2) else "none"}
    terms = []
    for i in range(int(rng.integers(1, 4))):
        ck = str(rng.choice(["identity", "conv", "fd"])) if i > 0 else "identity"
        t = {"kind": ck, "rho": float(rng.integers(1, 17)) / 4.0}
        if ck == "conv":
            ks = [int(rng.integers(1, s + 1)) for s in shape]
            t["h"], t["ks"] = tolist(lu.rnd(rng, ks, cplx, False, 1.0)), ks
            oshape = shape
        elif ck == "fd":
            oshape = [nd] + shape
        else:
            oshape = shape
        t["oshape"] = oshape
        t["z"], t["u"] = tolist(lu.rnd(rng, oshape, cplx, False)), tolist(lu.rnd(rng, oshape, cplx, False))
        terms.append(t)
    return {"kind": "circ", "shape": shape, "cplx": cplx, "f": f, "terms": terms}


def _build_circ(case, sv=None):
    S = _setup()
    jnp, linop, loss, functional, ADMM, aux = S["jnp"], S["linop"], S["loss"], S["functional"], S["ADMM"], S["aux"]
    shape, cplx = tuple(case["shape"]), case["cplx"]
    dt = _dt(cplx)
    nd = len(shape)
    f = None
    Aop = None
    if case["f"] is not None:
        cf = case["f"]
        if cf["kind"] == "conv":
            Aop = linop.CircularConvolve(jnp.array(_arr(cf["h"], cplx, cf["ks"]), dtype=dt), input_shape=shape, ndims=nd, input_dtype=dt)
        else:
            Aop = linop.Identity(shape, input_dtype=dt)
        W = None if cf["W"] is None else linop.Diagonal(jnp.array(np.array(cf["W"]).reshape(shape), dtype=np.float64))
        if cf["W"] is None and cf.get("Wop") == "identity":
            W = linop.Identity(shape, input_dtype=np.float64)
        f = loss.SquaredL2Loss(y=jnp.array(_arr(cf["y"], cplx, shape), dtype=dt), A=Aop, scale=cf["scale"], W=W)
    C_list = []
    for t in case["terms"]:
        if t["kind"] == "identity":
            C_list.append(linop.Identity(shape, input_dtype=dt))
        elif t["kind"] == "conv":
            C_list.append(linop.CircularConvolve(jnp.array(_arr(t["h"], cplx, t["ks"]), dtype=dt), input_shape=shape, ndims=nd, input_dtype=dt))
        else:
            C_list.append(linop.FiniteDifference(shape, input_dtype=dt, circular=True))
    sv = aux.CircularConvolveSolver(ndims=nd) if sv is None else sv
    admm = ADMM(f=f, g_list=[functional.ZeroFunctional() for _ in C_list], C_list=C_list, rho_list=[t["rho"] for t in case["terms"]],
                x0=jnp.zeros(shape, dtype=dt), maxiter=1, subproblem_solver=sv)
    admm.z_list = [jnp.array(_arr(t["z"], cplx, t["oshape"]), dtype=dt) for t in case["terms"]]
    admm.u_list = [jnp.array(_arr(t["u"], cplx, t["oshape"]), dtype=dt) for t in case["terms"]]
    return admm, sv, Aop, C_list


def _circ_residual(case, admm, Aop, C_list, x):
    """documented normal equations in the spatial domain, through the real operators"""
    jnp = _S["jnp"]
    lhs = 0
    rhs = 0
    if case["f"] is not None:
        cf = case["f"]
        Wv = 1.0 if cf["W"] is None else jnp.array(np.array(cf["W"]).reshape(tuple(case["shape"])))
        lhs = lhs + 2 * cf["scale"] * Aop.adj(Wv * Aop(x))
        rhs = rhs + 2 * cf["scale"] * Aop.adj(Wv * admm.f.y)
    for t, C, z, u in zip(case["terms"], C_list, admm.z_list, admm.u_list):
        lhs = lhs + t["rho"] * C.adj(C(x))
        rhs = rhs + t["rho"] * C.adj(z - u)
    return _relres(np.array(lhs), np.array(rhs))


def oracle_circ(case):
    try:
        admm, sv, Aop, C_list = _build_circ(case)
        x = sv.solve(admm.x)
    except Exception as e:  # noqa: BLE001
        if isinstance(e, ValueError) and case["f"] is not None and case["f"]["W"] is not None:
            return None  # weighted losses are outside the solver's class and rejected (repo 62f467f)
        return {"unexpected_error": repr(e)[:200]}
    res = _circ_residual(case, admm, Aop, C_list, x)
    if not np.all(np.isfinite(np.array(x))) or res > 1e-8:
        return {"relative_residual_of_normal_equations": res, "weighted": case["f"] is not None and case["f"]["W"] is not None}
    return None


def run_circ(ctx, model, case):
    S = _setup()
    jnp, linop = S["jnp"], S["linop"]
    shape, cplx = tuple(case["shape"]), case["cplx"]
    N = int(np.prod(shape))
    nd = len(shape)
    weighted = case["f"] is not None and case["f"]["W"] is not None
    ctx.count("circ:complex" if cplx else "circ:real")
    ctx.count(f"circ:ndims={nd}")
    ctx.count("circ:f=" + ("none" if case["f"] is None else case["f"]["kind"]) + ("+W" if weighted else ""))
    for t in case["terms"]:
        ctx.count("circ:C=" + t["kind"])
    try:
        admm, sv, Aop, C_list = _build_circ(case)
        x = sv.solve(admm.x)
    except Exception as e:  # noqa: BLE001
        ctx.case({"kind": "circ", "err": common.err_kind(e)}, None)
        if weighted and isinstance(e, ValueError):
            ctx.count("circ:weighted-loss-rejected")  # behaviour after fixes/circ-solvers-weights.patch
            return
        ctx.disagree("c10.circ.error", case, repr(e)[:200], "ok", oracle=oracle_circ)
        return
    ctx.case({"kind": "circ", "shape": list(shape), "cplx": cplx, "terms": [t["kind"] for t in case["terms"]]}, _key(case))
    axes = tuple(range(nd))
    gh = lambda op: np.broadcast_to(np.array(linop.CircularConvolve.from_operator(op.gram_op, ndims=nd).h_dft), shape).reshape(N)  # noqa: E731
    terms = [{"rho": f2b(t["rho"]), "ghat": enc(gh(C), True)} for t, C in zip(case["terms"], C_list)]
    fj = None if case["f"] is None else {"scale": f2b(case["f"]["scale"]), "ghat": enc(gh(Aop), True)}
    rhs = np.array(sv.compute_rhs())
    r = model.call("circ", dt="c", N=N, terms=terms, f=fj, rhshat=enc(np.fft.fftn(rhs, axes=axes).reshape(N), True))
    kk = 100 * N * (len(terms) + 1)
    lhs_impl = np.broadcast_to(np.array(sv.A_lhs.h_dft), shape).reshape(N)
    bad = None
    if not vclose(lhs_impl, dec(r["lhshat"], True), kk):
        bad = ("lhs_dft", tolist(lhs_impl), tolist(dec(r["lhshat"], True)))
    elif not vclose(np.fft.fftn(np.array(x), axes=axes).reshape(N), dec(r["xhat"], True), kk, rtol=1e-8):
        bad = ("x_dft", tolist(np.fft.fftn(np.array(x), axes=axes)), tolist(dec(r["xhat"], True)))
    if bad:
        ctx.disagree("c10.circ." + bad[0], case, bad[1], bad[2], oracle=oracle_circ)
        return
    res = _circ_residual(case, admm, Aop, C_list, x)
    if res > 1e-8:
        ctx.disagree("c10.circ.normal-equations", case, res, 0.0, oracle=oracle_circ, known_id="circ-weights" if weighted else None)


# =============================================================================================
# block-circulant streams: FBlockCircularConvolveSolver, G0BlockCircularConvolveSolver


def gen_block(rng, which):
    K = int(rng.integers(1, 4))
    N = int(rng.integers(2, 6))
    cplx = bool(rng.integers(0, 4) == 0)
    ks = int(rng.integers(1, N + 1))
    case = {"kind": which, "K": K, "N": N, "cplx": cplx, "h": tolist(lu.rnd(rng, (K, ks), cplx, False, 1.0)), "ks": ks,
            "y": tolist(lu.rnd(rng, (N,), cplx, False)), "scale": float(rng.choice([0.25, 0.5, 0.5, 1.0, 2.0]))}
    terms = []
    for i in range(int(rng.integers(1, 3))):
        ck = "identity" if i == 0 else str(rng.choice(["identity", "conv"]))
        t = {"kind": ck, "rho": float(rng.integers(1, 17)) / 4.0, "z": tolist(lu.rnd(rng, (K, N), cplx, False)), "u": tolist(lu.rnd(rng, (K, N), cplx, False))}
        if ck == "conv":
            k2 = int(rng.integers(1, N + 1))
            t["h"], t["ks"] = tolist(lu.rnd(rng, (K, k2), cplx, False, 1.0)), k2
        terms.append(t)
    case["terms"] = terms
    if which == "fblock":
        case["W"] = None if rng.integers(0, 5) else [float(w) for w in (rng.integers(1, 9, size=N) / 4.0)]
    else:
        case["rho1"] = float(rng.integers(1, 17)) / 4.0
        case["z1"], case["u1"] = tolist(lu.rnd(rng, (N,), cplx, False)), tolist(lu.rnd(rng, (N,), cplx, False))
    return case


def _build_block(case, sv=None):
    S = _setup()
    jnp, linop, loss, functional, ADMM, aux = S["jnp"], S["linop"], S["loss"], S["functional"], S["ADMM"], S["aux"]
    K, N, cplx = case["K"], case["N"], case["cplx"]
    dt = _dt(cplx)
    ishape = (K, N)
    Cc = linop.CircularConvolve(jnp.array(_arr(case["h"], cplx, (K, case["ks"])), dtype=dt), input_shape=ishape, ndims=1, input_dtype=dt)
    AA = linop.Sum(input_shape=ishape, input_dtype=dt, axis=0) @ Cc
    C_list = []
    for t in case["terms"]:
        if t["kind"] == "identity":
            C_list.append(linop.Identity(ishape, input_dtype=dt))
        else:
            C_list.append(linop.CircularConvolve(jnp.array(_arr(t["h"], cplx, (K, t["ks"])), dtype=dt), input_shape=ishape, ndims=1, input_dtype=dt))
    zs = [jnp.array(_arr(t["z"], cplx, ishape), dtype=dt) for t in case["terms"]]
    us = [jnp.array(_arr(t["u"], cplx, ishape), dtype=dt) for t in case["terms"]]
    rhos = [t["rho"] for t in case["terms"]]
    y = jnp.array(_arr(case["y"], cplx), dtype=dt)
    if case["kind"] == "fblock":
        W = None if case["W"] is None else linop.Diagonal(jnp.array(np.array(case["W"]), dtype=np.float64))
        f = loss.SquaredL2Loss(y=y, A=AA, scale=case["scale"], W=W)
        sv = aux.FBlockCircularConvolveSolver(ndims=1, check_solve=True) if sv is None else sv
        admm = ADMM(f=f, g_list=[functional.ZeroFunctional() for _ in C_list], C_list=C_list, rho_list=rhos, x0=jnp.zeros(ishape, dtype=dt),
                    maxiter=1, subproblem_solver=sv)
        admm.z_list, admm.u_list = zs, us
    else:
        g1 = loss.SquaredL2Loss(y=y, scale=case["scale"])
        sv = aux.G0BlockCircularConvolveSolver(ndims=1, check_solve=True) if sv is None else sv
        admm = ADMM(f=functional.ZeroFunctional(), g_list=[g1] + [functional.ZeroFunctional() for _ in C_list], C_list=[AA] + C_list,
                    rho_list=[case["rho1"]] + rhos, x0=jnp.zeros(ishape, dtype=dt), maxiter=1, subproblem_solver=sv)
        admm.z_list = [jnp.array(_arr(case["z1"], cplx), dtype=dt)] + zs
        admm.u_list = [jnp.array(_arr(case["u1"], cplx), dtype=dt)] + us
    return admm, sv, AA, C_list


def _block_documented(case, admm, AA, C_list, x):
    """documented x-step normal equations through the real operators -> relative residual"""
    jnp = _S["jnp"]
    if case["kind"] == "fblock":
        Wv = 1.0 if case["W"] is None else jnp.array(np.array(case["W"]))
        lhs = 2 * case["scale"] * AA.adj(Wv * AA(x))
        rhs = 2 * case["scale"] * AA.adj(Wv * admm.f.y)
        ops, zs, us, rhos = C_list, admm.z_list, admm.u_list, [t["rho"] for t in case["terms"]]
    else:
        lhs, rhs = 0, 0
        ops, zs, us, rhos = [AA] + C_list, admm.z_list, admm.u_list, [case["rho1"]] + [t["rho"] for t in case["terms"]]
    for rho, C, z, u in zip(rhos, ops, zs, us):
        lhs = lhs + rho * C.adj(C(x))
        rhs = rhs + rho * C.adj(z - u)
    return _relres(np.array(lhs), np.array(rhs))


def _block_known(case):
    if case["kind"] == "g0" and case["scale"] != 0.5:
        return "g0-scale"
    if case["kind"] == "fblock" and case["W"] is not None:
        return "circ-weights"
    return None


def oracle_block(case):
    try:
        admm, sv, AA, C_list = _build_block(case)
        x = sv.solve(admm.x)
    except Exception as e:  # noqa: BLE001
        if isinstance(e, ValueError) and case["kind"] == "fblock" and case["W"] is not None:
            return None  # weighted losses are rejected (repo 62f467f)
        return {"unexpected_error": repr(e)[:200]}
    res = _block_documented(case, admm, AA, C_list, x)
    if not np.all(np.isfinite(np.array(x))) or res > 1e-8:
        return {"relative_residual_of_normal_equations": res, "accuracy_reported": float(sv.accuracy), "scale": case["scale"]}
    if _block_known(case) is None and abs(float(sv.accuracy) - res) > 1e-9:
        # theorem C10_accuracy_scale_invariant: rel_res of the system divided by 2a (resp. 2 omega rho_1) is rel_res of the documented one
        return {"accuracy_reported": float(sv.accuracy), "true_relative_residual_of_normal_equations": res, "x_is_correct": True}
    return None


def run_block(ctx, model, case):
    S = _setup()
    which = case["kind"]
    K, N, cplx = case["K"], case["N"], case["cplx"]
    n = K * N
    dtc = "c" if cplx else "r"
    ctx.count(f"{which}:complex" if cplx else f"{which}:real")
    ctx.count(f"{which}:K={K}")
    ctx.count(f"{which}:scale={case['scale']}")
    if which == "fblock":
        ctx.count("fblock:W=" + ("none" if case["W"] is None else "given"))
    try:
        admm, sv, AA, C_list = _build_block(case)
        captured = {}
        orig = sv.solver.solve

        def spy(rhs):
            captured["rhs"] = np.array(rhs)
            return orig(rhs)

        sv.solver.solve = spy
        x = sv.solve(admm.x)
    except Exception as e:  # noqa: BLE001
        ctx.case({"kind": which, "err": common.err_kind(e)}, None)
        if which == "fblock" and case["W"] is not None and isinstance(e, ValueError):
            ctx.count("fblock:weighted-loss-rejected")
            return
        ctx.disagree(f"c10.{which}.error", case, repr(e)[:200], "ok", oracle=oracle_block)
        return
    ctx.case({"kind": which, "K": K, "N": N, "cplx": cplx, "scale": case["scale"]}, _key(case))
    # dense data for the model
    Ad = _dense(AA, (K, N), cplx)
    Cs = [_dense(C, (K, N), cplx) for C in C_list]
    terms = [{"p": n, "rho": f2b(t["rho"]), "C": enc(Cd, cplx), "z": enc(_arr(t["z"], cplx), cplx), "u": enc(_arr(t["u"], cplx), cplx)}
             for t, Cd in zip(case["terms"], Cs)]
    if which == "fblock":
        Wd = np.ones(N) if case["W"] is None else np.array(case["W"])
        fj = {"m": N, "scale": f2b(case["scale"]), "A": enc(Ad, cplx), "W": enc(Wd.astype(_dt(cplx)), cplx), "y": enc(_arr(case["y"], cplx), cplx)}
        r = model.call("admm", dt=dtc, which="fblock", n=n, terms=terms, f=fj)
    else:
        t1 = {"p": N, "rho": f2b(case["rho1"]), "C": enc(Ad, cplx), "z": enc(_arr(case["z1"], cplx), cplx), "u": enc(_arr(case["u1"], cplx), cplx)}
        r = model.call("admm", dt=dtc, which="g0", n=n, terms=[t1] + terms, f=None, omega=f2b(case["scale"]))
    mcols = np.stack([dec(c, cplx) for c in r["lhscols"]], axis=1)
    mrhs = dec(r["rhs"], cplx)
    lhs_impl = _dense(lambda v: sv.solver.A.gram_op(v) + sv.solver.D(v), (K, N), cplx)
    kk = 100 * n * (len(terms) + 2)
    bad = None
    if not vclose(lhs_impl, mcols, kk):
        bad = ("system", tolist(lhs_impl), tolist(mcols))
    elif not vclose(captured["rhs"].ravel(), mrhs, kk):
        bad = ("rhs", tolist(captured["rhs"]), tolist(mrhs))
    else:
        xv = np.array(x).ravel()
        if not vclose(mcols @ xv, mrhs, kk, rtol=1e-8):
            bad = ("x-solves-handed-system", tolist(mcols @ xv), tolist(mrhs))
        elif abs(float(sv.accuracy) - _relres(mcols @ xv, mrhs)) > 1e-9:
            bad = ("accuracy", float(sv.accuracy), _relres(mcols @ xv, mrhs))
    if bad:
        ctx.disagree(f"c10.{which}." + bad[0], case, bad[1], bad[2], oracle=oracle_block)
        return
    res = _block_documented(case, admm, AA, C_list, x)
    if res > 1e-8:
        ctx.disagree(f"c10.{which}.normal-equations", case, res, 0.0, oracle=oracle_block, known_id=_block_known(case))


# =============================================================================================
# life-cycle streams (round 2, seeded C14-n1 / C10-n3): what a solver object does must depend on its own constructor
# arguments and on the ADMM object it is attached to *now* - not on solver objects built earlier, not on an earlier attachment

# documented: "the same as those of scico.solver.cg, except for tol 1e-4 and maxiter 100"; since round 4 the values come from the
# model's copy of the source tables (`solverTables.kwDicts`, obligation Scico.Generated.LinSolveTables) - filled by _tables(model)
CG_DEFAULTS = {}
_KW_POOL = [{"tol": 1e-1, "maxiter": 2}, {"maxiter": 1}, {"tol": 0.5}, {"tol": 1e-12, "maxiter": 300}, {"atol": 4.0}, {"tol": 1e-2, "maxiter": 3}, None]


def gen_kwhist(rng):
    """a sequence of LinearSubproblemSolver constructions with various cg_kwargs, then the probed one (defaults or partial keys)"""
    prob = _gen_where(gen_dense, rng, lambda c: c["n"] >= 2)
    hist = [{"cg_kwargs": _KW_POOL[int(rng.integers(0, len(_KW_POOL)))], "cg_function": str(rng.choice(["scico", "jax"]))}
            for _ in range(int(rng.integers(1, 4)))]
    probe = {"cg_kwargs": [None, None, {"tol": 1e-9}, {"maxiter": 50}][int(rng.integers(0, 4))], "cg_function": str(rng.choice(["scico", "scico", "jax"]))}
    after = [{"cg_kwargs": _KW_POOL[int(rng.integers(0, len(_KW_POOL)))], "cg_function": "scico"} for _ in range(int(rng.integers(0, 2)))]
    return {"kind": "kwhist", "problem": prob, "history": hist, "probe": probe, "after": after}


def _merged(kw):
    d = dict(CG_DEFAULTS)
    if kw:
        d.update(kw)
    return d


def _impl_kwhist(case):
    S = _setup()
    jnp, aux = S["jnp"], S["aux"]
    prob = case["problem"]
    cplx = prob["cplx"]
    try:
        earlier = [aux.LinearSubproblemSolver(cg_kwargs=None if h["cg_kwargs"] is None else dict(h["cg_kwargs"]), cg_function=h["cg_function"])
                   for h in case["history"]]
        pk = case["probe"]["cg_kwargs"]
        sv = aux.LinearSubproblemSolver(cg_kwargs=None if pk is None else dict(pk), cg_function=case["probe"]["cg_function"])
        later = [aux.LinearSubproblemSolver(cg_kwargs=None if h["cg_kwargs"] is None else dict(h["cg_kwargs"]), cg_function=h["cg_function"])
                 for h in case["after"]]
        admm = _build_dense(prob, sv)
        x = sv.solve(jnp.array(_arr(prob["x0"], cplx), dtype=_dt(cplx)))
    except Exception as e:  # noqa: BLE001
        return {"err": common.err_kind(e), "msg": repr(e)[:200]}
    return {"x": np.array(x), "kw": dict(sv.cg_kwargs), "kw_earlier": [dict(e.cg_kwargs) for e in earlier], "kw_later": [dict(e.cg_kwargs) for e in later],
            "info": sv.info, "admm": admm}


def _kw_bad(case, im):
    if im["kw"] != _merged(case["probe"]["cg_kwargs"]):
        return {"cg_kwargs_of_probed_solver": im["kw"], "documented": _merged(case["probe"]["cg_kwargs"])}
    for h, got in zip(case["history"] + case["after"], im["kw_earlier"] + im["kw_later"]):
        if got != _merged(h["cg_kwargs"]):
            return {"cg_kwargs_of_another_solver": got, "its_arguments_give": _merged(h["cg_kwargs"])}
    return None


def oracle_kwhist(case):
    """C10 on the implementation: the probed solver meets the normal equations to ITS stated accuracy (documented defaults
    merged with its own arguments) unless its own iteration limit was reached"""
    im = _impl_kwhist(case)
    if "err" in im:
        return {"unexpected_error": im["err"], "msg": im.get("msg")}
    H, q, *_ = _dense_numpy(case["problem"])
    kw = _merged(case["probe"]["cg_kwargs"])
    res = float(np.linalg.norm(q - H @ im["x"]))
    thr = max(kw["tol"] * float(np.linalg.norm(q)), kw.get("atol", 0.0))
    iters = None if im["info"] is None else int(im["info"]["num_iter"])
    if not np.all(np.isfinite(im["x"])):
        return {"x_not_finite": tolist(im["x"])}
    if iters is not None and iters < kw["maxiter"] and res > thr * (1 + 1e-6) + 1e-10 * float(np.linalg.cond(H)) * (1 + float(np.linalg.norm(q))):
        return {"stopped_after": iters, "own_maxiter": kw["maxiter"], "residual_of_normal_equations": res, "stated_accuracy": thr, "x": tolist(im["x"])}
    return _kw_bad(case, im)


def run_kwhist(ctx, model, case):
    _tables(model)
    prob = case["problem"]
    n, cplx = prob["n"], prob["cplx"]
    dtc = "c" if cplx else "r"
    ctx.count("kwhist:probe=" + ("defaults" if case["probe"]["cg_kwargs"] is None else "+".join(sorted(case["probe"]["cg_kwargs"]))))
    ctx.count("kwhist:cg=" + case["probe"]["cg_function"])
    ctx.count(f"kwhist:earlier={len(case['history'])}")
    im = _impl_kwhist(case)
    ctx.case({"kind": "kwhist", "n": n, "history": [h["cg_kwargs"] for h in case["history"]], "probe": case["probe"]}, _key(case))
    if "err" in im:
        ctx.disagree("c10.kwhist.error", case, {"err": im["err"], "msg": im["msg"]}, "ok", oracle=oracle_kwhist)
        return
    bad = _kw_bad(case, im)
    if bad:
        ctx.disagree("c10.kwhist.cg_kwargs", case, bad, "documented defaults updated by the object's own arguments", oracle=oracle_kwhist)
        return
    # the model's cg (resp. the jax contract model) on the documented system with the merged arguments
    H, q, *_ = _dense_numpy(prob)
    kw = _merged(case["probe"]["cg_kwargs"])
    x0 = _arr(prob["x0"], cplx)
    args = dict(dt=dtc, n=n, A=enc(H, cplx), M=None, b=enc(q, cplx), x0=enc(x0, cplx), tol=f2b(kw["tol"]), atol=f2b(kw.get("atol", 0.0)),
                maxiter=kw["maxiter"])
    if case["probe"]["cg_function"] == "scico":
        r = model.call("cg", linop=True, **args)
        K, margins = r["num_iter"], [(float(np.real(dec(t["num"], cplx)[0])), b2f(r["tolsq"])) for t in r["trace"]]
    else:
        r = model.call("jaxcg", **args)
        K, margins = r["k"], [(b2f(t["rs"]), b2f(r["atol2"])) for t in r["trace"]]
    for v, t in margins:
        if t > 0 and 0 < abs(v - t) / t < 1e-3:
            ctx.count("kwhist:discard-near-tie")
            return
    mx = dec(r["x"], cplx)
    kk = 100 * n * (K + 2)
    cond = float(np.linalg.cond(H))
    if im["info"] is not None and int(im["info"]["num_iter"]) != K:
        ctx.disagree("c10.kwhist.num_iter", case, int(im["info"]["num_iter"]), K, oracle=oracle_kwhist)
    elif not vclose(im["x"], mx, kk, rtol=1e-7 * max(1.0, cond)):
        ctx.disagree("c10.kwhist.x", case, tolist(im["x"]), tolist(mx), oracle=oracle_kwhist)


_REUSE_SOLVERS = ["linear-scico", "linear-jax", "matrix", "generic", "circ", "fblock", "g0"]


def gen_reuse(rng, which=None):
    """one solver INSTANCE attached to a first ADMM object, used, then attached to a second ADMM with different data"""
    which = which or _REUSE_SOLVERS[int(rng.integers(0, len(_REUSE_SOLVERS)))]
    if which in ("linear-scico", "linear-jax", "matrix", "generic"):
        ok1 = (lambda c: not c["cplx"]) if which == "generic" else (lambda c: True)
        first = _gen_where(gen_dense, rng, lambda c: c["f"] is not None and ok1(c))
        second = _gen_where(gen_dense, rng, lambda c: c["f"] is not None and c["n"] == first["n"] and c["cplx"] == first["cplx"])
    elif which == "circ":
        first = _gen_where(gen_circ, rng, lambda c: c["f"] is not None and c["f"]["W"] is None)
        second = _gen_where(gen_circ, rng, lambda c: c["f"] is not None and c["f"]["W"] is None and c["shape"] == first["shape"] and c["cplx"] == first["cplx"])
    else:
        fix = (lambda c: c["W"] is None) if which == "fblock" else (lambda c: c["scale"] == 0.5)
        first = _gen_where(GENS[which], rng, fix)
        second = _gen_where(GENS[which], rng, lambda c: fix(c) and (c["K"], c["N"], c["cplx"]) == (first["K"], first["N"], first["cplx"]))
    return {"kind": "reuse", "solver": which, "first": first, "second": second}


def _new_solver(which):
    aux = _S["aux"]
    if which == "linear-scico":
        return aux.LinearSubproblemSolver(cg_kwargs={"tol": 1e-11, "maxiter": 300}, cg_function="scico")
    if which == "linear-jax":
        return aux.LinearSubproblemSolver(cg_kwargs={"tol": 1e-11, "maxiter": 300}, cg_function="jax")
    if which == "matrix":
        return aux.MatrixSubproblemSolver(check_solve=True)
    if which == "generic":
        return aux.GenericSubproblemSolver(minimize_kwargs={"options": {"maxiter": 300}})
    if which == "circ":
        return aux.CircularConvolveSolver(ndims=None)
    if which == "fblock":
        return aux.FBlockCircularConvolveSolver(ndims=1, check_solve=True)
    return aux.G0BlockCircularConvolveSolver(ndims=1, check_solve=True)


def _attach_and_solve(which, prob, sv):
    """attach `sv` to a new ADMM object for `prob` (random z, u of the case), solve; returns x, documented relative residual, rhs"""
    jnp = _S["jnp"]
    if which in ("linear-scico", "linear-jax", "matrix", "generic"):
        cplx = prob["cplx"]
        _build_dense(prob, sv)
        x = np.array(sv.solve(jnp.array(_arr(prob["x0"], cplx), dtype=_dt(cplx))))
        H, q, *_ = _dense_numpy(prob)
        rhs = np.array(sv.compute_rhs()) if which != "generic" else None
        return x, _relres(H @ x, q), rhs, q
    if which == "circ":
        if sv.ndims is None:
            sv.ndims = len(prob["shape"])
        admm, sv, Aop, C_list = _build_circ(prob, sv)
        x = sv.solve(admm.x)
        return np.array(x), _circ_residual(prob, admm, Aop, C_list, x), np.array(sv.compute_rhs()), None
    admm, sv, AA, C_list = _build_block(prob, sv)
    x = sv.solve(admm.x)
    return np.array(x), _block_documented(prob, admm, AA, C_list, x), np.array(sv.compute_rhs()), None


def _impl_reuse(case):
    _setup()
    which = case["solver"]
    try:
        sv = _new_solver(which)
        _attach_and_solve(which, case["first"], sv)
        x2, res2, rhs2, q2 = _attach_and_solve(which, case["second"], sv)
        xf, resf, rhsf, _ = _attach_and_solve(which, case["second"], _new_solver(which))
    except Exception as e:  # noqa: BLE001
        return {"err": common.err_kind(e), "msg": repr(e)[:200]}
    return {"x": x2, "res": res2, "rhs": rhs2, "q": q2, "x_fresh": xf, "res_fresh": resf, "rhs_fresh": rhsf}


def _reuse_tol(case):
    which = case["solver"]
    if which in ("linear-scico", "linear-jax", "matrix", "generic"):
        H, *_ = _dense_numpy(case["second"])
        return {"linear-scico": 1e-9, "linear-jax": 1e-8, "matrix": 1e-11, "generic": 1e-3}[which] * max(1.0, float(np.linalg.cond(H)))
    return 1e-8


def oracle_reuse(case):
    im = _impl_reuse(case)
    if "err" in im:
        return {"unexpected_error": im["err"], "msg": im.get("msg")}
    if not np.all(np.isfinite(im["x"])) or im["res"] > _reuse_tol(case):
        return {"solver": case["solver"], "relative_residual_of_normal_equations_after_reattachment": im["res"], "with_a_fresh_solver": im["res_fresh"],
                "x": tolist(im["x"]), "x_fresh": tolist(im["x_fresh"])}
    return None


def run_reuse(ctx, model, case):
    which = case["solver"]
    ctx.count("reuse:" + which)
    im = _impl_reuse(case)
    ctx.case({"kind": "reuse", "solver": which}, _key(case))
    if "err" in im:
        ctx.disagree("c10.reuse.error", case, {"err": im["err"], "msg": im["msg"]}, "ok", oracle=oracle_reuse)
        return
    N = int(np.size(im["x"]))
    kk = 100 * N
    bad = None
    if im["rhs"] is not None and im["q"] is not None and not vclose(im["rhs"].ravel(), im["q"].ravel(), kk):
        bad = ("compute_rhs", tolist(im["rhs"]), tolist(im["q"]))  # q: the documented right-hand side (= the model's, see run_dense)
    elif im["rhs"] is not None and not vclose(im["rhs"].ravel(), im["rhs_fresh"].ravel(), kk):
        bad = ("compute_rhs-vs-fresh-solver", tolist(im["rhs"]), tolist(im["rhs_fresh"]))
    elif not vclose(im["x"].ravel(), im["x_fresh"].ravel(), kk, rtol=max(1e-7, 10 * _reuse_tol(case))):
        bad = ("x-vs-fresh-solver", tolist(im["x"]), tolist(im["x_fresh"]))
    elif im["res"] > _reuse_tol(case):
        bad = ("normal-equations", im["res"], 0.0)
    if bad:
        ctx.disagree("c10.reuse." + bad[0], case, bad[1], bad[2], oracle=oracle_reuse)


# =============================================================================================
# class checks of every internal_init (round 4): model `initResult` over the tables re-read from the source

_CC_SOLVERS = ["LinearSubproblemSolver", "MatrixSubproblemSolver", "CircularConvolveSolver", "FBlockCircularConvolveSolver",
               "G0BlockCircularConvolveSolver"]
_CC_F = ["none", "zero", "sql2-identity", "sql2-diagonal", "sql2-matrix", "sql2-conv", "sql2-composed", "sql2-conv-weighted", "sql2-composed-weighted", "poisson"]
_CC_C = ["identity", "diagonal", "matrix", "conv", "composed"]


def gen_classcheck(rng):
    sv = _CC_SOLVERS[int(rng.integers(0, len(_CC_SOLVERS)))]
    f = _CC_F[int(rng.integers(0, len(_CC_F)))]
    cs = [_CC_C[int(rng.integers(0, len(_CC_C)))] for _ in range(int(rng.integers(1, 3)))]
    g0 = str(rng.choice(["sql2", "zero"]))
    return {"kind": "classcheck", "solver": sv, "f": f, "C": cs, "g0": g0, "cplx": bool(rng.integers(0, 4) == 0) and f != "poisson"}


def _cc_build(case):
    S = _setup()
    jnp, linop, loss, functional = S["jnp"], S["linop"], S["loss"], S["functional"]
    dt = _dt(case["cplx"])
    K, N = 2, 3
    sh = (K, N)
    ones = lambda shape: jnp.array(np.ones(shape), dtype=dt)  # noqa: E731

    def mk(kind):
        if kind == "identity":
            return linop.Identity(sh, input_dtype=dt)
        if kind == "diagonal":
            return linop.Diagonal(2.0 * ones(sh))
        if kind == "matrix":
            return linop.MatrixOperator(jnp.array(np.eye(K) + 1.0, dtype=dt), input_cols=N)
        if kind == "conv":
            return linop.CircularConvolve(ones((K, 2)), input_shape=sh, ndims=1, input_dtype=dt)
        return linop.Sum(input_shape=sh, input_dtype=dt, axis=0) @ linop.CircularConvolve(ones((K, 2)), input_shape=sh, ndims=1, input_dtype=dt)

    fk = case["f"]
    if fk == "none":
        f = None
    elif fk == "zero":
        f = functional.ZeroFunctional()
    elif fk == "poisson":
        f = loss.PoissonLoss(y=ones(sh), A=mk("identity"))
    else:
        parts = fk.split("-")
        A = mk(parts[1])
        y = ones(A.output_shape)
        W = linop.Diagonal(jnp.array(np.full(A.output_shape, 2.0))) if parts[-1] == "weighted" else None
        f = loss.SquaredL2Loss(y=y, A=A, scale=1.0, W=W)
    C_list = [mk(k) for k in case["C"]]
    g_list = [functional.ZeroFunctional() for _ in C_list]
    if case["solver"] == "G0BlockCircularConvolveSolver" and case["g0"] == "sql2":
        g_list[0] = loss.SquaredL2Loss(y=ones(C_list[0].output_shape), scale=0.5)
    return f, g_list, C_list, jnp.zeros(sh, dtype=dt)


def run_classcheck(ctx, model, case):
    import traceback

    S = _setup()
    linop, loss, functional, aux, ADMM = S["linop"], S["loss"], S["functional"], S["aux"], S["ADMM"]
    f, g_list, C_list, x0 = _cc_build(case)
    svc = getattr(aux, case["solver"])
    sv = svc(ndims=1) if case["solver"] in ("CircularConvolveSolver", "FBlockCircularConvolveSolver", "G0BlockCircularConvolveSolver") else svc()
    got, later = "ok", False
    try:
        ADMM(f=f, g_list=g_list, C_list=C_list, rho_list=[1.0] * len(C_list), x0=x0, maxiter=1, subproblem_solver=sv)
    except Exception as e:  # noqa: BLE001
        last = traceback.extract_tb(e.__traceback__)[-1]
        if last.name == "internal_init" and last.filename.endswith("_admmaux.py") and (last.line or "").strip().startswith("raise"):
            got = common.err_kind(e)  # raised by one of the guarded `raise` statements of internal_init itself
        else:
            later = True  # the class checks passed; something later failed (shapes, from_operator, ...): not the subject of this stream
    cls = {"SquaredL2Loss": loss.SquaredL2Loss, "ZeroFunctional": functional.ZeroFunctional, "LinearOperator": linop.LinearOperator,
           "Diagonal": linop.Diagonal, "MatrixOperator": linop.MatrixOperator, "CircularConvolve": linop.CircularConvolve,
           "Identity": linop.Identity, "ComposedLinearOperator": linop.ComposedLinearOperator}
    subj = {"admm.f": f, "admm.g_list[0]": g_list[0], "admm.C_list[0]": C_list[0]}
    if f is not None and hasattr(f, "A"):
        subj["admm.f.A"] = f.A
    if f is not None and hasattr(f, "W"):
        subj["admm.f.W"] = f.W
    isinst = [[sname, cname] for sname, obj in subj.items() for cname, c in cls.items() if obj is not None and isinstance(obj, c)]
    ci = [[cname for cname, c in cls.items() if isinstance(C, c)] for C in C_list]
    try:
        model.call("init_check", solver=case["solver"], f_none=f is None, isinst=isinst, ci=ci)
        want = "ok"
    except ModelErr as e:
        want = e.kind
    ctx.count(f"classcheck:{case['solver']}:{got if not later else 'ok-then-later-failure'}")
    ctx.case({"kind": "classcheck", "solver": case["solver"], "f": case["f"], "C": case["C"], "result": got}, _key(case))
    if later and want == "ok":
        return
    if got != want:
        ctx.disagree("c10.classcheck", case, got, want, oracle=lambda c: None)


# =============================================================================================
# set_scale on the loss AFTER the ADMM object was built (round 3; recorded finding `stale-scale-after-init`)

_SS_SOLVERS = ["linear-scico", "linear-jax", "matrix", "generic", "circ", "fblock"]
_SS_STALE = ("matrix", "circ", "fblock")  # precompute their left-hand side in internal_init


def gen_setscale(rng, which=None):
    which = which or _SS_SOLVERS[int(rng.integers(0, len(_SS_SOLVERS)))]
    if which in ("linear-scico", "linear-jax", "matrix", "generic"):
        prob = _gen_where(gen_dense, rng, lambda c: c["f"] is not None and (which != "generic" or not c["cplx"]))
        s0 = prob["f"]["scale"]
    elif which == "circ":
        prob = _gen_where(gen_circ, rng, lambda c: c["f"] is not None and c["f"]["W"] is None)
        s0 = prob["f"]["scale"]
    else:
        prob = _gen_where(GENS["fblock"], rng, lambda c: c["W"] is None)
        s0 = prob["scale"]
    s1 = float(rng.choice([v for v in (0.25, 0.5, 1.0, 2.0, 4.0) if v != s0]))
    case = {"kind": "setscale", "solver": which, "problem": prob, "scale1": s1}
    if rng.integers(0, 3) == 0:
        # round 5: instead of the scale, the measurement f.y is replaced after construction (and one solve): compute_rhs must read the
        # CURRENT f.y at every solve, for every solver class (nothing on the left-hand side depends on y)
        yold = prob["f"]["y"] if "f" in prob else prob["y"]
        ynew = tolist(lu.rnd(rng, np.array(yold).shape[:1] if not prob["cplx"] else (len(yold),), prob["cplx"], False))
        if which == "circ":
            ynew = tolist(lu.rnd(rng, tuple(prob["shape"]), prob["cplx"], False))
        case.update(mode="sety", ynew=ynew, scale1=s0)
    return case


def _with_scale(prob, s1, ynew=None):
    q = json.loads(json.dumps(prob))
    if "f" in q and q["f"] is not None:
        q["f"]["scale"] = s1
        if ynew is not None:
            q["f"]["y"] = ynew
    else:
        q["scale"] = s1
        if ynew is not None:
            q["y"] = ynew
    return q


def _impl_setscale(case):
    _setup()
    jnp = _S["jnp"]
    which, prob, s1 = case["solver"], case["problem"], case["scale1"]
    sety = case.get("mode") == "sety"
    now = _with_scale(prob, s1, case.get("ynew"))

    def change(admm, x0):
        if sety:
            sv.solve(x0)  # one solve with the old measurement first
            shp = np.array(admm.f.y).shape
            admm.f.y = jnp.array(_arr(case["ynew"], prob["cplx"]).reshape(shp), dtype=_dt(prob["cplx"]))
        else:
            admm.f.set_scale(s1)

    try:
        sv = _new_solver(which)
        if which in ("linear-scico", "linear-jax", "matrix", "generic"):
            cplx = prob["cplx"]
            admm = _build_dense(prob, sv)
            change(admm, jnp.array(_arr(prob["x0"], cplx), dtype=_dt(cplx)))
            x = np.array(sv.solve(jnp.array(_arr(prob["x0"], cplx), dtype=_dt(cplx))))
            H, q, *_ = _dense_numpy(now)
            res = _relres(H @ x, q)
        elif which == "circ":
            sv.ndims = len(prob["shape"])
            admm, sv, Aop, C_list = _build_circ(prob, sv)
            change(admm, admm.x)
            x = sv.solve(admm.x)
            res = _circ_residual(now, admm, Aop, C_list, x)
            x = np.array(x)
        else:
            admm, sv, AA, C_list = _build_block(prob, sv)
            change(admm, admm.x)
            x = sv.solve(admm.x)
            res = _block_documented(now, admm, AA, C_list, x)
            x = np.array(x)
    except Exception as e:  # noqa: BLE001
        return {"err": common.err_kind(e), "msg": repr(e)[:200]}
    return {"x": x, "res": res, "acc": getattr(sv, "accuracy", None), "sv": sv, "admm": admm}


def _ss_tol(case):
    which = case["solver"]
    if which in ("linear-scico", "linear-jax", "matrix", "generic"):
        H, *_ = _dense_numpy(_with_scale(case["problem"], case["scale1"]))
        return {"linear-scico": 1e-9, "linear-jax": 1e-8, "matrix": 1e-11, "generic": 1e-3}[which] * max(1.0, float(np.linalg.cond(H)))
    return 1e-8


def oracle_setscale(case):
    """C10 on the implementation: the returned x minimises the x-step objective of the loss AS IT IS NOW"""
    im = _impl_setscale(case)
    if "err" in im:
        return {"unexpected_error": im["err"], "msg": im.get("msg")}
    if not np.all(np.isfinite(im["x"])) or im["res"] > _ss_tol(case):
        return {"solver": case["solver"], "scale_at_construction": case["problem"]["f"]["scale"] if "f" in case["problem"] else case["problem"]["scale"],
                "scale_now": case["scale1"], "relative_residual_of_normal_equations": im["res"],
                "accuracy_reported": None if im["acc"] is None else float(im["acc"]), "x": tolist(im["x"])}
    return None


def _stale_model(model, case):
    """dense data of the problem for the model's stale systems (`staleScaleSystem` / `fblockStaleSystem`)"""
    which, prob = case["solver"], case["problem"]
    cplx = prob["cplx"]
    dtc = "c" if cplx else "r"
    if which == "matrix":
        H, q, Ad, Wd, y, Cs = _dense_numpy(prob)
        r = model.call("admm", dt=dtc, which="stale", n=prob["n"], terms=_model_terms(prob, Cs), f=_model_f(prob, Ad, Wd, y), scale1=f2b(case["scale1"]))
    elif which == "circ":
        admm, sv, Aop, C_list = _build_circ(prob)
        shape = tuple(prob["shape"])
        n = int(np.prod(shape))
        Ad = _dense(Aop, shape, cplx)
        terms = [{"p": int(Cd.shape[0]), "rho": f2b(t["rho"]), "C": enc(Cd, cplx), "z": enc(_arr(t["z"], cplx), cplx), "u": enc(_arr(t["u"], cplx), cplx)}
                 for t, Cd in zip(prob["terms"], [_dense(C, shape, cplx) for C in C_list])]
        fj = {"m": n, "scale": f2b(prob["f"]["scale"]), "A": enc(Ad, cplx), "W": enc(np.ones(n, dtype=_dt(cplx)), cplx), "y": enc(_arr(prob["f"]["y"], cplx), cplx)}
        r = model.call("admm", dt=dtc, which="stale", n=n, terms=terms, f=fj, scale1=f2b(case["scale1"]))
    else:
        admm, sv, AA, C_list = _build_block(prob)
        K, N = prob["K"], prob["N"]
        n = K * N
        Ad = _dense(AA, (K, N), cplx)
        terms = [{"p": n, "rho": f2b(t["rho"]), "C": enc(_dense(C, (K, N), cplx), cplx), "z": enc(_arr(t["z"], cplx), cplx), "u": enc(_arr(t["u"], cplx), cplx)}
                 for t, C in zip(prob["terms"], C_list)]
        fj = {"m": N, "scale": f2b(prob["scale"]), "A": enc(Ad, cplx), "W": enc(np.ones(N, dtype=_dt(cplx)), cplx), "y": enc(_arr(prob["y"], cplx), cplx)}
        r = model.call("admm", dt=dtc, which="fblock_stale", n=n, terms=terms, f=fj, scale1=f2b(case["scale1"]))
    return np.stack([dec(c, cplx) for c in r["lhscols"]], axis=1), dec(r["rhs"], cplx)


def run_setscale(ctx, model, case):
    which = case["solver"]
    ctx.count("setscale:" + which)
    im = _impl_setscale(case)
    ctx.case({"kind": "setscale", "solver": which, "scale1": case["scale1"]}, _key(case))
    if "err" in im:
        ctx.disagree("c10.setscale.error", case, {"err": im["err"], "msg": im["msg"]}, "ok", oracle=oracle_setscale)
        return
    sety = case.get("mode") == "sety"
    ctx.count("setscale:mode=" + ("sety" if sety else "set_scale"))
    stale_class = which in _SS_STALE and ctx.is_known("stale-scale-after-init") and not sety
    if stale_class:
        # the code as it is: operator of the scale at construction, right-hand side of the current scale (model `staleScaleSystem`)
        mcols, mrhs = _stale_model(model, case)
        xv = im["x"].ravel()
        kk = 100 * xv.size * (len(case["problem"]["terms"]) + 2)
        if not vclose(mcols @ xv, mrhs, kk, rtol=1e-8):
            ctx.disagree("c10.setscale.stale-system", case, tolist(mcols @ xv), tolist(mrhs), oracle=oracle_setscale)
            return
    if im["res"] > _ss_tol(case):
        ctx.disagree("c10.setscale.normal-equations", case, im["res"], 0.0, oracle=oracle_setscale,
                     known_id="stale-scale-after-init" if (which in _SS_STALE and not sety) else None)


STALE_WITNESS = {"kind": "setscale", "solver": "matrix", "scale1": 2.0,
                 "problem": {"kind": "dense", "n": 2, "cplx": False, "x0": [0.0, 0.0],
                             "f": {"kind": "matrix", "m": 3, "A": [1.0, 2.0, 0.0, 1.0, 1.0, 1.0], "W": None, "scale": 0.5, "y": [1.0, 2.0, 3.0]},
                             "terms": [{"kind": "identity", "p": 2, "C": None, "rho": 1.0, "z": [1.0, -1.0], "u": [0.0, 0.0]}]}}


# =============================================================================================

RUNNERS = {"dense": run_dense, "history": run_dense, "circ": run_circ, "fblock": run_block, "g0": run_block, "kwhist": run_kwhist, "reuse": run_reuse, "setscale": run_setscale, "classcheck": run_classcheck}
GENS = {"dense": gen_dense, "history": gen_history, "circ": gen_circ, "fblock": lambda rng: gen_block(rng, "fblock"), "g0": lambda rng: gen_block(rng, "g0"),
        "kwhist": gen_kwhist, "reuse": gen_reuse, "setscale": gen_setscale, "classcheck": gen_classcheck}
ORACLES = {"dense": oracle_dense, "history": oracle_dense, "circ": oracle_circ, "fblock": oracle_block, "g0": oracle_block, "kwhist": oracle_kwhist,
           "reuse": oracle_reuse, "setscale": oracle_setscale}
BUDGET = {"dense": (20, 220), "history": (12, 120), "circ": (30, 300), "fblock": (16, 160), "g0": (16, 160), "kwhist": (10, 80), "reuse": (14, 105), "setscale": (12, 90), "classcheck": (40, 400)}



def _has(case, kind):
    return any(t["kind"] == kind for t in case["terms"])


# configurations every run must contain (the first cases of a stream are drawn until they match): combinations that a
# purely random draw of 20-30 cases misses with noticeable probability (round-2 audit: a dropped conjugate in the gram
# matrix of a complex MatrixOperator C_i next to a Diagonal one was invisible for seed 0)
STRATA = {
    "dense": [
        lambda c: c["cplx"] and _has(c, "matrix") and len({t["kind"] for t in c["terms"]}) > 1,
        lambda c: c["cplx"] and _has(c, "matrix") and c["f"] is not None and c["f"]["kind"] == "matrix" and c["f"]["W"] is not None,
        lambda c: c["cplx"] and all(t["kind"] == "diagonal" for t in c["terms"]) and c["f"] is not None and c["f"]["kind"] == "diagonal",
        lambda c: (not c["cplx"]) and _has(c, "matrix") and c["f"] is None,
        lambda c: c["f"] is not None and c["f"].get("Wkind") == "scaled" and c["f"]["kind"] == "matrix",
        lambda c: c["f"] is not None and c["f"].get("Wkind") == "scaled" and c["cplx"],
        lambda c: c["f"] is not None and c["f"].get("Wkind") == "identity",
        lambda c: c["f"] is not None and c["f"]["kind"] == "matrix" and c["f"]["m"] < c["n"] and all(t["kind"] != "matrix" for t in c["terms"])
        and c["f"]["W"] is not None and 0.0 not in c["f"]["W"],  # Woodbury path of the factorisation solver
    ],
    "history": [
        lambda c: c["cplx"] and _has(c, "matrix"),
        lambda c: c["f"]["W"] is not None and c["f"]["history"]["kind"] == "set_scale-mul",
        lambda c: c["f"].get("Wkind") == "scaled",
    ],
    "circ": [
        lambda c: c["cplx"] and c["f"] is not None and c["f"]["kind"] == "identity" and c["f"]["W"] is None,
        lambda c: c["f"] is not None and c["f"]["kind"] == "conv" and c["f"]["W"] is None and any(t["kind"] == "fd" for t in c["terms"]),
    ],
    "fblock": [lambda c: c["cplx"] and c["W"] is None and c["K"] >= 2 and any(t["kind"] == "conv" for t in c["terms"])],
    "kwhist": [
        lambda c: c["probe"]["cg_kwargs"] is None and c["probe"]["cg_function"] == "scico" and any(
            h["cg_kwargs"] and h["cg_kwargs"].get("maxiter", 100) <= 2 for h in c["history"]) and c["problem"]["n"] >= 4,
        lambda c: c["probe"]["cg_kwargs"] is None and c["probe"]["cg_function"] == "jax" and any(
            h["cg_kwargs"] and h["cg_kwargs"].get("maxiter", 100) <= 2 for h in c["history"]) and c["problem"]["n"] >= 4,
        lambda c: c["probe"]["cg_kwargs"] == {"tol": 1e-9} and any(h["cg_kwargs"] and "maxiter" in h["cg_kwargs"] for h in c["history"]),
    ],
    "reuse": [(lambda w: (lambda c: c["solver"] == w))(w) for w in _REUSE_SOLVERS],
    "setscale": [(lambda w: (lambda c: c["solver"] == w))(w) for w in _SS_SOLVERS],
    "g0": [lambda c: c["K"] >= 2 and len(c["terms"]) == 2 and c["terms"][0]["rho"] != c["terms"][1]["rho"] and c["rho1"] != c["terms"][0]["rho"]],
}


def _gen_where(gen, rng, pred, cap=2000):
    for _ in range(cap):
        case = gen(rng)
        if pred(case):
            return case
    raise common.Infra("stratified generator: configuration not reached")


G0_WITNESS = {"kind": "g0", "K": 1, "N": 2, "cplx": False, "h": [1.0], "ks": 1, "y": [0.0, 0.0], "scale": 2.0, "rho1": 1.0, "z1": [1.0, 1.0], "u1": [0.0, 0.0],
              "terms": [{"kind": "identity", "rho": 1.0, "z": [0.0, 0.0], "u": [0.0, 0.0]}]}
CIRCW_WITNESS = {"kind": "fblock", "K": 1, "N": 2, "cplx": False, "h": [1.0], "ks": 1, "y": [1.0, 1.0], "scale": 0.5, "W": [2.0, 0.5],
                 "terms": [{"kind": "identity", "rho": 1.0, "z": [0.0, 0.0], "u": [0.0, 0.0]}]}



def default_precision_stream(ctx):
    """round 6: the library's DEFAULT mode (no jax_enable_x64; float32 / complex64 data, Python scalars weakly typed): a worker
    subprocess (harness/linsolve_f32_worker.py) runs the solvers of this property; nothing may raise, results stay 32-bit of the kind of
    the data, the documented system (numpy float64 in the worker) holds at a float32-appropriate relative residual, reported
    accuracy / rel_res is consistent with the true one"""
    import subprocess
    import sys

    p = subprocess.run([sys.executable, str(common.VERIF / "harness" / "linsolve_f32_worker.py")],
                       input=json.dumps({"repo": str(common.REPO), "which": "c10", "seed": ctx.seed}), capture_output=True, text=True,
                       env={k_: v for k_, v in os.environ.items() if k_ != "JAX_ENABLE_X64"})
    if p.returncode != 0:
        raise common.Infra("default-precision worker failed: " + p.stderr[-800:])
    txt = p.stdout
    for rec in json.loads(txt[txt.index('{"results"'):])["results"]:
        ctx.case({"default_precision": rec["name"], "dtype": rec["dtype"]}, "f32:" + rec["name"] + ":" + rec["dtype"])
        ctx.count("default-precision:" + rec["dtype"])
        bad = rec.get("raised") or not rec.get("dtype_ok") or not rec.get("value_ok") or rec.get("reported_ok") is False
        if bad:
            ctx.disagree("linsolve.default_precision." + rec["name"], {"kind": "default_precision", "item": rec["name"], "dtype": rec["dtype"], "seed": ctx.seed},
                         {k_: v for k_, v in rec.items() if k_ not in ("name", "dtype")},
                         "no exception, 32-bit result of the kind of the data, documented system within the float32 tolerance, consistent accuracy",
                         oracle=lambda case, rec=rec: dict(rec, mode="float32/complex64 (jax_enable_x64 off)"))


def correspond(ctx, model):
    _setup()
    _tables(model)
    cdir = common.CORPUS_DIR / PROP
    for p in sorted(cdir.glob("*.json")) if cdir.exists() else []:
        c = json.loads(p.read_text())
        case = c.get("case", c)
        if case.get("kind") in RUNNERS:
            ctx.count("corpus")
            RUNNERS[case["kind"]](ctx, model, case)
    only = os.environ.get("LINSOLVE_STREAMS")  # debugging aid (mutation trials): restrict the streams
    if not only or "f32" in only.split(","):
        default_precision_stream(ctx)
    for kind, gen in GENS.items():
        if only and kind not in only.split(","):
            continue
        q, t = BUDGET[kind]
        for i in range(ctx.n(q, t)):
            want = STRATA.get(kind, [])
            case = _gen_where(gen, ctx.rng, want[i]) if i < len(want) else gen(ctx.rng)
            RUNNERS[kind](ctx, model, case)
    if only:
        # a restricted run is a debugging aid only: it can print VIOLATION lines but can never be reported as "held"
        raise common.Infra(f"LINSOLVE_STREAMS={only} is set: restricted debugging run, not a valid check (unset it)")


MIXED_WITNESS = {"kind": "dense", "n": 2, "cplx": False, "f": None, "x0": [0.0, 0.0],
                 "terms": [{"kind": "identity", "p": 2, "C": None, "rho": 1.0, "z": [1.0, 2.0], "u": [0.0, 0.0]},
                           {"kind": "matrix", "p": 1, "C": [1.0, 1.0], "rho": 2.0, "z": [1.0], "u": [0.0]}]}


def findings(ctx, model):
    _setup()
    if ctx.is_known("matrix-mixed"):
        im = _impl_dense(MIXED_WITNESS, "matrix")
        ctx.known_finding("matrix-mixed", im.get("err") == "type")
    if ctx.is_known("stale-scale-after-init"):
        r = oracle_setscale(STALE_WITNESS)
        ctx.known_finding("stale-scale-after-init", r is not None and "relative_residual_of_normal_equations" in r,
                          "" if r is None else f"x-step residual {r.get('relative_residual_of_normal_equations'):.3g}, accuracy reported {r.get('accuracy_reported')}")
    if ctx.is_known("g0-scale"):
        r = oracle_block(G0_WITNESS)
        ctx.known_finding("g0-scale", r is not None and "relative_residual_of_normal_equations" in r,
                          "" if r is None else f"x-step residual {r.get('relative_residual_of_normal_equations'):.3g}, accuracy reported {r.get('accuracy_reported'):.1e}")


class _Collect:
    """stand-in for the run context inside the targeted panel: the first disagreement is kept as the failing input"""

    def __init__(self, ctx):
        self.ctx, self.hit = ctx, None

    def count(self, *a, **k):
        pass

    def case(self, *a, **k):
        pass

    def is_known(self, x):
        return self.ctx.is_known(x)

    def disagree(self, op, case, impl, model, oracle=None, known_id=None):
        if known_id and self.ctx.is_known(known_id):
            return
        if self.hit is None:
            r = oracle(case) if oracle else None
            self.hit = {"case": case, "failing": r if r else {"op": op, "implementation": impl, "documented_behaviour_(model_with_its_tables)": model}}


def _targeted(ctx, model):
    """a generated obligation no longer checks: aim the search at the solver classes whose table rows differ between source and model"""
    import linsolve_translate

    rows = linsolve_translate.diff_rows(model.call("tables"))
    ctx.extra["changed_table_rows"] = [list(r) for r in rows]
    col = _Collect(ctx)
    for kind, name in rows:
        cls = name.split(".")[0]
        if cls == "LinearSubproblemSolver" and kind in ("kwdicts", "defaults"):
            for i in range(12):
                want = STRATA["kwhist"]
                case = _gen_where(gen_kwhist, ctx.rng, want[i % len(want)])
                ctx.count("search:targeted:kwhist")
                r = oracle_kwhist(case)
                if r is not None:
                    return {"case": case, "failing": r}
                run_kwhist(col, model, case)
                if col.hit:
                    return col.hit
        elif kind == "checks":
            for _ in range(120):
                case = gen_classcheck(ctx.rng)
                case["solver"] = cls
                ctx.count("search:targeted:classcheck")
                run_classcheck(col, model, case)
                if col.hit:
                    return col.hit
        elif cls in ("MatrixSubproblemSolver", "MatrixATADSolver") or kind == "woodbury":
            for _ in range(20):
                case = gen_dense(ctx.rng)
                ctx.count("search:targeted:dense")
                r = oracle_dense(case)
                if r is not None:
                    return {"case": case, "failing": r}
                run_dense(col, model, case)
                if col.hit:
                    return col.hit
    return None


def search(ctx, model, why):
    _setup()
    _tables(model)
    if why is not None:
        hit = _targeted(ctx, model)
        if hit:
            return hit
    for kind, orc in ORACLES.items():
        q, t = BUDGET[kind]
        for _ in range(max(6, ctx.n(q, t) // 4)):
            case = GENS[kind](ctx.rng)
            if kind in ("fblock", "g0") and _block_known(case) and ctx.is_known(_block_known(case)):
                continue
            if kind == "setscale" and case["solver"] in _SS_STALE and case.get("mode") != "sety" and ctx.is_known("stale-scale-after-init"):
                continue
            if kind == "dense" and ctx.is_known("matrix-mixed") and 1 < len({t["kind"] for t in case["terms"]}) and any(
                    t["kind"] == "matrix" for t in case["terms"]):
                continue
            ctx.count(f"search:{kind}")
            r = orc(case)
            if r is not None:
                return {"case": case, "failing": r}
    return None


def replay(ctx, model, case):
    _setup()
    _tables(model)
    c = case.get("case", case)
    kind = c.get("kind")
    orc = ORACLES.get(kind)
    r = orc(c) if orc else None
    print("replay:", "property FAILS on implementation:" if r else "no failure at this input", r)
    if r:
        ctx.violation({"kind": "failing-input", "case": c, "failing": r}, True, "replay")
    elif kind in RUNNERS:
        RUNNERS[kind](ctx, model, c)
