"""Tie between JAX's array primitives and the PROVED family of `lean/Scico/Proofs/JaxprArray.lean` (C06, round 2).

`Scico.Jaxpr.applyDescG T xs` (Model/Jaxpr.lean) applies a row-finite sparse matrix `T` over an operand list; at ℂ it is
`Arr.applyDesc`, proved jointly linear for every `T` (`applyDesc_add`, `applyDesc_smul`).  For a primitive *instance*
(primitive + static parameters + shapes + constant parameter operands, as recorded by `jaxpr_ir.translate`) this module
builds the sparse rows **from the static parameters alone**, with numpy index arithmetic on arrays of entry numbers
(never by probing the primitive), and the adapter then checks on random dyadic operands that

        JAX primitive (operands)  ==  Lean applyDescG rows (operands)          exactly (dyadic data: sums are exact)

so that these instances are not only "numerically linear" but *equal, on the sampled inputs, to a map that is proved
linear*.  Supported: add, add_any, sub, neg, slice, pad (negative / interior padding, padding-value operand),
concatenate, reduce_sum, cumsum (reverse), rev, broadcast_in_dim, transpose, reshape, squeeze, expand_dims, select_n
(constant predicate), dynamic_slice / dynamic_update_slice (constant, clamped start), gather and scatter / scatter-add (XLA dimension-number semantics re-implemented here, every
index mode, out-of-bounds and duplicate indices), fft / ifft / rfft (Kronecker product of DFT matrices, complex
coefficients, compared to 1e-11), convert_element_type (between inexact types), copy, device_put, and the translator's
pseudo-primitives for unrolled scans and pmap boundaries.  Complex operands are sent as their real and imaginary parts.
"""

from __future__ import annotations

import numpy as np

MAX_OUT = 6000
MAX_TERMS = 60000
MAX_PROGRAM_TERMS = 40000  # whole-program runs: sparse-table entries sent to the driver


class Unsupported(Exception):
    pass


def _codes(shapes):
    """entry-number arrays: code = k * M + j + 1 for entry j of data operand k ; 0 = structural zero"""
    M = max([int(np.prod(s)) for s in shapes] + [1]) + 1
    return M, [np.arange(int(np.prod(s)), dtype=np.int64).reshape(s) + 1 + k * M for k, s in enumerate(shapes)]


def _pad_codes(code, vcode, config):
    out = code
    for ax, (lo, hi, interior) in enumerate(config):
        n = out.shape[ax]
        m = n + max(n - 1, 0) * interior
        shape = list(out.shape)
        shape[ax] = m
        tmp = np.full(shape, vcode, dtype=np.int64)
        if n:
            idx = [slice(None)] * out.ndim
            idx[ax] = slice(0, m, interior + 1)
            tmp[tuple(idx)] = out
        padw = [(0, 0)] * out.ndim
        padw[ax] = (max(lo, 0), max(hi, 0))
        tmp = np.pad(tmp, padw, constant_values=vcode)
        sl = [slice(None)] * out.ndim
        sl[ax] = slice(max(-lo, 0), tmp.shape[ax] - max(-hi, 0))
        out = tmp[tuple(sl)]
    return out


def _mode(p):
    m = str(p.get("mode", ""))
    return "clip" if "CLIP" in m else "fill" if "FILL" in m else "promise"


def _window_positions(op_shape, sizes_or_window, dropped):
    """operand dimensions that carry the window (not collapsed / inserted), in order"""
    return [d for d in range(len(op_shape)) if d not in dropped]


def _gather_rows(op_shape, idx, p, M):
    """XLA gather semantics (offset_dims, collapsed_slice_dims, start_index_map; index vector = last axis of `idx`)"""
    dn = p["dimension_numbers"]
    if getattr(dn, "operand_batching_dims", ()) or getattr(dn, "start_indices_batching_dims", ()):
        raise Unsupported("gather with batching dims")
    offset_dims, collapsed, sim = tuple(dn.offset_dims), tuple(dn.collapsed_slice_dims), tuple(dn.start_index_map)
    sizes = tuple(p["slice_sizes"])
    mode = _mode(p)
    fill = p.get("fill_value")
    if mode == "fill" and not (fill is not None and float(np.real(fill)) == 0.0 and float(np.imag(fill)) == 0.0):
        # non-zero fill: only instances without out-of-bounds slices reach here (the translator bakes those); treat as drop->0
        pass
    batch_shape = tuple(idx.shape[:-1])
    win_dims = _window_positions(op_shape, sizes, collapsed)
    win_shape = tuple(sizes[d] for d in win_dims)
    out_rank = len(batch_shape) + len(win_shape)
    out_shape = [None] * out_rank
    batch_pos = [d for d in range(out_rank) if d not in offset_dims]
    for k, d in enumerate(offset_dims):
        out_shape[d] = win_shape[k]
    for k, d in enumerate(batch_pos):
        out_shape[d] = batch_shape[k]
    out_shape = tuple(out_shape)
    strides = np.cumprod((1,) + tuple(op_shape[::-1]))[:-1][::-1] if op_shape else np.array([], dtype=np.int64)
    rows = []
    for o in np.ndindex(out_shape):
        b = tuple(o[d] for d in batch_pos)
        w = tuple(o[d] for d in offset_dims)
        start = [0] * len(op_shape)
        oob = False
        for k, d in enumerate(sim):
            v = int(idx[b + (k,)])
            hi = op_shape[d] - sizes[d]
            if mode in ("clip", "promise"):
                v = min(max(v, 0), hi)
            elif v < 0 or v > hi:
                oob = True
            start[d] = v
        if oob:
            rows.append([])
            continue
        full = list(start)
        for k, d in enumerate(win_dims):
            full[d] += w[k]
        rows.append([(0, int(np.dot(full, strides)) if op_shape else 0, 1.0)])
    return rows, out_shape


def _scatter_rows(op_shape, upd_shape, idx, p, M, add):
    """XLA scatter(-add) semantics (update_window_dims, inserted_window_dims, scatter_dims_to_operand_dims)"""
    dn = p["dimension_numbers"]
    if getattr(dn, "operand_batching_dims", ()) or getattr(dn, "scatter_indices_batching_dims", ()):
        raise Unsupported("scatter with batching dims")
    uwd, iwd, sdod = tuple(dn.update_window_dims), tuple(dn.inserted_window_dims), tuple(dn.scatter_dims_to_operand_dims)
    mode = _mode(p)
    win_dims = _window_positions(op_shape, None, iwd)
    scat_pos = [d for d in range(len(upd_shape)) if d not in uwd]
    strides = np.cumprod((1,) + tuple(op_shape[::-1]))[:-1][::-1] if op_shape else np.array([], dtype=np.int64)
    n = int(np.prod(op_shape))
    rows = [[(0, e, 1.0)] for e in range(n)]
    win_size = [upd_shape[d] for d in uwd]
    written = {}
    for u in np.ndindex(tuple(upd_shape)):
        b = tuple(u[d] for d in scat_pos)
        w = tuple(u[d] for d in uwd)
        start = [0] * len(op_shape)
        oob = False
        for k, d in enumerate(sdod):
            v = int(idx[b + (k,)])
            wlen = win_size[win_dims.index(d)] if d in win_dims else 1
            hi = op_shape[d] - wlen
            if mode == "clip":
                v = min(max(v, 0), hi)
            elif v < 0 or v > hi:
                oob = True
            start[d] = v
        if oob:
            continue
        full = list(start)
        for k, d in enumerate(win_dims):
            full[d] += w[k]
        e = int(np.dot(full, strides)) if op_shape else 0
        uflat = int(np.ravel_multi_index(u, upd_shape)) if upd_shape else 0
        if add:
            rows[e].append((1, uflat, 1.0))
        else:
            # duplicate indices: XLA leaves the winner unspecified; the CPU back-end applies the updates in order (the last
            # one wins), which is what the comparison with the primitive pins - any winner gives a sparse row
            written[e] = True
            rows[e] = [(1, uflat, 1.0)]
    return rows, tuple(op_shape)


def _agree(lean, ref, dtype):
    """inexact comparisons (fft, complex products, single precision): error relative to the LARGEST entry of the result
    (a floor of 1 on the scale): 2e-5 for 32-bit results - an fft of n entries carries O(eps log n) of the largest
    entry in every entry - and 1e-11 for 64-bit ones"""
    lean, ref = np.asarray(lean, dtype=np.complex128).ravel(), np.asarray(ref, dtype=np.complex128).ravel()
    if lean.shape != ref.shape:
        return False
    if ref.size == 0:
        return True
    if not (np.all(np.isfinite(lean)) and np.all(np.isfinite(ref))):
        return bool(np.array_equal(np.isfinite(lean), np.isfinite(ref)))
    single = np.dtype(dtype).itemsize <= (8 if np.dtype(dtype).kind == "c" else 4)
    scale = 1.0 + float(np.max(np.abs(ref)))
    return float(np.max(np.abs(lean - ref))) / scale <= (2e-5 if single else 1e-11)


def rows_of(inst):
    """-> (rows, out_shape) ; rows[i] = [(data operand, entry, coefficient)] for output entry i (row-major)"""
    name = inst["name"].split("#")[0]
    p = inst["params"]
    avals = inst["avals"]
    dpos, ppos = inst["dpos"], inst["ppos"]
    if inst.get("offset") or any(i not in inst["pvals"] for i in ppos):
        raise Unsupported("offset / input-dependent parameter")
    shapes = [tuple(avals[i][0]) for i in dpos]
    for i in dpos:
        if np.dtype(avals[i][1]).kind not in "fc":
            raise Unsupported("non-inexact data operand")
    M, C = _codes(shapes)

    def single(code, coef=1.0):
        flat = np.asarray(code).ravel()
        return [([] if c == 0 else [(int((c - 1) // M), int((c - 1) % M), coef)]) for c in flat], tuple(np.shape(code))

    def multi(codes_coefs, shape):
        rows = [[] for _ in range(int(np.prod(shape)))]
        for code, coef in codes_coefs:
            flat = np.broadcast_to(code, shape).ravel()
            for i, c in enumerate(flat):
                if c:
                    rows[i].append((int((c - 1) // M), int((c - 1) % M), coef))
        return rows, tuple(shape)

    if name in ("add", "add_any", "sub"):
        shape = np.broadcast_shapes(*shapes)
        return multi([(C[0], 1.0), (C[1], 1.0 if name != "sub" else -1.0)], shape)
    if name == "neg":
        return single(C[0], -1.0)
    if name in ("copy", "device_put", "convert_element_type", "copy_p"):
        return single(C[0])
    if name == "slice":
        st = p["strides"] or (1,) * len(shapes[0])
        return single(C[0][tuple(slice(a, b, s) for a, b, s in zip(p["start_indices"], p["limit_indices"], st))])
    if name == "rev":
        return single(np.flip(C[0], axis=tuple(p["dimensions"])))
    if name == "transpose":
        return single(np.transpose(C[0], p["permutation"]))
    if name == "reshape":
        if p.get("dimensions") is not None:  # the operand's dimensions are permuted first (XLA reshape with `dimensions`)
            return single(np.transpose(C[0], tuple(p["dimensions"])).reshape(p["new_sizes"]))
        return single(C[0].reshape(p["new_sizes"]))
    if name == "squeeze":
        return single(np.squeeze(C[0], axis=tuple(p["dimensions"])))
    if name == "expand_dims":
        return single(np.expand_dims(C[0], tuple(p["dimensions"])))
    if name == "broadcast_in_dim":
        shape, bd = tuple(p["shape"]), tuple(p["broadcast_dimensions"])
        inter = [1] * len(shape)
        for src, dst in enumerate(bd):
            inter[dst] = shapes[0][src]
        return single(np.broadcast_to(C[0].reshape(inter), shape))
    if name == "concatenate":
        return single(np.concatenate(C, axis=p["dimension"]))
    if name == "pad":
        if len(C) != 2:
            raise Unsupported("pad arity")
        return single(_pad_codes(C[0], int(C[1].ravel()[0]), [tuple(int(t) for t in c) for c in p["padding_config"]]))
    if name == "reduce_sum":
        axes = tuple(p["axes"])
        keep = [a for a in range(C[0].ndim) if a not in axes]
        moved = np.transpose(C[0], keep + list(axes))
        oshape = tuple(C[0].shape[a] for a in keep)
        flat = moved.reshape(int(np.prod(oshape)), -1)
        return [[(int((c - 1) // M), int((c - 1) % M), 1.0) for c in r] for r in flat], oshape
    if name == "cumsum":
        ax, rev = p["axis"], p.get("reverse", False)
        moved = np.moveaxis(C[0], ax, -1)
        n = moved.shape[-1]
        rows_nd = np.empty(moved.shape, dtype=object)
        for idx in np.ndindex(moved.shape):
            j = idx[-1]
            rng_ = range(j, n) if rev else range(0, j + 1)
            rows_nd[idx] = [(int((moved[idx[:-1] + (t,)] - 1) // M), int((moved[idx[:-1] + (t,)] - 1) % M), 1.0) for t in rng_]
        back = np.moveaxis(rows_nd, -1, ax)
        return [list(r) for r in back.ravel()], tuple(back.shape)
    if name == "select_n":
        pred = np.asarray(inst["pvals"][ppos[0]])
        pred = np.broadcast_to(pred.astype(np.int64), np.broadcast_shapes(pred.shape, *shapes))
        stack = np.stack([np.broadcast_to(c, pred.shape) for c in C])
        return single(np.take_along_axis(stack, pred[None], axis=0)[0])
    if name == "dynamic_slice":
        sizes = tuple(p["slice_sizes"])
        starts = [int(np.clip(int(np.asarray(inst["pvals"][i])), 0, n - s)) for i, n, s in zip(ppos, shapes[0], sizes)]
        return single(C[0][tuple(slice(a, a + s) for a, s in zip(starts, sizes))])
    if name == "dynamic_update_slice":
        sizes = shapes[1]
        starts = [int(np.clip(int(np.asarray(inst["pvals"][i])), 0, n - s)) for i, n, s in zip(ppos, shapes[0], sizes)]
        out = C[0].copy()
        out[tuple(slice(a, a + s) for a, s in zip(starts, sizes))] = C[1]
        return single(out)
    if name in ("gather", "gather[fill]"):
        idx = np.asarray((inst.get("baked") or {}).get(1, inst["pvals"].get(1)))
        return _gather_rows(shapes[0], idx, p, M)
    if name in ("scatter-add", "scatter_add", "scatter"):
        return _scatter_rows(shapes[0], shapes[1], np.asarray(inst["pvals"][1]), p, M, add=(name != "scatter"))
    if name == "fft":
        ft = getattr(p["fft_type"], "name", str(p["fft_type"])).split(".")[-1]
        lens = tuple(int(n) for n in p["fft_lengths"])
        if ft not in ("FFT", "IFFT", "RFFT"):
            raise Unsupported("fft type " + ft)
        r = len(lens)
        K = np.ones((1, 1), dtype=np.complex128)
        for ax, n in enumerate(lens):
            kk = np.arange(n)
            W = np.exp((2j if ft == "IFFT" else -2j) * np.pi * np.outer(kk, kk) / n)
            if ft == "IFFT":
                W = W / n
            if ft == "RFFT" and ax == r - 1:
                W = W[: n // 2 + 1]
            K = np.kron(K, W)
        lead = int(np.prod(shapes[0][:-r]))
        bin_, bout = K.shape[1], K.shape[0]
        oshape = tuple(shapes[0][:-r]) + tuple(lens[:-1]) + ((lens[-1] // 2 + 1) if ft == "RFFT" else lens[-1],)
        rows = [[(0, l * bin_ + j, complex(K[o, j])) for j in range(bin_)] for l in range(lead) for o in range(bout)]
        return rows, oshape
    if name == "scan[ys-stack]":
        return single(np.stack(C))
    if name == "scan[xs-index]":
        return single(C[0][int(inst["static"].split(":")[-1])])
    if name == "pmap[in-slice]":
        return single(np.take(C[0], 0, axis=int(inst["static"].split(":")[-1])))
    if name == "pmap[out-stack]":
        return single(np.expand_dims(C[0], int(inst["static"].split(":")[-1])))
    raise Unsupported(name)


def compare(inst, rng, model):
    """-> ("ok" | "unsupported:<why>" | "too-large", None) or ("mismatch", dict)"""
    import common
    import jaxpr_table as tb

    try:
        rows, oshape = rows_of(inst)
    except Unsupported as e:
        return "unsupported:" + str(e).split(" ")[0], None
    if len(rows) > MAX_OUT or sum(len(r) for r in rows) > MAX_TERMS:
        return "too-large", None
    avals, dpos, ppos = inst["avals"], inst["dpos"], inst["ppos"]
    data = [tb._rand(rng, avals[i][0], avals[i][1]) for i in dpos]
    ops = [None] * len(avals)
    for i in ppos:
        ops[i] = inst["pvals"][i]
    import jax.numpy as jnp

    for i, d in zip(dpos, data):
        ops[i] = jnp.asarray(d, dtype=avals[i][1])
    outs = tb.bind_instance(inst, ops)
    k = int(inst["name"].split("#")[1]) if "#" in inst["name"] else 0
    got = np.asarray(outs[k])
    if tuple(got.shape) != tuple(oshape):
        return "mismatch", {"what": "shape", "jax": list(got.shape), "descriptor": list(oshape)}
    cplx_coef = any(isinstance(t[2], complex) for r in rows for t in r)
    if cplx_coef:
        # complex coefficients c = cr + i ci over operands split into (re, im): re(out) = Σ cr·xr − ci·xi, im(out) = Σ ci·xr + cr·xi
        xs = []
        for d in data:
            xs.append(common.fs2b([float(v) for v in np.asarray(np.real(d), dtype=np.float64).ravel()]))
            xs.append(common.fs2b([float(v) for v in np.asarray(np.imag(d), dtype=np.float64).ravel()]))
        out = []
        for sel in ("re", "im"):
            wr = []
            for r in rows:
                row = []
                for k, j, c in r:
                    cr, ci = float(np.real(c)), float(np.imag(c))
                    a, b = (cr, -ci) if sel == "re" else (ci, cr)
                    row.append([2 * k, j, common.f2b(a)])
                    row.append([2 * k + 1, j, common.f2b(b)])
                wr.append(row)
            out.append(np.asarray(common.b2fs(model.call("applydesc", rows=wr, xs=xs)), dtype=np.float64))
        lean = out[0] + 1j * out[1]
        ref = np.asarray(got, dtype=np.complex128).ravel()
        if not _agree(lean, ref, got.dtype):
            return "mismatch", {"what": "value (complex coefficients)", "jax": [repr(complex(v)) for v in ref[:6]], "lean": [repr(complex(v)) for v in lean[:6]]}
        return "ok", None
    parts = [("re", np.real)] + ([("im", np.imag)] if any(np.iscomplexobj(d) for d in data) or np.iscomplexobj(got) else [])
    wire_rows = [[[t[0], t[1], common.f2b(float(t[2]))] for t in r] for r in rows]
    for pname, part in parts:
        xs = [common.fs2b([float(v) for v in np.asarray(part(d), dtype=np.float64).ravel()]) for d in data]
        lean = np.asarray(common.b2fs(model.call("applydesc", rows=wire_rows, xs=xs)), dtype=np.float64)
        ref = np.asarray(part(got), dtype=np.float64).ravel()
        if lean.shape != ref.shape or not np.array_equal(lean, ref):
            bad = int(np.argmax(lean != ref)) if lean.shape == ref.shape else -1
            return "mismatch", {"what": f"value ({pname} part)", "entry": bad, "jax": ref[:8].tolist(), "lean": lean[:8].tolist(), "row": rows[bad] if bad >= 0 else None}
    return "ok", None


# ---------------------------------------------------------------------------------------------------------------
# round 3: the other classes of the family and whole programs (`runfam`)


def _bcast_pairs(su, sv):
    shape = np.broadcast_shapes(su, sv)
    U = np.broadcast_to(np.arange(int(np.prod(su)), dtype=np.int64).reshape(su), shape).ravel()
    V = np.broadcast_to(np.arange(int(np.prod(sv)), dtype=np.int64).reshape(sv), shape).ravel()
    return U, V, tuple(shape)


def _dot_general_rows(su, sv, dn):
    (lc, rc), (lb, rb) = dn
    lc, rc, lb, rb = tuple(lc), tuple(rc), tuple(lb), tuple(rb)
    L = np.arange(int(np.prod(su)), dtype=np.int64).reshape(su)
    R = np.arange(int(np.prod(sv)), dtype=np.int64).reshape(sv)
    lf = [d for d in range(len(su)) if d not in lc + lb]
    rf = [d for d in range(len(sv)) if d not in rc + rb]
    Lm = np.transpose(L, list(lb) + lf + list(lc))
    Rm = np.transpose(R, list(rb) + rf + list(rc))
    B = int(np.prod([su[d] for d in lb])) if lb else 1
    FL = int(np.prod([su[d] for d in lf])) if lf else 1
    FR = int(np.prod([sv[d] for d in rf])) if rf else 1
    Lm, Rm = Lm.reshape(B, FL, -1), Rm.reshape(B, FR, -1)
    rows = [[(int(a), int(b_), 1.0) for a, b_ in zip(Lm[b, i], Rm[b, j])] for b in range(B) for i in range(FL) for j in range(FR)]
    oshape = tuple(su[d] for d in lb) + tuple(su[d] for d in lf) + tuple(sv[d] for d in rf)
    return rows, oshape


def _conv_rows(su, sv, p, oshape):
    """XLA conv_general_dilated (a correlation): out[n,o,s] = Σ_{c,k} lhs'[n, g·Cg + c, s·stride + k·rdil] · rhs[o,c,k]
    where lhs' is lhs dilated by `lhs_dilation` and padded, g the feature group of o"""
    if int(p.get("batch_group_count", 1)) != 1:
        raise Unsupported("conv with batch groups")
    dn = p["dimension_numbers"]
    ls, rs, os_ = tuple(dn.lhs_spec), tuple(dn.rhs_spec), tuple(dn.out_spec)
    nsp = len(ls) - 2
    strides = tuple(p["window_strides"])
    pads = tuple(tuple(int(t) for t in q) for q in p["padding"])
    ldil = tuple(p.get("lhs_dilation") or (1,) * nsp)
    rdil = tuple(p.get("rhs_dilation") or (1,) * nsp)
    G = int(p.get("feature_group_count", 1))
    N, C = su[ls[0]], su[ls[1]]
    O, Cg = sv[rs[0]], sv[rs[1]]
    if C != Cg * G:
        raise Unsupported("conv feature groups")
    Lidx = np.arange(int(np.prod(su)), dtype=np.int64).reshape(su)
    Ridx = np.arange(int(np.prod(sv)), dtype=np.int64).reshape(sv)
    osp = tuple(oshape[d] for d in os_[2:])
    ksp = tuple(sv[d] for d in rs[2:])
    isp = tuple(su[d] for d in ls[2:])
    rows = [None] * int(np.prod(oshape))
    ostr = np.cumprod((1,) + tuple(oshape[::-1]))[:-1][::-1]
    for n in range(N):
        for o in range(O):
            g = o // (O // G)
            for s in np.ndindex(osp):
                terms = []
                for c in range(Cg):
                    for k in np.ndindex(ksp):
                        li = [0] * len(su)
                        li[ls[0]], li[ls[1]] = n, g * Cg + c
                        ok = True
                        for d in range(nsp):
                            pos = s[d] * strides[d] + k[d] * rdil[d] - pads[d][0]
                            if pos < 0 or pos % ldil[d] != 0 or pos // ldil[d] >= isp[d]:
                                ok = False
                                break
                            li[ls[2 + d]] = pos // ldil[d]
                        if not ok:
                            continue
                        ri = [0] * len(sv)
                        ri[rs[0]], ri[rs[1]] = o, c
                        for d in range(nsp):
                            ri[rs[2 + d]] = k[d]
                        terms.append((int(Lidx[tuple(li)]), int(Ridx[tuple(ri)]), 1.0))
                oi = [0] * len(oshape)
                oi[os_[0]], oi[os_[1]] = n, o
                for d in range(nsp):
                    oi[os_[2 + d]] = s[d]
                rows[int(np.dot(oi, ostr))] = terms
    return rows, tuple(oshape)


def table_of(inst, out_shape=None):
    """-> (kind, table, out_shape) for one primitive instance; kind in lin | bil | div | re | none (conj)"""
    import jaxpr_ir as ir

    name = inst["name"].split("#")[0]
    cls = inst["cls"]
    avals, dpos = inst["avals"], inst["dpos"]
    if inst.get("nout", 1) != 1:
        raise Unsupported("multi-output")
    shapes = [tuple(avals[i][0]) for i in dpos]
    if cls == ir.LINALL:
        if name == "complex":
            n = int(np.prod(shapes[0]))
            return "lin", [[(0, i, 1.0), (1, i, 1j)] for i in range(n)], shapes[0]
        rows, oshape = rows_of(inst)
        return "lin", rows, oshape
    if cls == ir.BIL:
        if name == "mul":
            U, V, oshape = _bcast_pairs(*shapes)
            return "bil", [[(int(a), int(b), 1.0)] for a, b in zip(U, V)], oshape
        if name == "dot_general":
            rows, oshape = _dot_general_rows(shapes[0], shapes[1], inst["params"]["dimension_numbers"])
            return "bil", rows, oshape
        if name == "conv_general_dilated":
            if out_shape is None:
                raise Unsupported("conv without output shape")
            rows, oshape = _conv_rows(shapes[0], shapes[1], inst["params"], tuple(out_shape))
            return "bil", rows, oshape
        raise Unsupported(name)
    if cls == ir.DIV:
        if name != "div":
            raise Unsupported(name)
        U, V, oshape = _bcast_pairs(*shapes)
        return "div", [(int(a), int(b)) for a, b in zip(U, V)], oshape
    if cls == ir.REAL:
        n = int(np.prod(shapes[0]))
        if name in ("real", "convert_element_type[c->r]"):
            return "re", [[(i, 1.0)] for i in range(n)], shapes[0]
        if name == "imag":
            return "re", [[(i, -1j)] for i in range(n)], shapes[0]
        raise Unsupported(name)
    if cls == ir.CONJ:
        return "none", None, shapes[0]
    raise Unsupported("class " + str(cls))


_CHEAP_LIN = {"add", "add_any", "sub", "neg", "copy", "device_put", "convert_element_type", "copy_p", "slice", "rev", "transpose", "squeeze", "expand_dims",
              "broadcast_in_dim", "concatenate", "pad", "reduce_sum", "cumsum", "select_n", "dynamic_slice", "dynamic_update_slice", "gather", "gather[fill]",
              "scatter-add", "scatter_add", "scatter", "fft", "complex", "scan[ys-stack]", "scan[xs-index]", "pmap[in-slice]", "pmap[out-stack]", "reshape"}


def supported(inst) -> bool:
    """cheap version of "table_of(inst) does not raise Unsupported" (used to classify every translated program)"""
    import jaxpr_ir as ir

    name = inst["name"].split("#")[0]
    cls = inst["cls"]
    if inst.get("nout", 1) != 1 or inst.get("offset") or any(i not in inst["pvals"] for i in inst["ppos"]):
        return False
    if any(np.dtype(inst["avals"][i][1]).kind not in "fc" for i in inst["dpos"]):
        return False
    if cls == ir.LINALL:
        if name == "fft":
            return getattr(inst["params"]["fft_type"], "name", str(inst["params"]["fft_type"])).split(".")[-1] in ("FFT", "IFFT", "RFFT")
        return name in _CHEAP_LIN
    if cls == ir.BIL:
        return name in ("mul", "dot_general") or (name == "conv_general_dilated" and int(inst["params"].get("batch_group_count", 1)) == 1)
    if cls == ir.DIV:
        return name == "div"
    if cls == ir.REAL:
        return name in ("real", "imag", "convert_element_type[c->r]")
    return cls == ir.CONJ


def program_in_family(prog) -> bool:
    """every equation of a program translated with keep=True is a literal or an instance of the proved family"""
    return all(ex[0] == "lit" or supported(ex[1]) for ex in prog.exec)


def _cf(v):
    import common

    v = complex(v)
    return [common.f2b(float(v.real)), common.f2b(float(v.imag))]


def run_program(prog, leaves, model, out_avals):
    """Lean's `run` of the whole program under the family interpretation (driver op `runfam`) on the input leaves
    -> list of complex numpy arrays (one per output leaf).  Raises Unsupported when an equation is outside the family."""
    import common

    tabs, eqns = [], []
    total = [0]
    shapes = {}  # vid -> shape of the value (needed for the output shape of conv)
    for i, l in enumerate(leaves):
        shapes[i] = tuple(np.shape(l))
    for k, ((cls, pname, pids, dids), ex) in enumerate(zip(prog.eqns, prog.exec)):
        vid = prog.nin + k
        if ex[0] == "lit":
            val = np.asarray(ex[1])
            if val.dtype.kind not in "fciub":
                raise Unsupported("opaque literal")
            tabs.append(["lit", [_cf(v) for v in val.ravel()]])
            shapes[vid] = tuple(val.shape)
            eqns.append([cls, k, [], []])
            continue
        inst = ex[1]
        oshape = None
        if inst["name"].split("#")[0] == "conv_general_dilated":
            import jax

            with jax.ensure_compile_time_eval():
                import jax.numpy as jnp

                oshape = jax.eval_shape(lambda a, b: inst["prim"].bind(a, b, **inst["params"]), *[jax.ShapeDtypeStruct(inst["avals"][i][0], inst["avals"][i][1]) for i in inst["dpos"]]).shape
        # size guard before the (Python-level) construction of the table
        est = int(np.prod(oshape)) if oshape is not None else max([int(np.prod(inst["avals"][i][0])) for i in inst["dpos"]] + [1])
        if est > MAX_OUT:
            raise Unsupported("too-large")
        kind, table, osh = table_of(inst, oshape)
        shapes[vid] = tuple(osh)
        total[0] += sum(len(r) for r in table) if kind in ("lin", "bil", "re") else (len(table) if kind == "div" else 0)
        if total[0] > MAX_PROGRAM_TERMS:
            raise Unsupported("too-large")
        if kind == "lin":
            tabs.append(["lin", [[[a, b, _cf(c)] for a, b, c in r] for r in table]])
            eqns.append([cls, k, [], list(dids)])  # parameter operands are baked into the table
        elif kind == "bil":
            tabs.append(["bil", [[[a, b, _cf(c)] for a, b, c in r] for r in table]])
            eqns.append([cls, k, [], list(dids)])
        elif kind == "div":
            tabs.append(["div", [[a, b] for a, b in table]])
            eqns.append([cls, k, [], list(dids)])
        elif kind == "re":
            tabs.append(["re", [[[a, _cf(c)] for a, c in r] for r in table]])
            eqns.append([cls, k, [], list(dids)])
        else:
            tabs.append(["none"])
            eqns.append([cls, k, [], list(dids)])
    sizes = [int(np.prod(s)) for s, _ in out_avals]
    x = [[_cf(v) for v in np.asarray(l).ravel()] for l in leaves]
    res = model.call("runfam", nin=prog.nin, eqns=eqns, outs=list(prog.outs), tabs=tabs, x=x, sizes=sizes)
    outs = []
    for r, (s, _) in zip(res, out_avals):
        a = np.array([complex(common.b2f(t[0]), common.b2f(t[1])) for t in r], dtype=np.complex128).reshape(s)
        outs.append(a)
    return outs


def _conv_out_shape(inst):
    import jax

    return jax.eval_shape(lambda a, b: inst["prim"].bind(a, b, **inst["params"]), *[jax.ShapeDtypeStruct(inst["avals"][i][0], inst["avals"][i][1]) for i in inst["dpos"]]).shape


def compare_any(inst, rng, model):
    """single equation of the bilinear / quotient / real-part / conj classes: JAX primitive == Lean `famDen` (driver op
    `runfam` on a one-equation program) on random dyadic operands.  -> like `compare`"""
    import common
    import jax.numpy as jnp
    import jaxpr_table as tb

    try:
        oshape = _conv_out_shape(inst) if inst["name"].split("#")[0] == "conv_general_dilated" else None
        kind, table, osh = table_of(inst, oshape)
    except Unsupported as e:
        return "unsupported:" + str(e).split(" ")[0], None
    nterms = sum(len(r) for r in table) if kind in ("bil", "re", "lin") else 0
    if int(np.prod(osh)) > MAX_OUT or nterms > MAX_TERMS:
        return "too-large", None
    avals, dpos = inst["avals"], inst["dpos"]
    data = [tb._rand(rng, avals[i][0], avals[i][1], nonzero=(inst["cls"] == "divLike" and k == 1)) for k, i in enumerate(dpos)]
    ops = [None] * len(avals)
    for i, d in zip(dpos, data):
        ops[i] = jnp.asarray(d, dtype=avals[i][1])
    got = np.asarray(tb.bind_instance(inst, ops)[0])
    if kind in ("lin", "bil"):
        tab = [kind, [[[a, b, _cf(c)] for a, b, c in r] for r in table]]
    elif kind == "div":
        tab = ["div", [[a, b] for a, b in table]]
    elif kind == "re":
        tab = ["re", [[[a, _cf(c)] for a, c in r] for r in table]]
    else:
        tab = ["none"]
    n = len(dpos)
    res = model.call("runfam", nin=n, eqns=[[inst["cls"], 0, [], list(range(n))]], outs=[n], tabs=[tab], x=[[_cf(v) for v in np.asarray(d).ravel()] for d in data],
                     sizes=[int(got.size)])
    lean = np.array([complex(common.b2f(t[0]), common.b2f(t[1])) for t in res[0]], dtype=np.complex128)
    ref = np.asarray(got, dtype=np.complex128).ravel()
    if not _agree(lean, ref, got.dtype):
        return "mismatch", {"what": "value", "jax": [repr(complex(v)) for v in ref[:6]], "lean": [repr(complex(v)) for v in lean[:6]]}
    return "ok", None
