"""Problem / policy generators and the real-code runner for C16 (engine StepSize).

A *case* is a JSON-able dict
    {"Q": [[re,im]..] rows or real rows, "b": [...], "c": float, "complex": bool,
     "g": "zero|l1|nonneg|sql2", "gw": float, "x0": [...], "L0": float,
     "policy": {"kind": "base|bb|abb|ls|rls", ...}, "accel": bool, "steps": int}
Complex vectors are stored as [re..., im...] (real view), matrices as the real-view matrix
[[Re Q, -Im Q], [Im Q, Re Q]], so the same data drive the real solver (complex arrays) and the model.
"""

from __future__ import annotations

import math

import numpy as np

import common


# --------------------------------------------------------------------------
# generators


def _sym_int(rng, n, lo=-3, hi=3):
    A = rng.integers(lo, hi + 1, size=(n, n)).astype(np.float64)
    return (A + A.T) / 2.0


def gen_problem(rng, flavour=None):
    """structured mostly-valid stream: quadratics with prescribed curvature"""
    flavours = ["diag-pos", "diag-indef", "dense-sym", "dense-psd", "zero-curv", "neg-def", "complex-herm", "complex-diag", "complex-rv"]
    fl = flavour or flavours[int(rng.integers(0, len(flavours)))]
    n = int(rng.integers(1, 5))
    if fl == "complex-rv":
        # a real-valued quadratic of a complex variable that is NOT of the form x^H Q x: any symmetric matrix in the real view
        # (e.g. 1/2 x^H Q x + 1/2 Re(x^T S x)).  The gradient difference is then only R-linear in dx, so sum(conj(dx)*dg) has a
        # non-zero imaginary part: "real part of the inner product" is exercised non-trivially.
        n = int(rng.integers(1, 4))
        A = rng.integers(-3, 4, size=(2 * n, 2 * n)).astype(np.float64)
        Qr = (A + A.T) / 2.0 + (2.0 * np.eye(2 * n) if rng.integers(0, 2) else 0.0)
        br = common.dyadic(rng, (2 * n,), bits=3, scale=3.0)
        xr = common.dyadic(rng, (2 * n,), bits=3, scale=2.0)
        return {"Q": Qr.tolist(), "b": br.tolist(), "c": float(common.dyadic(rng, (), bits=2, scale=2.0)), "complex": True,
                "g": ["zero", "sql2"][int(rng.integers(0, 2))], "gw": float(rng.integers(1, 9)) / 8.0, "x0": xr.tolist(),
                "L0": float([0.5, 1.0, 2.0, 4.0, 8.0][int(rng.integers(0, 5))]), "flavour": fl, "realview_loss": True}
    cplx = fl.startswith("complex")
    if fl == "diag-pos":
        Q = np.diag(rng.integers(1, 9, size=n) / 2.0)
    elif fl == "diag-indef":
        Q = np.diag(rng.integers(-6, 7, size=n) / 2.0)
    elif fl == "dense-sym":
        Q = _sym_int(rng, n)
    elif fl == "dense-psd":
        A = rng.integers(-2, 3, size=(n + 1, n)).astype(np.float64)
        Q = A.T @ A / 2.0
    elif fl == "zero-curv":
        Q = np.zeros((n, n))
    elif fl == "neg-def":
        Q = -np.diag(rng.integers(1, 6, size=n) / 2.0)
    elif fl == "complex-diag":
        Q = np.diag(rng.integers(-4, 7, size=n) / 2.0).astype(np.complex128)
    else:  # complex-herm
        A = rng.integers(-2, 3, size=(n, n)) + 1j * rng.integers(-2, 3, size=(n, n))
        Q = (A + A.conj().T) / 2.0
    if cplx:
        b = common.dyadic(rng, (n,), bits=3, scale=3.0) + 1j * common.dyadic(rng, (n,), bits=3, scale=3.0)
        x0 = common.dyadic(rng, (n,), bits=3, scale=2.0) + 1j * common.dyadic(rng, (n,), bits=3, scale=2.0)
        g = ["zero", "sql2"][int(rng.integers(0, 2))]
    else:
        b = common.dyadic(rng, (n,), bits=3, scale=3.0)
        x0 = common.dyadic(rng, (n,), bits=3, scale=2.0)
        g = ["zero", "l1", "nonneg", "sql2"][int(rng.integers(0, 4))]
    if rng.integers(0, 6) == 0:
        b = b * 0
    if rng.integers(0, 6) == 0:
        x0 = x0 * 0
    gw = float(rng.integers(1, 9)) / 8.0
    L0 = float([0.25, 0.5, 1.0, 2.0, 3.0, 4.0, 8.0, 0.125][int(rng.integers(0, 8))])
    c = float(common.dyadic(rng, (), bits=2, scale=2.0))
    return pack_problem(Q, b, c, g, gw, x0, L0, cplx, fl)


def pack_problem(Q, b, c, g, gw, x0, L0, cplx, flavour="crafted"):
    Q = np.asarray(Q)
    b = np.asarray(b)
    x0 = np.asarray(x0)
    if cplx:
        Qr = np.block([[Q.real, -Q.imag], [Q.imag, Q.real]])
        br = np.concatenate([b.real, b.imag])
        xr = np.concatenate([x0.real, x0.imag])
    else:
        Qr, br, xr = Q.astype(np.float64), b.astype(np.float64), x0.astype(np.float64)
    return {
        "Q": Qr.tolist(),
        "b": br.tolist(),
        "c": float(c),
        "complex": bool(cplx),
        "g": g,
        "gw": float(gw),
        "x0": xr.tolist(),
        "L0": float(L0),
        "flavour": flavour,
    }


def gen_barrier_problem(rng):
    """domain-restricted loss: f(x) = 1/2 x'Qx + b'x + c - w*sum(log x), defined for x > 0 only (NaN outside).  A small L0
    makes the first candidates leave the domain: f(z) = NaN is never accepted, the searches must backtrack; the other
    policies may step outside and then see NaN inner products (fall back)."""
    n = int(rng.integers(1, 4))
    Q = np.diag(rng.integers(0, 7, size=n) / 2.0)
    b = common.dyadic(rng, (n,), bits=3, scale=3.0)
    x0 = (rng.integers(1, 9, size=n) / 4.0).astype(np.float64)
    g = ["zero", "zero", "l1"][int(rng.integers(0, 3))]
    p = pack_problem(Q, b, 0.0, g, float(rng.integers(1, 5)) / 8.0, x0, float([0.125, 0.25, 0.5, 1.0, 4.0][int(rng.integers(0, 5))]), False, "log-barrier")
    p["barrier"] = float([0.5, 1.0, 2.0][int(rng.integers(0, 3))])
    return p


def scaled_case(case, k):
    """the same problem with the loss multiplied by 2^k (Q, b, c), L0 by 2^k and the weight of g by 2^k: exact in
    binary arithmetic, every iterate is unchanged and every L, remembered ratio, f-value is multiplied by 2^k
    (T_k of the robust search by 2^-k) — the policies must be scale-equivariant, no L is too small or too large"""
    f = float(2.0 ** k)
    c = dict(case)
    c["Q"] = (np.asarray(case["Q"], dtype=np.float64) * f).tolist()
    c["b"] = (np.asarray(case["b"], dtype=np.float64) * f).tolist()
    c["c"] = float(case["c"] * f)
    c["L0"] = float(case["L0"] * f)
    if case["g"] in ("l1", "sql2"):
        c["gw"] = float(case["gw"] * f)
    if case.get("barrier"):
        c["barrier"] = float(case["barrier"] * f)
    c["scale_k"] = int(k) + int(case.get("scale_k", 0))
    return c


def gen_policy(rng, kind=None):
    kinds = ["base", "bb", "abb", "ls", "rls"]
    k = kind or kinds[int(rng.integers(0, 5))]
    if k == "abb":
        return {"kind": k, "kappa": float([0.25, 0.5, 0.75, 0.0, 1.0, 0.9][int(rng.integers(0, 6))])}
    if k == "ls":
        return {
            "kind": k,
            "gu": float([1.25, 1.5, 2.0, 4.0, 1.2][int(rng.integers(0, 5))]),
            "maxiter": int([0, 1, 2, 3, 5, 50, 50][int(rng.integers(0, 7))]),
        }
    if k == "rls":
        return {
            "kind": k,
            "gd": float([0.5, 0.75, 0.9, 0.25, 1.0][int(rng.integers(0, 5))]),
            "gu": float([1.5, 2.0, 4.0, 1.25][int(rng.integers(0, 4))]),
            "maxiter": int([0, 1, 2, 3, 5, 50, 50][int(rng.integers(0, 7))]),
        }
    return {"kind": k}


def crafted_cases():
    """boundary stream: the branches a random problem does not reach"""
    out = []
    Z2 = np.zeros(2)
    # orthogonal dx, dg with dg != 0: Q = diag(1,-1), steps along (1,1)
    for kind in ("bb", "abb"):
        for accel in (False, True):
            p = pack_problem(np.diag([1.0, -1.0]), [-1.0, -1.0], 0.0, "zero", 1.0, Z2, 1.0, False, "orthogonal")
            out.append({**p, "policy": {"kind": kind, "kappa": 0.5} if kind == "abb" else {"kind": kind}, "accel": accel, "steps": 5})
    # repeated iterates: stationary start (grad = 0)
    for kind in ("bb", "abb", "ls", "rls"):
        for accel in (False, True):
            p = pack_problem(np.diag([2.0, 1.0]), Z2, 0.0, "zero", 1.0, Z2, 2.0, False, "stationary")
            pol = {"bb": {"kind": "bb"}, "abb": {"kind": "abb", "kappa": 0.5}, "ls": {"kind": "ls", "gu": 2.0, "maxiter": 3},
                   "rls": {"kind": "rls", "gd": 0.5, "gu": 2.0, "maxiter": 3}}[kind]
            out.append({**p, "policy": pol, "accel": accel, "steps": 4})
    # negative curvature, BB ratios negative
    for kind in ("bb", "abb"):
        p = pack_problem(-np.eye(2), [1.0, 0.5], 0.0, "zero", 1.0, [0.5, 0.25], 2.0, False, "negative")
        out.append({**p, "policy": {"kind": kind, "kappa": 0.5} if kind == "abb" else {"kind": kind}, "accel": False, "steps": 5})
    # adaptive BB: memory used after a good step (curvature 2 then orthogonal direction impossible for diag; use indef)
    p = pack_problem(np.diag([4.0, -1.0, 1.0]), [1.0, 0.0, -2.0], 0.0, "zero", 1.0, [1.0, 1.0, 0.0], 4.0, False, "abb-memory")
    for kappa in (0.25, 0.5, 0.9):
        out.append({**p, "policy": {"kind": "abb", "kappa": kappa}, "accel": False, "steps": 8})
    # adaptive BB: a usable step (memory filled) followed by an orthogonal one (xg = 0 < gg exactly)
    for accel in (False, True):
        p = pack_problem(np.diag([-2.0, 2.0]), [-1.0, 3.0], 0.0, "zero", 1.0, Z2, 1.0, False, "abb-orthogonal-after-memory")
        out.append({**p, "policy": {"kind": "abb", "kappa": 0.5}, "accel": accel, "steps": 5})
    # fall-back followed by usable steps: curvature of mixed sign, real and complex, PGM and accelerated PGM
    for kind in ("bb", "abb"):
        for accel in (False, True):
            for cplx in (False, True):
                Qm = np.diag([3.0, -1.0]).astype(complex if cplx else float)
                bb_ = np.array([1.0 + 0.5j, -2.0 + 1j]) if cplx else np.array([1.0, -2.0])
                x0_ = np.array([0.5 - 1j, 0.25 + 0j]) if cplx else np.array([0.5, 0.25])
                p = pack_problem(Qm, bb_, 0.0, "zero", 1.0, x0_, 4.0, cplx, "fallback-then-usable")
                out.append({**p, "policy": {"kind": kind, "kappa": 0.5} if kind == "abb" else {"kind": kind}, "accel": accel, "steps": 9})
    # line search: budget exhausted (curvature 64 from L0 = 1 with gamma 2 needs 7 trials)
    for kind in ("ls", "rls"):
        for accel in (False, True):
            for maxiter in (1, 2, 3, 7, 8):
                p = pack_problem(np.diag([64.0, 1.0]), [1.0, 1.0], 0.0, "zero", 1.0, [1.0, -1.0], 1.0, False, "budget")
                pol = {"kind": "ls", "gu": 2.0, "maxiter": maxiter} if kind == "ls" else {"kind": "rls", "gd": 0.5, "gu": 2.0, "maxiter": maxiter}
                out.append({**p, "policy": pol, "accel": accel, "steps": 3})
    # exact tie in the acceptance test: f(z) == f_quad exactly when Q = L I (all values dyadic)
    for kind in ("ls", "rls"):
        p = pack_problem(2.0 * np.eye(2), [1.0, -1.0], 0.0, "zero", 1.0, [1.0, 0.5], 2.0 if kind == "ls" else 4.0, False, "tie")
        pol = {"kind": "ls", "gu": 2.0, "maxiter": 4} if kind == "ls" else {"kind": "rls", "gd": 0.5, "gu": 2.0, "maxiter": 4}
        out.append({**p, "policy": pol, "accel": kind == "rls", "steps": 3})
    # complex data, orthogonal differences
    p = pack_problem(np.diag([1.0, -1.0]).astype(complex), np.array([-1.0 - 1j, -1.0 - 1j]), 0.0, "zero", 1.0,
                     np.zeros(2, complex), 1.0, True, "complex-orthogonal")
    out.append({**p, "policy": {"kind": "bb"}, "accel": False, "steps": 4})
    # zero (and negative) budget
    for kind in ("ls", "rls"):
        for mi in (0, -1):
            p = pack_problem(np.eye(2), [1.0, 1.0], 0.0, "zero", 1.0, [1.0, -1.0], 1.0, False, "maxiter0")
            pol = {"kind": "ls", "gu": 2.0, "maxiter": mi} if kind == "ls" else {"kind": "rls", "gd": 0.5, "gu": 2.0, "maxiter": mi}
            out.append({**p, "policy": pol, "accel": kind == "rls", "steps": 2})
    return out


# --------------------------------------------------------------------------
# the real solver


def unpack(case):
    """real-view lists -> numpy arrays in the dtype the solver sees"""
    Qr = np.asarray(case["Q"], dtype=np.float64)
    br = np.asarray(case["b"], dtype=np.float64)
    xr = np.asarray(case["x0"], dtype=np.float64)
    if case["complex"]:
        n = len(br) // 2
        Q = Qr[:n, :n] + 1j * Qr[n:, :n]
        b = br[:n] + 1j * br[n:]
        x0 = xr[:n] + 1j * xr[n:]
        return Q, b, x0
    return Qr, br, xr


def realview(a, cplx):
    a = np.asarray(a)
    if cplx:
        return np.concatenate([a.real, a.imag]).astype(np.float64)
    return a.astype(np.float64)


_QUAD = {}


def quad_class():
    """smooth loss f(x) = 1/2 Re(x^H Q x) + Re(b^H x) + c as a scico Functional (gradient by scico.grad)"""
    if "cls" in _QUAD:
        return _QUAD["cls"]
    import scico.numpy as snp
    from scico import functional

    class Quad(functional.Functional):
        has_eval = True
        has_prox = False

        def __init__(self, Q, b, c, w=0.0):
            self.Q = snp.array(Q)
            self.b = snp.array(b)
            self.c = c
            self.w = w  # weight of the logarithmic barrier -w*sum(log x): f is NaN outside x > 0 (domain-restricted loss)
            super().__init__()

        def __call__(self, x):
            val = 0.5 * snp.real(snp.sum(x.conj() * (self.Q @ x))) + snp.real(snp.sum(self.b.conj() * x)) + self.c
            if self.w:
                val = val - self.w * snp.sum(snp.log(x))
            return val

    class QuadRV(functional.Functional):
        """f(x) = 1/2 r'Qr r + br'r + c with r = (Re x, Im x): a general real quadratic of a complex variable"""

        has_eval = True
        has_prox = False

        def __init__(self, Qr, br, c):
            self.Qr = snp.array(Qr)
            self.br = snp.array(br)
            self.c = c
            super().__init__()

        def __call__(self, x):
            r = snp.concatenate([snp.real(x), snp.imag(x)])
            return 0.5 * snp.sum(r * (self.Qr @ r)) + snp.sum(self.br * r) + self.c

    _QUAD["cls"] = Quad
    _QUAD["rv"] = QuadRV
    return Quad


def make_policy(pol):
    from scico.optimize.pgm import AdaptiveBBStepSize, BBStepSize, LineSearchStepSize, PGMStepSize, RobustLineSearchStepSize

    k = pol["kind"]
    if k == "base":
        return PGMStepSize()
    if k == "bb":
        return BBStepSize()
    if k == "abb":
        return AdaptiveBBStepSize(kappa=pol["kappa"])
    if k == "ls":
        return LineSearchStepSize(gamma_u=pol["gu"], maxiter=pol["maxiter"])
    if k == "rls":
        return RobustLineSearchStepSize(gamma_d=pol["gd"], gamma_u=pol["gu"], maxiter=pol["maxiter"])
    raise common.Infra(f"unknown policy {k}")


def make_g(case):
    from scico import functional

    g, w = case["g"], case["gw"]
    if g == "zero":
        return functional.ZeroFunctional()
    if g == "l1":
        return w * functional.L1Norm()
    if g == "nonneg":
        return functional.NonNegativeIndicator()
    if g == "sql2":
        return w * functional.SquaredL2Norm()
    raise common.Infra(f"unknown g {g}")


def make_solver(case, pol=None):
    """`pol`: an existing policy object to attach (re-use of a step-size object by a second optimizer)"""
    import scico.numpy as snp
    from scico.optimize import PGM, AcceleratedPGM

    Q, b, x0 = unpack(case)
    f = quad_class()(Q, b, case["c"], float(case.get("barrier", 0.0)))
    if case.get("realview_loss"):
        f = _QUAD["rv"](np.asarray(case["Q"], dtype=np.float64), np.asarray(case["b"], dtype=np.float64), case["c"])
    cls = AcceleratedPGM if case["accel"] else PGM
    if pol is None:
        pol = make_policy(case["policy"])
    s = cls(f=f, g=make_g(case), L0=case["L0"], x0=snp.array(x0), step_size=pol, maxiter=case["steps"])
    return s, pol


def _fl(v):
    return float(np.asarray(v))


def run_real(case, pol=None):
    """Drive the real solver step by step.  Returns a list of per-step records

        {"Lprev", "L", "x", "xprev_iter", "point", "ips": (xx,xg,gg)|None, "mem": (m1,m2), "first": bool,
         "tests": [{"L","fz","fq","z","y"}], "Z", "raised": kind|None, "v", "t"}

    Everything is observed through public attributes / by wrapping bound methods of the objects
    (no change to scico)."""
    import scico.numpy as snp

    s, pol = make_solver(case, pol)
    cplx = case["complex"]
    kind = case["policy"]["kind"]
    recs = []
    cur = {}
    shadow = {"prev": None}

    orig_update = pol.update
    orig_fq = s.f_quad_approx

    def fq_wrap(z, y, L):
        val = orig_fq(z, y, L)
        cur["tests"].append({"L": _fl(L), "fz": _fl(s.f(z)), "fq": _fl(val), "z": realview(z, cplx), "y": realview(y, cplx)})
        return val

    def upd_wrap(v):
        if v is s.x and (not case["accel"] or v is not s.v):
            cur["point"] = "x"
        elif case["accel"] and v is s.v and v is not s.x:
            cur["point"] = "v"
        elif case["accel"] and v is s.v and v is s.x:
            cur["point"] = "x=v"
        else:
            cur["point"] = "?"
        cur["arg"] = realview(v, cplx)
        if kind in ("bb", "abb"):
            # the documented memory is kept by the harness itself (argument and gradient of the previous *call*),
            # never read back from the policy object: Δx = x_k - x_{k-1}, Δg = ∇f(x_k) - ∇f(x_{k-1})
            gv = s.f.grad(v)
            cur["first"] = shadow["prev"] is None
            cur["policy_first"] = pol.xprev is None
            if shadow["prev"] is not None:
                xp, gp = shadow["prev"]
                dx = v - xp
                dg = gv - gp
                cur["ips"] = (
                    _fl(snp.real(snp.sum(dx.conj() * dx))),
                    _fl(snp.real(snp.sum(dx.conj() * dg))),
                    _fl(snp.real(snp.sum(dg.conj() * dg))),
                )
                cur["dx"], cur["dg"] = realview(dx, cplx), realview(dg, cplx)
            if kind == "abb":
                cur["mem"] = (
                    None if pol.Lbb1prev is None else _fl(pol.Lbb1prev),
                    None if pol.Lbb2prev is None else _fl(pol.Lbb2prev),
                )
            out = orig_update(v)
            # what the policy remembers after the call must be (v, ∇f(v))
            cur["stored_ok"] = bool(
                pol.xprev is not None
                and np.array_equal(np.asarray(pol.xprev), np.asarray(v), equal_nan=True)
                and np.allclose(np.asarray(pol.gradprev), np.asarray(gv), rtol=1e-12, atol=0, equal_nan=True)
            )
            shadow["prev"] = (v, gv)
            return out
        return orig_update(v)

    pol.update = upd_wrap
    s.f_quad_approx = fq_wrap
    for _ in range(case["steps"]):
        cur = {"tests": [], "ips": None, "mem": (None, None), "first": False, "point": None}
        cur["Lprev"] = _fl(s.L)
        cur["x_before"] = realview(s.x, cplx)
        if case["accel"]:
            cur["v_before"] = realview(s.v, cplx)
        try:
            s.step()
            cur["raised"] = None
        except Exception as e:  # noqa: BLE001
            cur["raised"] = common.err_kind(e)
            cur["raised_type"] = type(e).__name__
            recs.append(cur)
            break
        cur["L"] = _fl(s.L)
        cur["x"] = realview(s.x, cplx)
        cur["res"] = _fl(s.fixed_point_residual)
        if case["accel"]:
            cur["v"] = realview(s.v, cplx)
            cur["t"] = _fl(s.t)
        if kind == "rls":
            cur["Z"] = realview(pol.Z, cplx)
            cur["Tk"] = _fl(pol.Tk)
        if kind == "abb":
            cur["mem_after"] = (
                None if pol.Lbb1prev is None else _fl(pol.Lbb1prev),
                None if pol.Lbb2prev is None else _fl(pol.Lbb2prev),
            )
        recs.append(cur)
    return recs


# --------------------------------------------------------------------------
# numpy reference of the problem (for the property oracle)


def np_problem(case):
    Q = np.asarray(case["Q"], dtype=np.float64)
    b = np.asarray(case["b"], dtype=np.float64)
    c = case["c"]

    w = float(case.get("barrier", 0.0))

    def f(x):
        val = 0.5 * x @ (Q @ x) + b @ x + c
        if w:
            with np.errstate(all="ignore"):
                val = val - w * float(np.sum(np.log(x)))
        return val

    def grad(x):
        if w:
            with np.errstate(all="ignore"):
                return Q @ x + b - w / x
        return Q @ x + b

    def prox(v, lam):
        g, w = case["g"], case["gw"]
        if g == "l1":
            return np.sign(v) * np.maximum(np.abs(v) - lam * w, 0.0)
        if g == "nonneg":
            return np.maximum(v, 0.0)
        if g == "sql2":
            return v / (1.0 + 2.0 * lam * w)
        return v

    return f, grad, prox


def np_magnitude(case):
    """size of the terms of f(x) (for tolerances relative to the data, f-values may cancel)"""
    Qa = np.abs(np.asarray(case["Q"], dtype=np.float64))
    ba = np.abs(np.asarray(case["b"], dtype=np.float64))
    ca = abs(case["c"])

    w = abs(float(case.get("barrier", 0.0)))

    def fmag(x):
        xa = np.abs(x)
        m = float(0.5 * xa @ (Qa @ xa) + ba @ xa + ca)
        if w:
            with np.errstate(all="ignore"):
                m += w * float(np.nansum(np.abs(np.log(xa + 1e-300))))
        return m

    return fmag


def finite_pos(L):
    return math.isfinite(L) and L > 0
