"""Driver engine (property C15): running call histories on REAL scico optimiser objects with a fake clock.

* `FakeClock`      - integer tick clock installed in place of `scico.util.timer`
* `build(spec)`    - a tiny optimisation problem (sizes 2-4) for each optimiser class from a JSON-able spec,
                     with NaN/Inf injected at a chosen iteration / variable / block through a crafted functional
* `twin_tables`    - reference trajectory: an identical object driven by raw `step()` calls only; after each step
                     the finiteness of every entry of every working variable, the public accessor values and the
                     minimiser are recorded (independently of `solve`, `_working_vars_finite` and the statistics code)
* `run_history`    - executes a history of solve(callback)/step()/tick operations on the object under test
* `run_timer`      - executes a history of Timer calls on `scico.util.Timer`

Nothing here imports scico at module import time.
"""

from __future__ import annotations

import contextlib
import io
import math

import numpy as np

CLASSES = ["admm", "ladmm", "padmm", "nlpadmm", "pdhg", "pgm", "apgm"]


class FakeClock:
    """integer clock; reading it costs nothing, `advance` is called by the wrapped step()/callback"""

    def __init__(self, now=0):
        self.now = int(now)
        self.reads = 0

    def read(self):
        self.reads += 1
        return self.now

    def advance(self, d):
        assert d >= 0
        self.now += int(d)


@contextlib.contextmanager
def installed(clock):
    """monkeypatch the name `timer` used inside scico.util (the only place scico reads a clock for Timer)"""
    import scico.util as su

    old = su.timer
    su.timer = clock.read
    try:
        yield clock
    finally:
        su.timer = old


# --------------------------------------------------------------------------------------------------
# crafted functionals


def _mk_crafty():
    import scico.numpy as snp
    from scico import functional
    from scico.numpy import BlockArray
    from scico.optimize.pgm import PGMStepSize

    class Crafty(functional.Functional):
        """0.5||x||^2 with prox v/(1+lam); the `nan_at`-th prox call (counted in Python) puts `val` at
        entry `pos=(block, index)`.  In `signal` mode (jitted callers: PGM) the injection is triggered by
        the value of `lam` instead (exact comparison with a step size the crafted step-size policy emits
        at the chosen call)."""

        has_eval = True
        has_prox = True

        def __init__(self, nan_at=None, pos=(0, 0), val=math.nan, sanitise=False, signal=None, has_eval=True):
            self.calls = 0
            self.nan_at = nan_at
            self.pos = tuple(pos)
            self.val = val
            self.sanitise = sanitise
            self.signal = signal
            self.has_eval = has_eval

        def __call__(self, x):
            if isinstance(x, BlockArray):
                return sum(0.5 * snp.sum(b * b) for b in x)
            return 0.5 * snp.sum(x * x)

        def prox(self, v, lam=1.0, **kwargs):
            self.calls += 1

            def f(a):
                if self.sanitise:
                    a = snp.where(snp.isfinite(a), a, 0.0)
                return a / (1.0 + lam)

            blocks = [f(b) for b in v] if isinstance(v, BlockArray) else [f(v)]
            b, i = self.pos
            if self.signal is not None:
                mask = lam == self.signal
                blocks[b] = blocks[b].at[i].set(snp.where(mask, self.val, blocks[b][i]))
            elif self.nan_at is not None and self.calls == self.nan_at:
                blocks[b] = blocks[b].at[i].set(self.val)
            return snp.blockarray(blocks) if isinstance(v, BlockArray) else blocks[0]

    class SignalStep(PGMStepSize):
        """fixed step size L0, except 2*L0 at the `at`-th update (the signal Crafty reacts to)"""

        def __init__(self, L0, at):
            self.L0 = L0
            self.at = at
            self.calls = 0

        def update(self, v):
            self.calls += 1
            return self.L0 * 2 if (self.at is not None and self.calls == self.at) else self.L0

    return Crafty, SignalStep


def functional_flags(spec):
    """(f given, f.has_eval, [g.has_eval ...]) of the problem `build` constructs"""
    he, he2 = bool(spec.get("has_eval", True)), bool(spec.get("has_eval2", True))
    c = spec["cls"]
    if c == "admm":
        return True, True, [he, he2]  # f is a loss; g_list = [crafted g, crafted f]
    if c in ("pgm", "apgm"):
        return True, True, [he]  # f is a loss, g crafted
    return True, he, [he2]


def objective_evaluable(spec):
    """documented: the objective column exists iff every functional of the problem can be evaluated"""
    fg, fh, gs = functional_flags(spec)
    return ((not fg) or fh) and all(gs)


def n_default_fields(spec):
    """number of statistics columns the class produces by default (Iter, Time, [Objective], class columns)"""
    c = spec["cls"]
    n = 2 + (1 if objective_evaluable(spec) else 0) + 2
    if c == "admm":
        n += {"generic": 2, "linearScicoCG": 2, "checked": 1}.get(spec.get("solver", "linearScicoCG"), 0)
    return n


def build(spec, _opts=None, **extra_kwargs):
    """construct the optimiser described by `spec` (fresh functionals, so call counters start at 0).

    spec keys: cls, n (size), block (bool: block-array variables), solver (admm only),
    nan: None | {"at": k>=1, "who": "f"|"g", "pos": [block, index], "val": "nan"|"inf"|"-inf", "sanitise": bool},
    has_eval (bool), kwargs (dict of Optimizer keyword arguments, itstat_options by name)."""
    import scico.numpy as snp
    from scico import function, linop, loss, optimize

    Crafty, SignalStep = _mk_crafty()
    cls, n, block = spec["cls"], int(spec["n"]), bool(spec["block"])
    nan = spec.get("nan")
    f64 = np.float64
    # "big": a FINITE value whose square overflows (no NaN stop may be triggered by it)
    val = {"nan": math.nan, "inf": math.inf, "-inf": -math.inf, "big": 1e200, "-big": -3e250}[nan["val"]] if nan else math.nan

    def crafted(who, **kw):
        if nan and nan["who"] == who:
            return Crafty(nan_at=nan["at"], pos=nan["pos"], val=val, sanitise=nan.get("sanitise", False), **kw)
        return Crafty(**kw)

    kwargs = dict(spec.get("kwargs", {}))
    io_name = kwargs.pop("itstat_options", None)
    if io_name is not None:
        # `_opts`: the caller's own options object (the same object may be handed to several optimisers)
        kwargs["itstat_options"] = _opts if _opts is not None else itstat_options(io_name, spec)
    kwargs.update(extra_kwargs)

    y = snp.array(np.arange(1, n + 1, dtype=f64) / 4.0)
    I = linop.Identity((n,), input_dtype=f64)
    bshape = ((2,), (n,))
    Ib = linop.Identity(bshape, input_dtype=f64)
    Cb = linop.VerticalStack((I, 2.0 * I), collapse_output=False)  # plain -> block array
    x0 = snp.zeros((n,), dtype=f64)
    x0b = snp.blockarray([np.zeros(2), np.zeros(n)])
    yb = snp.blockarray([np.ones(2) / 2.0, np.arange(n, dtype=f64) / 4.0])
    he = bool(spec.get("has_eval", True))
    he2 = bool(spec.get("has_eval2", True))

    if cls == "admm":
        solver = spec.get("solver", "linearScicoCG")
        M = linop.MatrixOperator(np.eye(n) + 0.25 * np.eye(n, k=1), input_cols=0)
        if solver == "generic":
            f, sp = loss.SquaredL2Loss(y=y, A=I), None
        elif solver == "linearScicoCG":
            f, sp = loss.SquaredL2Loss(y=y, A=I), optimize.admm.LinearSubproblemSolver(cg_kwargs={"maxiter": 4})
        elif solver == "linearOther":
            f = loss.SquaredL2Loss(y=y, A=I)
            sp = optimize.admm.LinearSubproblemSolver(cg_kwargs={"maxiter": 4}, cg_function="jax")
        elif solver == "checked":
            f, sp = loss.SquaredL2Loss(y=y, A=M), optimize.admm.MatrixSubproblemSolver(check_solve=True)
        else:  # "other": matrix solver without check
            f, sp = loss.SquaredL2Loss(y=y, A=M), optimize.admm.MatrixSubproblemSolver(check_solve=False)
        # two splittings: the first plain or block, the second plain
        C1 = Cb if block else I
        return optimize.ADMM(
            f=f,
            g_list=[crafted("g", has_eval=he), crafted("f", has_eval=he2)],
            C_list=[C1, I],
            rho_list=[1.0, 2.0],
            x0=x0,
            subproblem_solver=sp,
            **kwargs,
        )
    if cls == "ladmm":
        if block:
            return optimize.LinearizedADMM(f=crafted("f", has_eval=he), g=crafted("g", has_eval=he2), C=Cb, mu=0.125, nu=0.5, x0=x0, **kwargs)
        return optimize.LinearizedADMM(f=crafted("f", has_eval=he), g=crafted("g", has_eval=he2), C=I, mu=0.25, nu=0.5, x0=x0, **kwargs)
    if cls == "padmm":
        A = Ib if block else I
        return optimize.ProximalADMM(f=crafted("f", has_eval=he), g=crafted("g", has_eval=he2), A=A, rho=1.0, mu=0.5, nu=0.5, **kwargs)
    if cls == "nlpadmm":
        H = function.Function(
            ((n,), (n,)), output_shape=(n,), eval_fn=lambda x, z: x - z, input_dtypes=f64, output_dtype=f64
        )
        return optimize.NonLinearPADMM(f=crafted("f", has_eval=he), g=crafted("g", has_eval=he2), H=H, rho=1.0, mu=0.5, nu=0.5, **kwargs)
    if cls == "pdhg":
        if block:
            return optimize.PDHG(f=crafted("f", has_eval=he), g=crafted("g", has_eval=he2), C=Cb, tau=0.25, sigma=0.25, x0=x0, **kwargs)
        return optimize.PDHG(f=crafted("f", has_eval=he), g=crafted("g", has_eval=he2), C=I, tau=0.25, sigma=0.25, x0=x0, **kwargs)
    if cls in ("pgm", "apgm"):
        L0 = 2.0
        at = nan["at"] if nan else None
        g = Crafty(signal=1.0 / (2 * L0), pos=nan["pos"], val=val, sanitise=nan.get("sanitise", False), has_eval=he) if nan else Crafty(has_eval=he)
        f = loss.SquaredL2Loss(y=yb, A=Ib) if block else loss.SquaredL2Loss(y=y, A=I)
        K = optimize.PGM if cls == "pgm" else optimize.AcceleratedPGM
        return K(f=f, g=g, L0=L0, x0=(x0b if block else x0), step_size=SignalStep(L0, at), **kwargs)
    raise ValueError(cls)


def display_opts(name):
    """the display-related options a named `itstat_options` amounts to (defaults of IterationStats otherwise)"""
    d = {"display": False, "period": 1, "shift_cycles": True, "overwrite": True}
    if name is None:
        return d
    o = itstat_options(name)
    for k in d:
        if k in o:
            d[k] = o[k]
    return d


def itstat_options(name, spec=None):
    """named statistics options (JSON-able reference to a dict that may hold a function)"""
    if name == "custom-same":
        # custom columns AND custom function, with as many columns as the class has by default (so that a
        # default function used by mistake fits the record type and goes unnoticed by the constructor)
        n = n_default_fields(spec) if spec is not None else 3
        fields = {"Iter": "%d", "Time": "%8.2e", "Row": "%d"}
        for q in range(3, n):
            fields[f"P{q}"] = "%8.2e"
        return {
            "fields": fields,
            "itstat_func": lambda obj: (obj.itnum, obj.timer.elapsed(), len(obj.itstat_object.iterations)) + tuple(-float(q) for q in range(3, n)),
            "display": False,
        }
    if name.startswith("disp:"):  # disp:<period>:<shift_cycles 0/1>:<overwrite 0/1>
        _, p, sh, ov = name.split(":")
        return {"display": True, "period": int(p), "shift_cycles": bool(int(sh)), "overwrite": bool(int(ov))}
    if name == "display":
        return {"display": True, "period": 2, "overwrite": False}
    if name == "display-overwrite":
        return {"display": True, "period": 3, "overwrite": True, "shift_cycles": False}
    if name == "nodisplay":
        return {"display": False}
    if name == "custom":
        return {
            "fields": {"Iter": "%d", "Time": "%8.2e", "Row": "%d"},
            "itstat_func": lambda obj: (obj.itnum, obj.timer.elapsed(), len(obj.itstat_object.iterations)),
        }
    raise ValueError(name)


# --------------------------------------------------------------------------------------------------
# documented interface of the classes (written from the class docstrings, not read from the code under test)


def working_vars(spec, s):
    """the solver working variables of each class (class documentation: `Attributes`)"""
    c = spec["cls"]
    if c == "admm":
        return [s.x] + list(s.z_list) + list(s.u_list)
    if c in ("ladmm", "padmm", "nlpadmm"):
        return [s.x, s.z, s.u]
    if c == "pdhg":
        return [s.x, s.z]
    if c == "pgm":
        return [s.x]
    if c == "apgm":
        return [s.x, s.v]
    raise ValueError(c)


def accessor_values(spec, s):
    """(column name, value) of every statistics column other than Iter/Time, through the public accessors"""
    c = spec["cls"]
    out = []
    if objective_evaluable(spec):
        out.append(("Objective", s.objective()))
    if c in ("pgm", "apgm"):
        out += [("L", s.L), ("Residual", s.norm_residual())]
    else:
        out += [("Prml Rsdl", s.norm_primal_residual()), ("Dual Rsdl", s.norm_dual_residual())]
    if c == "admm":
        sv = spec.get("solver", "linearScicoCG")
        if sv == "generic":
            out += [("Num FEv", s.subproblem_solver.info["nfev"]), ("Num It", s.subproblem_solver.info["nit"])]
        elif sv == "linearScicoCG":
            out += [("CG It", s.subproblem_solver.info["num_iter"]), ("CG Res", s.subproblem_solver.info["rel_res"])]
        elif sv == "checked":
            out += [("Slv Res", s.subproblem_solver.accuracy)]
    return out


def fin_struct(v):
    """finiteness of every entry: {"p": [...]} for an array, {"b": [[...], ...]} for a block array"""
    from scico.numpy import BlockArray

    if isinstance(v, BlockArray):
        return {"b": [np.isfinite(np.asarray(b)).ravel().tolist() for b in v]}
    return {"p": np.isfinite(np.asarray(v)).ravel().tolist()}


def flat(v):
    from scico.numpy import BlockArray

    if isinstance(v, BlockArray):
        return [np.asarray(b, dtype=np.float64).ravel().tolist() for b in v]
    return [np.asarray(v, dtype=np.float64).ravel().tolist()]


def same_value(a, b):
    """exact equality of reals / arrays with nan == nan"""
    a = np.asarray(a, dtype=np.float64)
    b = np.asarray(b, dtype=np.float64)
    return a.shape == b.shape and bool(np.all((a == b) | (np.isnan(a) & np.isnan(b))))


def same_flat(x, y):
    return len(x) == len(y) and all(same_value(a, b) for a, b in zip(x, y))


def twin_tables(spec, nsteps):
    """reference trajectory by raw step() calls: per step count k=1..nsteps the finiteness structure of the
    working variables, the accessor values and the minimiser"""
    s = build(spec)
    fins, accs, mins = [], [], []
    for _ in range(nsteps):
        s.step()
        fins.append([fin_struct(v) for v in working_vars(spec, s)])
        accs.append([(k, float(np.asarray(v))) for k, v in accessor_values(spec, s)])
        mins.append(flat(s.minimizer()))
    init_min = None
    return {"fin": fins, "acc": accs, "min": mins, "init_min": init_min}


# --------------------------------------------------------------------------------------------------
# histories on the object under test


class CallbackFailure(Exception):
    """raised by the harness callback on request"""


def max_steps(ops):
    n = 0
    for o in ops:
        if o["op"] == "solve":
            n += max(int(o["maxiter"]), 0)
        elif o["op"] == "step":
            n += 1
    return n


def run_history(spec, ops, step_ticks, cb_ticks, clock0=0, ctl=None, nans=None):
    """run the operations on a fresh real optimiser with the fake clock; returns (per-op observations, min0).
    `ctl[j]` (optional) = [itnum|None, maxiter|None]: what callback invocation number j assigns to the
    optimiser's own attributes before it returns."""
    clock = FakeClock(clock0)
    obs = []
    with installed(clock):
        io_name = spec.get("kwargs", {}).get("itstat_options")
        opts = itstat_options(io_name, spec) if io_name else None
        snap = list(opts.items()) if opts is not None else None
        earlier = [build(spec, _opts=opts) for _ in range(int(spec.get("reuse", 0)))] if opts is not None else []
        s = build(spec, _opts=opts)
        # the caller's dictionary after the constructions: same keys in the same order, same value objects
        opts_unchanged = opts is None or (list(opts.keys()) == [k for k, _ in snap] and all(opts[k] is v for k, v in snap))
        fresh_len = len(s.itstat_object.history())  # a new optimiser has recorded nothing
        del earlier
        state = {"k": 0, "j": 0}
        orig_step = s.step

        def step():
            orig_step()
            clock.advance(step_ticks[state["k"]])
            state["k"] += 1

        s.step = step  # instance attribute: solve() calls self.step()
        cblog = []

        def callback(opt):
            enter = clock.now
            seen = {
                "itnum": int(opt.itnum),
                "k": state["k"],
                "nrows": len(opt.itstat_object.history()),
                "same_obj": opt is s,
                "min": flat(opt.minimizer()),
            }
            clock.advance(cb_ticks[state["j"]])
            nb = nans[state["j"]] if (nans is not None and state["j"] < len(nans)) else None
            if nb is not None:
                opt.nanstop = bool(nb)  # read afresh by solve() in the next iteration
            a = ctl[state["j"]] if (ctl is not None and state["j"] < len(ctl)) else None
            if a == "raise":
                # the callback fails part-way: its time has passed, then the exception leaves solve()
                state["j"] += 1
                seen["enter"], seen["leave"] = enter, clock.now
                cblog.append(seen)
                raise CallbackFailure("callback-raise")
            if a is not None:
                if a[0] is not None:
                    opt.itnum = int(a[0])
                if a[1] is not None:
                    opt.maxiter = int(a[1])
            state["j"] += 1
            seen["enter"], seen["leave"] = enter, clock.now
            cblog.append(seen)

        names = list(s.itstat_object.fieldname)
        iso = s.itstat_object
        header = iso.disphdr  # None unless displaying
        rowfmt = (" " * iso.colsep).join(iso.fieldformat)
        for o in ops:
            if o["op"] == "solve":
                s.maxiter = int(o["maxiter"])
                nrows0, ncb0 = len(s.itstat_object.history()), len(cblog)
                out = {"op": "solve"}
                buf = io.StringIO()
                try:
                    with contextlib.redirect_stdout(buf):
                        ret = s.solve(callback=callback if o["cb"] else None)
                    out["outcome"] = "ok"
                    out["ret"] = flat(ret)
                except CallbackFailure:
                    out["outcome"] = "cbraise"
                except ZeroDivisionError:
                    out["outcome"] = "zerodiv"  # display with period = 0
                except ValueError as e:
                    out["outcome"] = "nan" if "NaN or Inf" in str(e) else "ValueError"
                except Exception as e:  # noqa: BLE001
                    out["outcome"] = type(e).__name__
                hist = s.itstat_object.history()
                out["rows"] = [[_num(v) for v in tuple(r)] for r in hist[nrows0:]]
                out["cbs"] = cblog[ncb0:]
                out["itnum"] = int(s.itnum)
                out["maxiter"] = int(s.maxiter)
                out["nanstop"] = bool(s.nanstop)
                out["clock"] = clock.now
                out["steps"] = state["k"]
                out["elapsed"] = _num(s.timer.elapsed())
                out["running"] = s.timer.t0.get("main") is not None
                out["printed_text"] = buf.getvalue()
                if iso.display:
                    # the text of each new record, formatted the way `insert` formats it
                    out["row_text"] = {}
                    for nn in range(nrows0, len(hist)):
                        try:
                            out["row_text"][nn] = rowfmt % tuple(hist[nn])
                        except Exception as e:  # noqa: BLE001
                            out["row_text"][nn] = f"<unformattable: {type(e).__name__}>"
                obs.append(out)
            elif o["op"] == "step":
                s.step()
                obs.append({"op": "step", "itnum": int(s.itnum), "clock": clock.now, "steps": state["k"],
                            "nrows": len(s.itstat_object.history())})
            elif o["op"] == "tick":
                clock.advance(o["d"])
                obs.append({"op": "tick", "clock": clock.now, "elapsed": _num(s.timer.elapsed())})
            elif o["op"] == "nanstop":
                s.nanstop = bool(o["v"])
                obs.append({"op": "nanstop"})
            else:
                raise ValueError(o)
        # transposed history (IterationStats.history(transpose=True))
        hist = s.itstat_object.history()
        try:
            tr = s.itstat_object.history(transpose=True)
        except Exception as e:  # noqa: BLE001 - the code under test failing is an observation, not a harness error
            tr = None
        tr_ok = None
        if tr is None:
            tr_ok = "history(transpose=True) raised"
        elif hist:
            tr_ok = all(
                len(tr[nn]) == len(hist) and all(tr[nn][m] is hist[m][nn] or same_value(tr[nn][m], hist[m][nn]) for m in range(len(hist)))
                for nn in range(len(hist[0]))
            ) and len(tr) == len(hist[0])
        else:
            tr_ok = tr == []
    return {"obs": obs, "names": names, "transpose_ok": tr_ok, "clock_reads": clock.reads, "header": header,
            "opts_unchanged": opts_unchanged, "fresh_len": fresh_len}


def _num(v):
    """statistics values: Python/NumPy/JAX scalars -> float (ints stay exact)"""
    try:
        return float(np.asarray(v))
    except Exception:  # noqa: BLE001
        return repr(v)


# --------------------------------------------------------------------------------------------------
# Timer histories


def to_arg(a, as_tuple=False):
    if isinstance(a, list):
        return tuple(a) if as_tuple else list(a)
    return a


_ROW = None


def parse_timer_str(txt):
    """rows of the table `Timer.__str__` prints: [label, accumulated, current | None ('Stopped')] with the
    numbers as printed (`%.2e`); anything unexpected in the layout -> the raw text (which then differs)"""
    import re

    lines = txt.split("\n")
    if len(lines) < 3 or lines[-1] != "" or not lines[0].startswith("Label") or set(lines[1]) != {"-"}:
        return {"unparsed": txt}
    rows = []
    for ln in lines[2:-1]:
        m = re.fullmatch(r"(\S+)\s+(\d\.\d\de[+-]\d\d) s\s+(Stopped|(\d\.\d\de[+-]\d\d) s)", ln)
        if not m:
            return {"unparsed": txt}
        rows.append([m.group(1), m.group(2), m.group(4)])
    return rows


def fmt_ticks(v):
    return f"{float(v):.2e}"


def run_timer(cfg, calls):
    """cfg: {"init": None|str|[...], "dflt": str, "all": str}; calls: [{"t", "op", "arg", "total"?, "tuple"?}]
    returns per call: 0 / -1 (KeyError) for start/stop/reset, value / -1 for elapsed; and the key lists"""
    import scico.util as su

    clock = FakeClock(0)
    res, keys = [], []
    with installed(clock):
        if cfg.get("ctor_defaults"):
            # default_label / all_label left to the constructor's defaults (documented: "main", "all")
            T = su.Timer(labels=to_arg(cfg["init"], cfg.get("init_tuple", False)))
        else:
            T = su.Timer(labels=to_arg(cfg["init"], cfg.get("init_tuple", False)), default_label=cfg["dflt"], all_label=cfg["all"])
        for c in calls:
            clock.now = c["t"] if isinstance(c["t"], float) else int(c["t"])
            arg = to_arg(c.get("arg"), c.get("tuple", False))
            try:
                if c["op"] == "start":
                    T.start(arg) if not c.get("noarg") else T.start()
                    r = 0
                elif c["op"] == "stop":
                    T.stop(arg) if not c.get("noarg") else T.stop()
                    r = 0
                elif c["op"] == "reset":
                    T.reset(arg) if not c.get("noarg") else T.reset()
                    r = 0
                elif c["op"] == "elapsed":
                    if c.get("nototal"):
                        # `total` left to the default of the signature (documented: True)
                        v = T.elapsed(arg) if not c.get("noarg") else T.elapsed()
                    elif c.get("via_ctx"):
                        v = su.ContextTimer(T, arg).elapsed(total=c["total"])
                    else:
                        v = T.elapsed(arg, total=c["total"]) if not c.get("noarg") else T.elapsed(total=c["total"])
                    r = int(v) if float(v) == int(v) else float(v)
                elif c["op"] == "ctx_enter":
                    cm = su.ContextTimer(T, arg, c["action"])
                    got = cm.__enter__()
                    r = 0 if got is cm else -3
                elif c["op"] == "ctx_exit":
                    ex = c.get("exc", False)
                    got = su.ContextTimer(T, arg, c["action"]).__exit__(ValueError if ex else None, ValueError("x") if ex else None, None)
                    r = 0 if got is (not ex) else -3  # True (no exception in the block) / False (propagate it)
                elif c["op"] == "str":
                    try:
                        r = parse_timer_str(str(T))
                    except TypeError:
                        r = "TypeError"
                else:
                    raise ValueError(c)
            except KeyError:
                r = -1
            res.append(r)
            keys.append(list(T.labels()))
    return res, keys
