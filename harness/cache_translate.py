"""Second translator of C19 (engine Cache): tables of the scico sources that the hand-written model / the tie COPY, regenerated
into `lean/Scico/Generated/CacheTables.lean` on every run, with `decide`-able obligations pinning them to the audited state.

  sharedState     every piece of state shared between calls / instances that the SOURCE creates at definition time, over the whole
                  package (tests and examples excluded):
                     DEFAULT      a parameter default that is a dict / list / set (literal, comprehension or constructor call)
                     DEFAULTCALL  a parameter default that is an object constructed at definition time (`step_size=PGMStepSize()`)
                     CLASSLEVEL   a class attribute that is a dict / list / set
                     CLASSCALL    a class attribute that is an object constructed in the class body (shared by all instances)
                     MODULE       a module-level dict / list / set (`__all__` excluded)
                  obligation `shared_state_pinned`: equals the audited list - a NEW shared default / class-level container anywhere
                  in scico breaks it (the mechanism of the seeded changes C19-m3, C19-p3, C14-n1, C08-n1, C03-n3).
  optionTables    for every constructor parameter `*_kwargs`: how the option dictionary is stored (`byRef`: `self.X = param`;
                  `copyUpdate`: a literal dictionary updated by the parameter) and the literal defaults (key -> source text of value)
                  obligation `option_tables_eq_model`: equals `Scico.Cache.codeOptionTables` (hand-written, what the model and the
                  tie (A6) assume).
  traceChains     attribute chains of length >= 2 read inside a CACHED trace (`self.f.grad`, `self.pgm.g.prox`): everything behind the
                  first attribute is frozen at trace time as well; obligation `trace_chains_pinned`.
"""

from __future__ import annotations

import ast
from pathlib import Path

import common

IMMUTABLE_CALLS = {"tuple", "frozenset", "int", "float", "str", "bool", "complex", "bytes", "property", "staticmethod", "classmethod", "TypeVar",
                   "NewType", "namedtuple", "partial", "field", "Optional", "Union"}

# audited on /repo HEAD (round 4)
EXPECTED_SHARED = [
    ("DEFAULT", "scico/optimize/_admmaux.py", "GenericSubproblemSolver.__init__", "minimize_kwargs"),
    ("MODULE", "scico/linop/abel.py", "", "scope"),
    ("MODULE", "scico/numpy/_blockarray.py", "", "da_methods"),
    ("MODULE", "scico/numpy/_blockarray.py", "", "da_props"),
    ("MODULE", "scico/random.py", "", "wrappable_func_names"),
]
EXPECTED_CHAINS = [
    ("LineSearchStepSize", "g_prox", "pgm.g.prox"),
    ("PGM", "x_step", "f.grad"),
    ("PGM", "x_step", "g.prox"),
]


def _is_container(n):
    return isinstance(n, (ast.Dict, ast.List, ast.Set, ast.ListComp, ast.DictComp, ast.SetComp)) or (
        isinstance(n, ast.Call) and getattr(n.func, "id", "") in ("dict", "list", "set", "defaultdict", "OrderedDict", "bytearray", "deque"))


def _is_objcall(n):
    return isinstance(n, ast.Call) and not _is_container(n) and getattr(n.func, "id", getattr(n.func, "attr", "")) not in IMMUTABLE_CALLS


def _files(repo):
    for f in sorted((repo / "scico").rglob("*.py")):
        rel = str(f.relative_to(repo))
        if "/test" in rel or "examples" in rel:
            continue
        yield rel, ast.parse(f.read_text())


def _assign(b):
    if isinstance(b, ast.Assign) and len(b.targets) == 1:
        return b.targets[0], b.value
    if isinstance(b, ast.AnnAssign) and b.value is not None:
        return b.target, b.value
    return None, None


def scan_shared(repo):
    out = []
    for rel, t in _files(repo):
        owners = {}
        for n in ast.walk(t):
            if isinstance(n, ast.ClassDef):
                for b in n.body:
                    if isinstance(b, ast.FunctionDef):
                        owners[b] = n.name + "." + b.name
                    tg, v = _assign(b)
                    if tg is not None:
                        if _is_container(v):
                            out.append(("CLASSLEVEL", rel, n.name, ast.unparse(tg)))
                        elif _is_objcall(v):
                            out.append(("CLASSCALL", rel, n.name, ast.unparse(tg)))
        for n in ast.walk(t):
            if isinstance(n, ast.FunctionDef):
                a = n.args
                al = a.posonlyargs + a.args
                defs = list(zip([x.arg for x in al][len(al) - len(a.defaults):], a.defaults)) + \
                    [(k.arg, d) for k, d in zip(a.kwonlyargs, a.kw_defaults) if d is not None]
                for nm, d in defs:
                    if _is_container(d):
                        out.append(("DEFAULT", rel, owners.get(n, n.name), nm))
                    elif _is_objcall(d):
                        out.append(("DEFAULTCALL", rel, owners.get(n, n.name), nm))
        for b in t.body:
            tg, v = _assign(b)
            if tg is not None and _is_container(v) and ast.unparse(tg) != "__all__":
                out.append(("MODULE", rel, "", ast.unparse(tg)))
    return sorted(set(out))


def scan_options(repo):
    """(class, attribute, pattern, [(key, value source)]) for every constructor parameter named *_kwargs"""
    out = []
    for rel, t in _files(repo):
        for c in ast.walk(t):
            if not isinstance(c, ast.ClassDef):
                continue
            init = next((b for b in c.body if isinstance(b, ast.FunctionDef) and b.name == "__init__"), None)
            if init is None:
                continue
            a = init.args
            al = a.posonlyargs + a.args
            defaults = dict(zip([x.arg for x in al][len(al) - len(a.defaults):], a.defaults))
            for prm in [x.arg for x in al if x.arg.endswith("_kwargs")]:
                locals_lit = {}
                pattern, attr, lit = "other", "?", []
                for st in ast.walk(init):
                    tg, v = _assign(st)
                    if tg is None:
                        continue
                    if isinstance(tg, ast.Name) and isinstance(v, ast.Dict):
                        locals_lit[tg.id] = v
                    if isinstance(tg, ast.Attribute) and isinstance(tg.value, ast.Name) and tg.value.id == "self" and isinstance(v, ast.Name):
                        if v.id == prm:
                            pattern, attr = "byRef", tg.attr
                            d = defaults.get(prm)
                            lit = [(ast.literal_eval(k), ast.unparse(x)) for k, x in zip(d.keys, d.values)] if isinstance(d, ast.Dict) else []
                        elif v.id in locals_lit and any(
                                isinstance(u, ast.Call) and isinstance(u.func, ast.Attribute) and u.func.attr == "update" and getattr(u.func.value, "id", "") == v.id
                                and u.args and getattr(u.args[0], "id", "") == prm for u in ast.walk(init)):
                            pattern, attr = "copyUpdate", tg.attr
                            d = locals_lit[v.id]
                            lit = [(ast.literal_eval(k), ast.unparse(x)) for k, x in zip(d.keys, d.values)]
                out.append((c.name, attr, pattern, lit))
    return sorted(out)


def scan_chains(repo):
    """dotted attribute chains of length >= 2 rooted at `self` inside cached traces (local defs / lambdas passed to jax.jit and
    stored on the instance)"""
    import cache_attrs as ca

    out = []
    classes, _ = ca._load_classes(Path(repo))
    for cname, c in sorted(classes.items()):
        for mname, m in c.methods.items():
            local_defs = {n.name: n for n in ast.walk(m) if isinstance(n, ast.FunctionDef) and n is not m}
            for n in ast.walk(m):
                if isinstance(n, ast.Assign) and isinstance(n.value, ast.Call) and ca._is_jit(n.value.func) and n.value.args:
                    tgt = n.targets[0]
                    if not (isinstance(tgt, ast.Attribute) and isinstance(tgt.value, ast.Name) and tgt.value.id == "self"):
                        continue
                    F = n.value.args[0]
                    body = local_defs.get(F.id) if isinstance(F, ast.Name) else (F if isinstance(F, ast.Lambda) else None)
                    if body is None:
                        continue
                    paths = set()
                    for a in ast.walk(body):
                        if isinstance(a, ast.Attribute):
                            parts, cur = [], a
                            while isinstance(cur, ast.Attribute):
                                parts.append(cur.attr)
                                cur = cur.value
                            if isinstance(cur, ast.Name) and cur.id == "self" and len(parts) >= 2:
                                paths.add(".".join(reversed(parts)))
                    maximal = [p for p in paths if not any(q != p and q.startswith(p + ".") for q in paths)]
                    out += [(cname, tgt.attr, p) for p in maximal]
    return sorted(set(out))


SLOT_MEMBERS = ["_eval", "_adj", "_gram", "adj", "gram", "gram_op", "T", "H", "jit", "_set_adjoint", "_set_gram"]


def scan_overrides(repo):
    """(file, class, special members defined in the class body, passes `adj_fn=` to a constructor call in __init__) for every class of
    scico/linop and the operators of scico/functional/_tvnorm.py that defines one of the members the jit-slot model talks about"""
    out = []
    for rel, t in _files(repo):
        if not (rel.startswith("scico/linop") or rel == "scico/functional/_tvnorm.py"):
            continue
        for c in ast.walk(t):
            if not isinstance(c, ast.ClassDef):
                continue
            defs = [b.name for b in c.body if isinstance(b, ast.FunctionDef) and b.name in SLOT_MEMBERS]
            init = next((b for b in c.body if isinstance(b, ast.FunctionDef) and b.name == "__init__"), None)
            passes = init is not None and any(isinstance(k, ast.Call) and any(kw.arg == "adj_fn" for kw in k.keywords) for k in ast.walk(init))
            if defs or passes:
                out.append((rel, c.name, sorted(defs, key=SLOT_MEMBERS.index), passes))
    return sorted(out)


def function_lines(repo, rel, qualname):
    """source of one function / method, normalised by `ast.unparse` (comments and the docstring dropped), as a list of lines;
    `qualname` = "func", "Class.method" or "func.<inner>" """
    t = ast.parse((Path(repo) / rel).read_text())
    node = t
    for part in qualname.split("."):
        node = next((b for b in ast.walk(node) if isinstance(b, (ast.FunctionDef, ast.ClassDef)) and b.name == part and b is not node), None)
        if node is None:
            return ["<missing>"]
    body = list(node.body)
    if body and isinstance(body[0], ast.Expr) and isinstance(getattr(body[0], "value", None), ast.Constant) and isinstance(body[0].value.value, str):
        body = body[1:]
    lines = []
    for st in body:
        lines += ast.unparse(st).split("\n")
    return lines


PINNED = [  # (name in Lean, file, function) - the functions whose logic Model/Cache.lean follows line by line
    ("TVNorm.__call__", "scico/functional/_tvnorm.py", "TVNorm.__call__"),
    ("TVNorm.prox", "scico/functional/_tvnorm.py", "TVNorm.prox"),
    ("TVNorm._call_operator", "scico/functional/_tvnorm.py", "TVNorm._call_operator"),
    ("TVNorm._prox_operators", "scico/functional/_tvnorm.py", "TVNorm._prox_operators"),
    ("Loss.__mul__", "scico/loss.py", "Loss.__mul__"),
    ("Loss.__truediv__", "scico/loss.py", "Loss.__truediv__"),
    ("Loss.set_scale", "scico/loss.py", "Loss.set_scale"),
    ("Functional.__init__", "scico/functional/_functional.py", "Functional.__init__"),
    ("Functional.grad", "scico/functional/_functional.py", "Functional.grad"),
    ("SubproblemSolver.internal_init", "scico/optimize/_admmaux.py", "SubproblemSolver.internal_init"),
    ("PGMStepSize.internal_init", "scico/optimize/_pgmaux.py", "PGMStepSize.internal_init"),
    ("_add_seed.fun_alt", "scico/random.py", "_add_seed.fun_alt"),
    ("LinearOperator.jit", "scico/linop/_linop.py", "LinearOperator.jit"),
    ("LinearOperator._set_adjoint", "scico/linop/_linop.py", "LinearOperator._set_adjoint"),
    ("LinearOperator._set_gram", "scico/linop/_linop.py", "LinearOperator._set_gram"),
    ("Operator.jit", "scico/operator/_operator.py", "Operator.jit"),
    ("MatrixOperator._eval", "scico/linop/_matrix.py", "MatrixOperator._eval"),
    ("MatrixOperator.adj", "scico/linop/_matrix.py", "MatrixOperator.adj"),
    ("MatrixOperator.gram", "scico/linop/_matrix.py", "MatrixOperator.gram"),
    ("MatrixOperator.gram_op", "scico/linop/_matrix.py", "MatrixOperator.gram_op"),
]


def lean_sources(repo, pinned):
    return "[\n" + ",\n".join(f"  ({_s(nm)}, [" + ", ".join(_s(ln) for ln in function_lines(repo, rel, q)) + "])" for nm, rel, q in pinned) + "\n]"


def changed_rows(repo, pinned, model_file):
    """names of the pinned functions whose normalised source is NOT the row of the hand-written model literal"""
    text = Path(model_file).read_text()
    out = []
    for nm, rel, q in pinned:
        row = f"  ({_s(nm)}, [" + ", ".join(_s(ln) for ln in function_lines(repo, rel, q)) + "])"
        if row not in text:
            out.append(nm)
    return out


def _s(x):
    return '"' + str(x).replace("\\", "\\\\").replace('"', "'") + '"'


def write(repo=None, out=None):
    repo = Path(repo or common.REPO)
    shared, options, chains = scan_shared(repo), scan_options(repo), scan_chains(repo)
    out = Path(out or (Path(__file__).resolve().parent.parent / "lean" / "Scico" / "Generated" / "CacheTables.lean"))
    L = ["/-", "  GENERATED by harness/cache_translate.py from the scico sources (do not edit).", "-/", "import Scico.Model.Cache", "",
         "namespace Scico.Generated.CacheTables", "open Scico.Cache", "",
         "/-- (kind, file, owner, name) of every shared default / class-level / module-level mutable object of the package -/",
         "def sharedState : List (String × String × String × String) := [",
         ",\n".join(f"  ({_s(k)}, {_s(f)}, {_s(o)}, {_s(n)})" for k, f, o, n in shared), "]", "",
         "def expectedShared : List (String × String × String × String) := [",
         ",\n".join(f"  ({_s(k)}, {_s(f)}, {_s(o)}, {_s(n)})" for k, f, o, n in sorted(EXPECTED_SHARED)), "]", "",
         "theorem shared_state_pinned : (sharedState == expectedShared) = true := by decide +kernel", "",
         "/-- (class, attribute, pattern, literal defaults) of every `*_kwargs` constructor parameter -/",
         "def optionTables : List (String × String × String × List (String × String)) := [",
         ",\n".join(f"  ({_s(c)}, {_s(a)}, {_s(p)}, [" + ", ".join(f"({_s(k)}, {_s(v)})" for k, v in lit) + "])" for c, a, p, lit in options), "]", "",
         "theorem option_tables_eq_model : (optionTables == codeOptionTables) = true := by decide +kernel", "",
         "/-- attribute chains (length ≥ 2) read inside cached traces -/",
         "def traceChains : List (String × String × String) := [",
         ",\n".join(f"  ({_s(c)}, {_s(s_)}, {_s(p)})" for c, s_, p in chains), "]", "",
         "def expectedChains : List (String × String × String) := [",
         ",\n".join(f"  ({_s(c)}, {_s(s_)}, {_s(p)})" for c, s_, p in sorted(EXPECTED_CHAINS)), "]", "",
         "theorem trace_chains_pinned : (traceChains == expectedChains) = true := by decide +kernel", "",
         "/-- which classes of scico/linop define the members the jit-slot model talks about, and which hand an `adj_fn` to the base class -/",
         "def slotOverrides : List (String × String × List String × Bool) := [",
         ",\n".join(f"  ({_s(f)}, {_s(c)}, [" + ", ".join(_s(d) for d in defs) + f"], {'true' if p else 'false'})" for f, c, defs, p in scan_overrides(repo)), "]", "",
         "theorem slot_overrides_eq_model : (slotOverrides == codeSlotOverrides) = true := by decide +kernel", "",
         "/-- only the base class and these classes define `adj` / `gram` / `jit` themselves (outside `C19_jit_slots`) -/",
         "theorem slot_model_coverage :",
         "    ((slotOverrides.filter (fun r => r.2.2.1.any (fun m => m == \"adj\" || m == \"gram\" || m == \"jit\"))).map (fun r => r.2.1)",
         "      == [\"LinearOperator\", \"MatrixOperator\"]) = true := by decide +kernel", "",
         "/-- normalised source of the functions the model follows line by line -/",
         "def sources : List (String × List String) := " + lean_sources(repo, PINNED), "",
         "theorem sources_eq_model : (sources == codeSources) = true := by decide +kernel", "",
         "end Scico.Generated.CacheTables", ""]
    text = "\n".join(L)
    if not out.exists() or out.read_text() != text:
        out.write_text(text)
    return shared, options, chains


if __name__ == "__main__":
    import sys

    for part in write(sys.argv[1] if len(sys.argv) > 1 else None, sys.argv[2] if len(sys.argv) > 2 else None):
        for x in part:
            print(x)
