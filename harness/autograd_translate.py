"""Translator for C07 (engine Autograd): tables extracted with `ast` from the scico sources ->
lean/Scico/Generated/AutogradTables.lean  (nothing is imported or executed).

* conjugation sites: for every function / closure of scico/_autograd.py, and for `Operator.jvp/vjp`,
  `linop.jacobian`, `Function.slice/jvp/vjp/jacobian`: how many conjugations are applied to a RESULT (operand is an
  expression, e.g. `tree_map(conj, jg)`, `G(...)[0].conj()`) and how many to an ARGUMENT of that function (operand is
  one of its parameters, e.g. `tangent.conj()`, `tree_map(conj, primals)`), and under which `if` branch it sits;
* `linear_adjoint`: the function transposed in each of its three dtype branches;
* which keyword values are forwarded (`conjugate=`, `include_eval=`) by `linop.jacobian` and `Function.*`;
* Functional family (scico/functional/*.py, scico/loss.py): every class reachable from `Functional`, whether it defines
  `__init__` and, if so, whether it calls `super().__init__`; classes defining `grad`, `_grad`-assignments, `__mul__`,
  `__rmul__`, `__truediv__`, `set_scale`;
* `Loss.__mul__/__truediv__`: copy -> rebind `_grad` to the COPY's `__call__` -> `set_scale(self.scale <op> other)`.

The generated module states `decide` obligations: extracted table = the table the hand-written model is built from
(`Scico.Autograd.Tables.*` in Scico/Model/Autograd.lean), every `__init__` calls the base initialiser, nobody overrides
`grad`."""

from __future__ import annotations

import ast
from pathlib import Path

try:
    import common
    REPO = None
except Exception:  # standalone use
    common = None


def _repo():
    import os

    if common is not None:
        return Path(common.REPO)
    return Path(os.environ.get("SCICO_REPO", "/repo"))


def _is_conj_ref(node):
    """`jax.numpy.conj`, `jnp.conj`, `snp.conj`, `conj`"""
    if isinstance(node, ast.Attribute):
        return node.attr == "conj"
    return isinstance(node, ast.Name) and node.id == "conj"


def _conj_operand(node):
    """operand of a conjugation expression, or None: `X.conj()`, `tree_map(<conj>, X)`, `<mod>.conj(X)`"""
    if not isinstance(node, ast.Call):
        return None
    f = node.func
    if isinstance(f, ast.Attribute) and f.attr == "conj" and not node.args:
        return f.value  # X.conj()
    fname = f.attr if isinstance(f, ast.Attribute) else (f.id if isinstance(f, ast.Name) else None)
    if fname == "tree_map" and len(node.args) == 2 and _is_conj_ref(node.args[0]):
        return node.args[1]
    if _is_conj_ref(f) and len(node.args) == 1:
        return node.args[0]
    return None


def _params(fn):
    a = fn.args
    names = [x.arg for x in a.posonlyargs + a.args + a.kwonlyargs]
    if a.vararg:
        names.append(a.vararg.arg)
    if a.kwarg:
        names.append(a.kwarg.arg)
    return set(names)


def _own_nodes(fn):
    """nodes of the body of `fn` without the bodies of nested function definitions, with the enclosing `if` tests"""
    out = []

    def visit(node, conds):
        if isinstance(node, (ast.FunctionDef, ast.Lambda, ast.AsyncFunctionDef, ast.ClassDef)):
            return
        out.append((node, conds))
        if isinstance(node, ast.If):
            t = ast.unparse(node.test)
            visit(node.test, conds)
            for b in node.body:
                visit(b, conds + [t])
            for b in node.orelse:
                visit(b, conds + ["not " + t])
            return
        for child in ast.iter_child_nodes(node):
            visit(child, conds)

    for stmt in fn.body:
        visit(stmt, [])
    return out


def _conj_counts(fn):
    res = arg = 0
    ps = _params(fn)
    for node, _ in _own_nodes(fn):
        op = _conj_operand(node)
        if op is None:
            continue
        if isinstance(op, ast.Name) and op.id in ps:
            arg += 1
        else:
            res += 1
    return res, arg


def _walk_functions(tree, prefix=""):
    """(qualified name, FunctionDef, enclosing if-conditions) for module-level and nested functions / methods; several
    nested functions of the same name get #0, #1 … in source order"""
    out = []

    def rec(body, prefix, conds):
        seen = {}
        for node in body:
            if isinstance(node, (ast.FunctionDef,)):
                k = seen.get(node.name, 0)
                seen[node.name] = k + 1
                out.append([prefix + node.name, node, list(conds), k])
                rec_inner(node, prefix + node.name + ".", [])
            elif isinstance(node, ast.ClassDef):
                rec(node.body, prefix + node.name + ".", [])

    def rec_inner(fn, prefix, conds):
        # nested defs anywhere in the body, remembering the `if` they sit under
        def scan(stmts, conds):
            for st in stmts:
                if isinstance(st, ast.FunctionDef):
                    out.append([prefix + st.name, st, list(conds), None])
                    rec_inner(st, prefix + st.name + ".", [])
                elif isinstance(st, ast.If):
                    t = ast.unparse(st.test)
                    scan(st.body, conds + [t])
                    scan(st.orelse, conds + ["not " + t])
                elif isinstance(st, (ast.For, ast.While, ast.With, ast.Try)):
                    for fld in ("body", "orelse", "finalbody"):
                        scan(getattr(st, fld, []) or [], conds)

        scan(fn.body, conds)

    rec(tree.body, prefix, [])
    # disambiguate duplicates
    names = {}
    for item in out:
        names.setdefault(item[0], []).append(item)
    res = []
    for item in out:
        nm = item[0]
        if len(names[nm]) > 1:
            nm = f"{nm}#{names[nm].index(item)}"
        res.append((nm, item[1], item[2]))
    return res


SITES = {
    "scico/_autograd.py": None,  # every function
    "scico/operator/_operator.py": ["Operator.jvp", "Operator.vjp"],
    "scico/linop/_util.py": ["jacobian"],
    "scico/function.py": ["Function.slice", "Function.jvp", "Function.vjp", "Function.jacobian"],
}


def conj_sites(repo):
    rows = []
    for rel, keep in SITES.items():
        tree = ast.parse((repo / rel).read_text())
        for name, fn, conds in _walk_functions(tree):
            if name.startswith("_"):
                continue
            if keep is not None and not any(name == k or name.startswith(k + ".") for k in keep):
                continue
            r, a = _conj_counts(fn)
            rows.append((rel, name, " & ".join(conds), r, a))
    return rows


def _kw_forward(fn):
    """keyword arguments `conjugate=` / `include_eval=` passed in calls inside fn: [(callee, keyword, value source)]"""
    out = []
    for node in ast.walk(fn):
        if isinstance(node, ast.Call):
            callee = node.func.attr if isinstance(node.func, ast.Attribute) else (node.func.id if isinstance(node.func, ast.Name) else "?")
            for kw in node.keywords:
                if kw.arg in ("conjugate", "include_eval"):
                    out.append((callee, kw.arg, ast.unparse(kw.value)))
    return sorted(set(out))


def forwards(repo):
    rows = []
    for rel, names in (("scico/linop/_util.py", ["jacobian"]), ("scico/function.py", ["Function.jvp", "Function.vjp", "Function.jacobian"])):
        tree = ast.parse((repo / rel).read_text())
        for name, fn, _ in _walk_functions(tree):
            if name in names:
                for callee, kw, val in _kw_forward(fn):
                    rows.append((name, callee, kw, val))
    return rows


def linear_adjoint_branches(repo):
    """[(condition, name assigned to `_fun`)] of the if/elif/else in linear_adjoint, and what is finally transposed"""
    tree = ast.parse((repo / "scico/_autograd.py").read_text())
    fn = [n for n in tree.body if isinstance(n, ast.FunctionDef) and n.name == "linear_adjoint"][0]
    branches = []

    def assigned_fun(stmts):
        for st in stmts:
            if isinstance(st, ast.Assign) and len(st.targets) == 1 and isinstance(st.targets[0], ast.Name) and st.targets[0].id == "_fun":
                return ast.unparse(st.value)
        return "?"

    node = [s for s in fn.body if isinstance(s, ast.If)][0]
    while True:
        branches.append((ast.unparse(node.test), assigned_fun(node.body)))
        if len(node.orelse) == 1 and isinstance(node.orelse[0], ast.If):
            node = node.orelse[0]
        else:
            branches.append(("else", assigned_fun(node.orelse)))
            break
    ret = [s for s in fn.body if isinstance(s, ast.Return)][0]
    return branches, ast.unparse(ret.value)


def functional_family(repo):
    """classes reachable from `Functional` in scico/functional/*.py and scico/loss.py"""
    files = sorted((repo / "scico/functional").glob("*.py")) + [repo / "scico/loss.py"]
    classes = {}
    for p in files:
        tree = ast.parse(p.read_text())
        for node in tree.body:
            if isinstance(node, ast.ClassDef):
                bases = []
                for b in node.bases:
                    bases.append(b.attr if isinstance(b, ast.Attribute) else (b.id if isinstance(b, ast.Name) else ast.unparse(b)))
                classes[node.name] = (str(p.relative_to(repo)), node, bases)
    fam = {"Functional"}
    changed = True
    while changed:
        changed = False
        for nm, (_, _, bases) in classes.items():
            if nm not in fam and any(b in fam for b in bases):
                fam.add(nm)
                changed = True
    rows = []
    for nm in sorted(fam):
        rel, node, bases = classes[nm]
        methods = {m.name: m for m in node.body if isinstance(m, ast.FunctionDef)}
        init = methods.get("__init__")
        calls_super = False
        if init is not None:
            for c in ast.walk(init):
                if (isinstance(c, ast.Call) and isinstance(c.func, ast.Attribute) and c.func.attr == "__init__"
                        and isinstance(c.func.value, ast.Call) and isinstance(c.func.value.func, ast.Name) and c.func.value.func.id == "super"):
                    calls_super = True
        grad_assign = sorted(m for m, f in methods.items()
                             if any(isinstance(t, ast.Attribute) and t.attr == "_grad" for st in ast.walk(f) if isinstance(st, ast.Assign) for t in st.targets))
        has_eval = "unset"
        for st in node.body:
            if isinstance(st, (ast.Assign, ast.AnnAssign)):
                tg = st.targets[0] if isinstance(st, ast.Assign) else st.target
                if isinstance(tg, ast.Name) and tg.id == "has_eval" and isinstance(st.value, ast.Constant):
                    has_eval = str(st.value.value)
        rows.append({"name": nm, "file": rel, "bases": bases, "has_init": init is not None, "calls_super": calls_super, "has_eval": has_eval,
                     "defines": sorted(m for m in ("grad", "__mul__", "__rmul__", "__truediv__", "set_scale", "__add__") if m in methods),
                     "assigns_grad_in": grad_assign})
    return rows


def loss_rescale(repo):
    """for Loss.__mul__ / __truediv__: [copy(self)?, `_grad` rebound to scico.grad(<copy>.__call__)?, set_scale argument]"""
    tree = ast.parse((repo / "scico/loss.py").read_text())
    loss = [n for n in tree.body if isinstance(n, ast.ClassDef) and n.name == "Loss"][0]
    rows = []
    for m in loss.body:
        if isinstance(m, ast.FunctionDef) and m.name in ("__mul__", "__rmul__", "__truediv__", "set_scale"):
            steps = []
            for st in m.body:
                if isinstance(st, ast.Expr) and isinstance(st.value, ast.Constant):
                    continue  # docstring
                steps.append(ast.unparse(st))
            rows.append((m.name, steps))
    return rows


DEFAULTS = [
    ("scico/_autograd.py", "grad"), ("scico/_autograd.py", "value_and_grad"), ("scico/_autograd.py", "jacrev"), ("scico/_autograd.py", "cvjp"),
    ("scico/operator/_operator.py", "Operator.vjp"), ("scico/linop/_util.py", "jacobian"),
    ("scico/function.py", "Function.vjp"), ("scico/function.py", "Function.jacobian"),
    ("scico/loss.py", "Loss.__init__"), ("scico/loss.py", "SquaredL2Loss.__init__"), ("scico/loss.py", "PoissonLoss.__init__"),
    ("scico/loss.py", "SquaredL2AbsLoss.__init__"), ("scico/loss.py", "SquaredL2SquaredAbsLoss.__init__"),
    ("scico/functional/_norm.py", "HuberNorm.__init__"), ("scico/functional/_norm.py", "L21Norm.__init__"),
    ("scico/functional/_norm.py", "L1MinusL2Norm.__init__"), ("scico/functional/_tvnorm.py", "TVNorm.__init__"),
    ("scico/functional/_proxavg.py", "ProximalAverage.__init__"),
]


def defaults(repo):
    """(function, parameter, default value as source text) for every parameter with a default of the listed functions"""
    rows = []
    for rel, qual in DEFAULTS:
        tree = ast.parse((repo / rel).read_text())
        fns = {name: fn for name, fn, _ in _walk_functions(tree)}
        if qual not in fns:
            rows.append((qual, "<missing>", ""))
            continue
        a = fns[qual].args
        pos = a.posonlyargs + a.args
        for arg, d in zip(pos[len(pos) - len(a.defaults):], a.defaults):
            rows.append((qual, arg.arg, ast.unparse(d)))
        for arg, d in zip(a.kwonlyargs, a.kw_defaults):
            if d is not None:
                rows.append((qual, arg.arg, ast.unparse(d)))
    return rows


def read_tables(repo=None):
    repo = Path(repo) if repo else _repo()
    br, ret = linear_adjoint_branches(repo)
    return {"conj": conj_sites(repo), "forwards": forwards(repo), "linadj": br, "linadj_ret": ret,
            "family": functional_family(repo), "rescale": loss_rescale(repo), "defaults": defaults(repo)}


if __name__ == "__main__":
    import json, sys

    t = read_tables(sys.argv[1] if len(sys.argv) > 1 else None)
    for k, v in t.items():
        print("==", k)
        if isinstance(v, list):
            for r in v:
                print("  ", r)
        else:
            print("  ", v)


# ---------------------------------------------------------------------------------------------------------------
# Lean output


def _ls(x):
    import json

    return json.dumps(x, ensure_ascii=True)


def _llist(items, indent="  "):
    if not items:
        return "[]"
    return "[\n" + ",\n".join(indent + it for it in items) + "\n]"


def _lstrs(xs):
    return "[" + ", ".join(_ls(x) for x in xs) + "]"


def tables_lean(t, ns_open="Scico.Autograd.Tables"):
    """the Lean definitions of the extracted tables (used for the generated module, and once to seed the model's table)"""
    L = []
    L.append("def conjSites : List ConjSite := " + _llist([f"⟨{_ls(f)}, {_ls(n)}, {_ls(c)}, {r}, {a}⟩" for f, n, c, r, a in t["conj"]]))
    L.append("def forwards : List Forward := " + _llist([f"⟨{_ls(a)}, {_ls(b)}, {_ls(c)}, {_ls(d)}⟩" for a, b, c, d in t["forwards"]]))
    L.append("def linadjBranches : List (String × String) := " + _llist([f"({_ls(a)}, {_ls(b)})" for a, b in t["linadj"]]))
    L.append(f"def linadjReturn : String := {_ls(t['linadj_ret'])}")
    L.append("def rescale : List (String × List String) := " + _llist([f"({_ls(m)}, {_lstrs(st)})" for m, st in t["rescale"]]))
    L.append("def defaults : List (String × String × String) := " + _llist([f"({_ls(a)}, {_ls(b)}, {_ls(c)})" for a, b, c in t["defaults"]]))
    L.append("def classes : List ClassRow := " + _llist([
        f"⟨{_ls(c['name'])}, {_lstrs(c['bases'])}, {'true' if c['has_init'] else 'false'}, {'true' if c['calls_super'] else 'false'}, "
        f"{_ls(c['has_eval'])}, {_lstrs(c['defines'])}, {_lstrs(c['assigns_grad_in'])}⟩" for c in t["family"]]))
    return "\n\n".join(L)


HEADER = '''/-
  GENERATED by harness/autograd_translate.py from the scico sources with `ast` (do not edit; rewritten on every run of
  `./check C07`): where the differentiation layer conjugates, which keyword values it forwards, the branches of
  `linear_adjoint`, the statements of `Loss.__mul__/__rmul__/__truediv__/set_scale`, and the family of `Functional`
  subclasses (own `__init__`, call of the base initialiser, `has_eval`, methods that touch `grad`/scaling).
  Obligations (closed by `decide`): the extracted tables ARE the tables the hand-written model is built from
  (`Scico.Autograd.Tables`, linked to the model's definitions by theorem `C07_conj_sites`), every evaluable class that
  defines `__init__` calls `super().__init__()` (so `_grad` exists), only `Functional` defines `grad`.
-/
import Scico.Model.Autograd

namespace Scico.Generated.AutogradTables
open Scico.Autograd.Tables

'''

FOOTER = '''

/-- the conjugation sites of the source are those the model transcribes -/
theorem conj_sites_ok : conjSites = Scico.Autograd.Tables.conjSites := by decide

/-- forwarded keyword values (`jacobian` always asks for the conjugate transpose; `Function.*` pass the caller's flags) -/
theorem forwards_ok : forwards = Scico.Autograd.Tables.forwards := by decide

/-- the three dtype branches of `linear_adjoint` and what is transposed -/
theorem linadj_ok : linadjBranches = Scico.Autograd.Tables.linadjBranches ∧ linadjReturn = Scico.Autograd.Tables.linadjReturn := by decide

/-- `Loss.__mul__/__truediv__`: copy, re-bind `_grad` to the copy, set the scale; `__rmul__` delegates; `set_scale` assigns -/
theorem rescale_ok : rescale = Scico.Autograd.Tables.rescale := by decide

/-- default argument values of the differentiation API and of the modelled constructors -/
theorem defaults_ok : defaults = Scico.Autograd.Tables.defaults := by decide

/-- the `Functional` family is the one the model's inventory lists (names, bases, scaling / grad methods, `_grad` assignments) -/
theorem family_ok : classes.map ClassRow.key = Scico.Autograd.Tables.family.map FamilyRow.key := by decide

/-- every class that can be evaluated and defines `__init__` calls the base initialiser, which is where `_grad` is bound -/
theorem init_ok : classes.all (fun c => c.name == "Functional" || !c.hasInit || c.callsSuper || c.hasEval == "False") = true := by decide

/-- `grad` is defined by `Functional` only -/
theorem grad_owner_ok : (classes.filter (fun c => c.defines.contains "grad")).map (·.name) = ["Functional"] := by decide

end Scico.Generated.AutogradTables
'''


def write(repo=None, out=None):
    t = read_tables(repo)
    text = HEADER + tables_lean(t) + FOOTER
    if out is None:
        out = common.LEAN_DIR / "Scico" / "Generated" / "AutogradTables.lean"
    out = Path(out)
    if not out.exists() or out.read_text() != text:
        out.write_text(text)
    return t
