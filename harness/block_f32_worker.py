"""Default-precision worker of C13 / C18 (run as a subprocess WITHOUT jax_enable_x64: float32 / complex64 / int32 throughout,
Python scalars weakly typed).  Reads {"repo": …, "mode": "block" | "wrap", "seed": n} on stdin, prints {"results": [...]}.

Every record is an evaluation of the PROPERTY itself on the real code in the library's default mode (no model involved):
  block: a block array behaves as the tuple of its blocks — creation routines with dtype omitted, lifted operators / properties /
         methods, wrapped functions and reductions on float32 / complex64 / int32 block arrays give exactly (value and dtype) what
         jax.numpy gives per block / on the concatenation in the same mode, nothing raises for conforming inputs, dtypes stay
         32-bit, `x.dtype` is the dtype of the blocks, mixed dtypes are rejected by the constructor;
  wrap:  `minimize` with a float32 / complex64 (block) start: the objective sees the dtype of x0, the result has the container,
         shape and dtype of x0, the minimiser is the one scipy finds on the flattened problem (relative tolerance 1e-3).
"""

import json
import os
import sys
import warnings

os.environ["JAX_PLATFORMS"] = "cpu"
os.environ.pop("JAX_ENABLE_X64", None)
req = json.loads(sys.stdin.read())
sys.path.insert(0, req["repo"])
warnings.simplefilter("ignore")
import logging  # noqa: E402

import numpy as np  # noqa: E402

import jax  # noqa: E402
import jax.numpy as jnp  # noqa: E402

assert not jax.config.jax_enable_x64
logging.getLogger("jax._src.callback").setLevel(logging.CRITICAL)
import scico.numpy as snp  # noqa: E402
from scico.numpy import BlockArray  # noqa: E402

rng = np.random.Generator(np.random.PCG64(req.get("seed", 0)))
out = []
BITS64 = ("float64", "complex128", "int64", "uint64")


def same(a, b):
    a, b = np.asarray(a), np.asarray(b)
    return a.shape == b.shape and a.dtype == b.dtype and bool(np.array_equal(a, b, equal_nan=a.dtype.kind in "fc"))


def desc(v):
    if isinstance(v, BlockArray):
        return [desc(b) for b in v.arrays]
    if hasattr(v, "shape") and hasattr(v, "dtype"):
        return f"{tuple(v.shape)}:{v.dtype}"
    return repr(v)[:60]


def record(case, thunk):
    """thunk -> (ok, detail); an exception for a conforming input is a failure"""
    try:
        ok, detail = thunk()
        out.append({"case": case, "ok": bool(ok), "detail": detail})
    except Exception as e:  # noqa: BLE001
        out.append({"case": case, "ok": False, "detail": {"raised": repr(e)[:240]}})


def blockwise(case, got_thunk, want_thunk, bits32=True):
    def t():
        got, want = got_thunk(), want_thunk()
        if isinstance(want, list):
            ok = isinstance(got, BlockArray) and len(got.arrays) == len(want) and all(same(g, w) for g, w in zip(got.arrays, want))
            ok = ok and str(got.dtype) == str(want[0].dtype) and (not bits32 or all(str(b.dtype) not in BITS64 for b in got.arrays))
        elif isinstance(want, tuple):
            ok = isinstance(got, tuple) and list(got) == list(want)
        else:
            ok = not isinstance(got, BlockArray) and same(got, want) and (not bits32 or str(np.asarray(got).dtype) not in BITS64)
        return ok, {"scico": desc(got), "per_block_jax": [desc(w) for w in want] if isinstance(want, list) else desc(want)}

    record(case, t)


def dy(shape, kind):
    a = rng.integers(-12, 13, size=shape) / 8.0
    if kind == "complex64":
        return jnp.array((a + 1j * rng.integers(-12, 13, size=shape) / 8.0).astype(np.complex64))
    if kind == "int32":
        return jnp.array(rng.integers(1, 7, size=shape).astype(np.int32))
    return jnp.array(a.astype(np.float32))


STRUCT = [(3,), (2, 3), ()]

if req["mode"] == "block":
    # creation routines, dtype omitted / 32-bit dtypes
    nested = ((2, 3), (4,), ())
    for name in snp.creation_routines:
        f, g = getattr(snp, name), getattr(jnp, name)
        extra = (1.5,) if name == "full" else ()
        blockwise(f"creation/{name}/dtype-omitted", lambda f=f, extra=extra: f(nested, *extra), lambda g=g, extra=extra: [g(s, *extra) for s in nested])
        for dt in (jnp.float32, jnp.complex64, jnp.int32):
            blockwise(f"creation/{name}/{np.dtype(dt)}", lambda f=f, extra=extra, dt=dt: f(nested, *extra, dtype=dt), lambda g=g, extra=extra, dt=dt: [g(s, *extra, dtype=dt) for s in nested])
    import scico.random as sr

    key = jax.random.PRNGKey(5)
    for name in ("normal", "uniform", "randn"):
        jr = getattr(jax.random, "normal" if name == "randn" else name)
        blockwise(f"random/{name}/dtype-omitted", lambda name=name: getattr(sr, name)(((2,), (3, 2)), key=key)[0], lambda jr=jr: [jr(key, (2,)), jr(key, (3, 2))])
    record("random/returned-key", lambda: (same(sr.normal(((2,), (3,)), key=key)[1], jax.random.split(key, 2)[0]), None))

    import operator as op

    BIN = {"+": op.add, "-": op.sub, "*": op.mul, "/": op.truediv, "//": op.floordiv, "%": op.mod, "**": op.pow, ">": op.gt, "==": op.eq, "@": op.matmul}
    for kind in ("float32", "complex64", "int32"):
        x = BlockArray([dy(s, kind) for s in STRUCT])
        y = BlockArray([dy(s, kind) for s in STRUCT])
        record(f"dtype-property/{kind}", lambda x=x, kind=kind: (str(x.dtype) == kind and all(str(b.dtype) == kind for b in x.arrays), str(x.dtype)))
        for nm, f in (("neg", op.neg), ("pos", op.pos), ("abs", abs)):
            blockwise(f"unary/{nm}/{kind}", lambda f=f, x=x: f(x), lambda f=f, x=x: [f(b) for b in x.arrays])
        others = [("block", y), ("python-float", 2.5), ("python-int", 3), ("python-complex", 1 + 2j), ("numpy-float64-scalar", np.float64(0.5)),
                  ("numpy-float32-array", np.ones(3, dtype=np.float32)), ("jax-0d", jnp.array(2, dtype=jnp.int32))]
        for sym, f in BIN.items():
            if sym == "@":
                continue
            if kind == "complex64" and sym in ("//", "%", ">"):
                continue
            for oname, o in others:
                if kind != "complex64" and oname == "python-complex" and sym in ("//", "%", ">"):
                    continue
                if sym == "**" and kind == "int32" and oname not in ("python-int", "jax-0d"):
                    continue
                for refl in (False, True):
                    if refl and oname == "block":
                        continue
                    g = (lambda a, b, f=f: f(b, a)) if refl else f
                    blockwise(f"binary/{'r' if refl else ''}{sym}/{kind}/{oname}", lambda g=g, x=x, o=o: g(x, o),
                              lambda g=g, x=x, o=o: [g(b, o.arrays[i] if isinstance(o, BlockArray) else o) for i, b in enumerate(x.arrays)])
        v = BlockArray([dy((3,), kind), dy((2, 3), kind)])
        blockwise(f"binary/@/{kind}", lambda v=v: v @ dy((3,), kind) if False else v @ v.arrays[0], lambda v=v: [b @ v.arrays[0] for b in v.arrays])
        # properties / methods
        for nm in ("real", "imag", "T", "shape", "size", "ndim"):
            blockwise(f"property/{nm}/{kind}", lambda nm=nm, x=x: getattr(x, nm), lambda nm=nm, x=x: (lambda r: r if hasattr(r[0], "dtype") else tuple(r))([getattr(b, nm) for b in x.arrays]))
        for nm, args in (("ravel", ()), ("conj", ()), ("sum", ()), ("astype", (jnp.complex64,)), ("reshape", (-1,)), ("mean", ())):
            blockwise(f"method/{nm}/{kind}", lambda nm=nm, args=args, x=x: getattr(x, nm)(*args), lambda nm=nm, args=args, x=x: [getattr(b, nm)(*args) for b in x.arrays])
        # wrapped functions
        fns = ["abs", "conj", "real", "square", "sign", "zeros_like", "ones_like", "negative", "isfinite", "ravel"] + (["sin", "exp", "sqrt"] if kind != "int32" else ["sin"])
        for nm in fns:
            blockwise(f"function/{nm}/{kind}", lambda nm=nm, x=x: getattr(snp, nm)(x), lambda nm=nm, x=x: [getattr(jnp, nm)(b) for b in x.arrays])
        for nm in ("add", "multiply", "subtract") + (("maximum", "hypot") if kind == "float32" else ()):
            blockwise(f"function/{nm}/{kind}/block+scalar", lambda nm=nm, x=x: getattr(snp, nm)(x, 2), lambda nm=nm, x=x: [getattr(jnp, nm)(b, 2) for b in x.arrays])
            blockwise(f"function/{nm}/{kind}/block+block-kw", lambda nm=nm, x=x, y=y: getattr(snp, nm)(x, y), lambda nm=nm, x=x, y=y: [getattr(jnp, nm)(a, b) for a, b in zip(x.arrays, y.arrays)])
        blockwise(f"function/where/{kind}", lambda x=x, y=y: snp.where(snp.real(x) > 0, x, y), lambda x=x, y=y: [jnp.where(jnp.real(a) > 0, a, b) for a, b in zip(x.arrays, y.arrays)])
        # reductions: the concatenation of the ravelled blocks
        cat = jnp.concatenate([jnp.ravel(b) for b in x.arrays])
        for nm, kw in (("sum", {}), ("linalg.norm", {}), ("linalg.norm", {"ord": 1}), ("count_nonzero", {}), ("any", {}), ("sum", {"keepdims": True})):
            sf = snp.linalg.norm if nm == "linalg.norm" else getattr(snp, nm)
            jf = jnp.linalg.norm if nm == "linalg.norm" else getattr(jnp, nm)
            blockwise(f"reduction/{nm}{kw}/{kind}", lambda sf=sf, kw=kw, x=x: sf(x, **kw), lambda jf=jf, kw=kw, cat=cat: jf(cat, **kw))
            x1 = BlockArray([b for b in x.arrays if b.ndim >= 1])
            blockwise(f"reduction/{nm}/axis0/{kind}", lambda sf=sf, x1=x1: sf(x1, axis=0), lambda jf=jf, x1=x1: [jf(b, axis=0) for b in x1.arrays])
        # against float64 numpy at a float32 tolerance
        ref = float(np.sum(np.abs(np.concatenate([np.asarray(b, dtype=np.complex128).ravel() for b in x.arrays])) ** 2))
        record(f"reduction/norm^2-vs-float64/{kind}", lambda x=x, ref=ref: (abs(float(snp.linalg.norm(x)) ** 2 - ref) <= 1e-5 * (1 + ref), ref))
        # transformations keep the dtype
        if kind != "int32":
            blockwise(f"jit/{kind}", lambda x=x: jax.jit(lambda u: u * 2 + snp.abs(u))(x), lambda x=x: [b * 2 + jnp.abs(b) for b in x.arrays])
        if kind == "float32":
            blockwise("grad/float32", lambda x=x: jax.grad(lambda u: snp.sum(u * u))(x), lambda x=x: [2 * b for b in x.arrays])
    # the constructor's conversion (`jnp.array(x)`) in default mode: python floats -> float32, python ints -> int32, a numpy float64
    # array -> float32 (so it may sit next to a float32 jax array)
    blockwise("constructor/python-floats", lambda: snp.blockarray(([1.0, 2.5], [[3.0]])), lambda: [jnp.array([1.0, 2.5]), jnp.array([[3.0]])])
    blockwise("constructor/python-ints", lambda: snp.blockarray(([1, 2], [3])), lambda: [jnp.array([1, 2]), jnp.array([3])])
    blockwise("constructor/numpy-float64+jax-float32", lambda: BlockArray([np.ones(2), jnp.ones(3)]), lambda: [jnp.array(np.ones(2)), jnp.ones(3)])
    blockwise("constructor/python-complex", lambda: snp.blockarray(([1j, 2.0], [0.5 + 0j])), lambda: [jnp.array([1j, 2.0]), jnp.array([0.5 + 0j])])

    # mixed dtypes
    def mixed():
        try:
            r = BlockArray([jnp.ones(2, dtype=jnp.float32), jnp.ones(2, dtype=jnp.complex64)])
            return False, desc(r)
        except ValueError:
            return True, "ValueError"

    record("mixed-dtypes/constructor", mixed)
    a32 = BlockArray([dy((2,), "float32"), dy((3,), "float32")])
    c64 = BlockArray([dy((2,), "complex64"), dy((3,), "complex64")])
    i32 = BlockArray([dy((2,), "int32"), dy((3,), "int32")])
    blockwise("mixed-dtypes/float32-block+complex64-block", lambda: a32 + c64, lambda: [p + q for p, q in zip(a32.arrays, c64.arrays)])
    blockwise("mixed-dtypes/int32-block*float32-block", lambda: i32 * a32, lambda: [p * q for p, q in zip(i32.arrays, a32.arrays)])
    blockwise("mixed-dtypes/int32-block/int32-block", lambda: i32 / i32, lambda: [p / q for p, q in zip(i32.arrays, i32.arrays)])

    def setmixed():
        z = BlockArray([dy((2,), "float32"), dy((3,), "float32")])
        try:
            z[0] = jnp.ones(2, dtype=jnp.int32)
            return False, desc(z)
        except ValueError:
            return len({str(b.dtype) for b in z.arrays}) == 1, "ValueError"

    record("mixed-dtypes/assignment", setmixed)
else:
    from scipy import optimize as spopt

    from scico import solver

    forms = [("float32", [(4,)], False), ("float32", [(2, 3)], False), ("complex64", [(3,)], False), ("float32", [(2,), (3,)], True), ("complex64", [(2,), ()], True), ("float32", [()], False)]
    for dt, shapes, isblk in forms:
        def mk(kind):
            bl = [dy(s, dt) if kind == "t" else jnp.full(s, 1.5, dtype=dt) for s in shapes]
            return BlockArray(bl) if isblk else bl[0]

        t, x0 = mk("t"), mk("x0")
        for method in ("L-BFGS-B", "BFGS", "Nelder-Mead", "CG"):
            seen = []

            def f(z, seen=seen, t=t):
                seen.append((type(z).__name__, str(z.dtype)))
                return snp.sum(snp.abs(z - t) ** 2)

            def run(method=method, f=f, x0=x0, t=t, seen=seen, dt=dt, isblk=isblk, shapes=shapes):
                # Nelder-Mead in single precision stagnates in a regime where last-ulp differences between two XLA programs of the same
                # function decide comparisons; it is stopped before (tolerances far above float32 noise), on both sides
                opts = {"xatol": 1e-2, "fatol": 1e-2} if method == "Nelder-Mead" else None
                res = solver.minimize(f, x0, method=method, options=opts)
                xs = res.x.arrays if isblk else [res.x]
                ts = t.arrays if isblk else [t]
                cplx = dt == "complex64"
                sizes = [int(np.prod(s)) for s in shapes]

                def unflat(v):
                    # the model's layout (C18_layout_block): per block the real parts, then the imaginary parts
                    v = jnp.asarray(v).astype(jnp.float32)
                    bl, o = [], 0
                    for s, m in zip(shapes, sizes):
                        if cplx:
                            bl.append((v[o:o + m] + 1j * v[o + m:o + 2 * m]).reshape(s).astype(jnp.complex64))
                            o += 2 * m
                        else:
                            bl.append(v[o:o + m].reshape(s))
                            o += m
                    return BlockArray(bl) if isblk else bl[0]

                def flat(bl):
                    return np.concatenate([np.concatenate([np.asarray(b).real.ravel(), np.asarray(b).imag.ravel()]) if cplx else np.asarray(b).ravel() for b in bl]).astype(float)

                obj = lambda z: snp.sum(snp.abs(z - t) ** 2)  # noqa: E731
                if method == "Nelder-Mead":
                    gj = jax.jit(lambda v: obj(unflat(v)))
                    ref = spopt.minimize(lambda v: np.array(gj(v)).astype(float).item(), flat(x0.arrays if isblk else [x0]), method=method, options=opts)
                else:
                    vg = jax.jit(jax.value_and_grad(lambda v: obj(unflat(v))))

                    def fun(v):
                        val, g = vg(jnp.asarray(v, dtype=jnp.float32))
                        return np.array(val).astype(float).item(), np.array(g).astype(float)

                    ref = spopt.minimize(fun, flat(x0.arrays if isblk else [x0]), method=method, jac=True)
                dev = float(np.max(np.abs(flat(xs) - ref.x.astype(np.float32).astype(float))))
                tmax = float(np.max(np.abs(flat(xs) - flat(ts))))
                ok = (isinstance(res.x, BlockArray) == isblk and all(str(b.dtype) == dt and b.shape == tb.shape for b, tb in zip(xs, ts)) and len(xs) == len(ts)
                      and all(d == dt for _, d in seen) and len(seen) > 0
                      and (dev <= (5e-2 if method == "Nelder-Mead" else 1e-3) * (1 + float(np.max(np.abs(ref.x))))
                           or abs(float(res.fun) - float(ref.fun)) <= 1e-3 * (1 + abs(float(ref.fun))))
                      and all(k in res for k in ("fun", "nfev", "success")))
                return ok, {"objective_saw": sorted(set(seen)), "result": desc(res.x), "x0": desc(x0), "max_dev_from_scipy_on_flat_float32_problem": dev,
                            "nfev": [int(res.nfev), int(ref.nfev)], "distance_to_the_minimiser": tmax}

            record(f"minimize/{method}/{dt}/{'block' if isblk else 'array'}/{shapes}", run)
    record("minimize_scalar/float32-function", lambda: (lambda r: (abs(float(r.x) - 0.75) <= 1e-3, float(r.x)))(solver.minimize_scalar(lambda x: jnp.asarray((x - 0.75) ** 2, dtype=jnp.float32))))
    record("minimize/x0-default-dtype", lambda: (lambda r: (str(r.x.dtype) == "float32" and float(np.max(np.abs(np.asarray(r.x) - 1.0))) < 1e-3, desc(r.x)))(solver.minimize(lambda z: jnp.sum((z - 1.0) ** 2), snp.zeros((3,)))))
print(json.dumps({"results": out}))
