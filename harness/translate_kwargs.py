"""Translator for C18 (DESIGN §5.11, §6.3): keyword routing of scico.solver.minimize / minimize_scalar
-> lean/Scico/Generated/Kwargs.lean

With `ast` only (scico is not imported): for each wrapper

* `accepted`     : its parameters;
* the inner `spopt.<name>(...)` call: its keywords, and which of them are passed *verbatim*
  (`kw=<parameter>` where the parameter is never re-assigned in the wrapper);
* `forwarded`    : parameters whose value flows into an argument of the inner call (through local
  assignments, lambdas and nested functions);
* `rejected`     : parameters tested by an `if` that raises.

scipy's own parameter names (`inspect.signature`) are recorded so that Lean can check every
keyword passed on exists there.
"""

from __future__ import annotations

import ast
import inspect
from pathlib import Path

import common

OUT = common.LEAN_DIR / "Scico" / "Generated" / "Kwargs.lean"


def _names(node):
    return {n.id for n in ast.walk(node) if isinstance(n, ast.Name)}


def _find_func(tree, name):
    for node in tree.body:
        if isinstance(node, ast.FunctionDef) and node.name == name:
            return node
    raise common.Infra(f"solver.py: no function {name}")


def _params(fn):
    a = fn.args
    return [p.arg for p in a.posonlyargs + a.args + a.kwonlyargs] + ([a.vararg.arg] if a.vararg else []) + ([a.kwarg.arg] if a.kwarg else [])


def _defaults(fn):
    """[(parameter, source text of its default)] of the wrapper"""
    a = fn.args
    pos = a.posonlyargs + a.args
    out = []
    for p, d in zip(pos[len(pos) - len(a.defaults):], a.defaults):
        out.append((p.arg, ast.unparse(d)))
    for p, d in zip(a.kwonlyargs, a.kw_defaults):
        if d is not None:
            out.append((p.arg, ast.unparse(d)))
    return out


def _inner_call(fn, target):
    calls = []
    for node in ast.walk(fn):
        if isinstance(node, ast.Call) and isinstance(node.func, ast.Attribute) and node.func.attr == target and isinstance(node.func.value, ast.Name) and node.func.value.id == "spopt":
            calls.append(node)
    if len(calls) != 1:
        raise common.Infra(f"solver.{fn.name}: expected exactly one spopt.{target}(...) call, found {len(calls)}")
    return calls[0]


def _assigned(fn):
    """names (re)bound anywhere inside the wrapper body (assignment targets, nested def parameters)"""
    out = set()
    for node in ast.walk(fn):
        if isinstance(node, (ast.Assign, ast.AnnAssign, ast.AugAssign)):
            tg = node.targets if isinstance(node, ast.Assign) else [node.target]
            for t in tg:
                out |= {n.id for n in ast.walk(t) if isinstance(n, ast.Name)}
        elif isinstance(node, (ast.FunctionDef, ast.Lambda)) and node is not fn:
            a = node.args
            out |= {p.arg for p in a.posonlyargs + a.args + a.kwonlyargs}
    return out


def _taint(fn, p):
    """names whose value depends on parameter p (fixpoint over assignments and nested functions)"""
    t = {p}
    changed = True
    while changed:
        changed = False
        for node in ast.walk(fn):
            if isinstance(node, (ast.Assign, ast.AnnAssign, ast.AugAssign)) and getattr(node, "value", None) is not None:
                if _names(node.value) & t:
                    tg = node.targets if isinstance(node, ast.Assign) else [node.target]
                    for tt in tg:
                        for n in ast.walk(tt):
                            if isinstance(n, ast.Name) and n.id not in t:
                                t.add(n.id)
                                changed = True
            elif isinstance(node, ast.FunctionDef) and node is not fn:
                if node.name not in t and any(_names(b) & t for b in node.body):
                    t.add(node.name)
                    changed = True
            elif isinstance(node, ast.If):
                # control dependence: names assigned under a test on p
                if _names(node.test) & t:
                    for sub in node.body + node.orelse:
                        for n in ast.walk(sub):
                            if isinstance(n, (ast.Assign, ast.AnnAssign)):
                                tg = n.targets if isinstance(n, ast.Assign) else [n.target]
                                for tt in tg:
                                    for nn in ast.walk(tt):
                                        if isinstance(nn, ast.Name) and nn.id not in t:
                                            t.add(nn.id)
                                            changed = True
    return t


def _rejected(fn, params):
    out = []
    for node in ast.walk(fn):
        if isinstance(node, ast.If) and any(isinstance(n, ast.Raise) for b in node.body for n in ast.walk(b)):
            for p in params:
                if p in _names(node.test) and p not in out:
                    out.append(p)
    return out


def table(tree, wrapper, target):
    fn = _find_func(tree, wrapper)
    params = _params(fn)
    call = _inner_call(fn, target)
    reassigned = _assigned(fn)
    call_exprs = [(f"#{i}", a) for i, a in enumerate(call.args)] + [(k.arg or "**", k.value) for k in call.keywords]
    keywords = [k for k, _ in call_exprs if not k.startswith("#")]
    verbatim = [(k, v.id) for k, v in call_exprs if isinstance(v, ast.Name) and v.id in params and v.id not in reassigned]
    forwarded = []
    for p in params:
        t = _taint(fn, p)
        if any(_names(v) & t for _, v in call_exprs):
            forwarded.append(p)
    return {
        "accepted": params,
        "forwarded": forwarded,
        "rejected": _rejected(fn, params),
        "verbatim": verbatim,
        "callKeywords": keywords,
        "callExprs": [(k, ast.unparse(v)) for k, v in call_exprs],
        "defaults": _defaults(fn),
    }


def _module_literal(tree, name):
    for node in tree.body:
        if isinstance(node, (ast.Assign, ast.AnnAssign)):
            tg = node.targets if isinstance(node, ast.Assign) else [node.target]
            if any(isinstance(t, ast.Name) and t.id == name for t in tg) and node.value is not None:
                return node.value
    return None


def _eval_method_list(tree, comp):
    """evaluate the right-hand side of `method[.lower()] in <comp>` to a list of strings, or None"""
    try:
        if isinstance(comp, ast.Name):
            val = _module_literal(tree, comp.id)
            return None if val is None else _eval_method_list(tree, val)
        if isinstance(comp, ast.Call) and isinstance(comp.func, ast.Attribute) and comp.func.attr == "split":
            base = ast.literal_eval(comp.func.value)
            sep = ast.literal_eval(comp.args[0]) if comp.args else None
            return [str(x) for x in base.split(sep)]
        return [str(x) for x in ast.literal_eval(comp)]
    except Exception:  # noqa: BLE001
        return None


def grad_methods(tree):
    """the list of method names for which `minimize` asks for the gradient (`method… in <list>`);
    `["<unresolved>"]` when the test cannot be read (the Lean obligation then fails)"""
    fn = _find_func(tree, "minimize")
    for node in ast.walk(fn):
        if isinstance(node, ast.Compare) and len(node.ops) == 1 and isinstance(node.ops[0], ast.In) and "method" in _names(node.left):
            got = _eval_method_list(tree, node.comparators[0])
            return got if got is not None else ["<unresolved>"]
    return ["<unresolved>"]


def read_tables(repo: Path | None = None):
    repo = Path(repo) if repo else common.REPO
    tree = ast.parse((repo / "scico/solver.py").read_text())
    from scipy import optimize as spopt

    out = {}
    for wrapper, target in (("minimize", "minimize"), ("minimize_scalar", "minimize_scalar")):
        t = table(tree, wrapper, target)
        sig = inspect.signature(getattr(spopt, target))
        t["scipyParams"] = list(sig.parameters)
        t["scipyDefaults"] = [(k, repr(p.default)) for k, p in sig.parameters.items() if p.default is not inspect.Parameter.empty]
        out[wrapper] = t
    out["gradMethodsCode"] = grad_methods(tree)
    try:
        from scipy.optimize._minimize import MINIMIZE_METHODS

        out["scipyMethods"] = list(MINIMIZE_METHODS)
    except Exception:  # noqa: BLE001
        out["scipyMethods"] = []
    return out


def _s(x):
    return '"' + x.replace("\\", "\\\\").replace('"', '\\"') + '"'


def _l(xs):
    return "[" + ", ".join(_s(x) for x in xs) + "]"


def _p(ps):
    return "[" + ", ".join(f"({_s(a)}, {_s(b)})" for a, b in ps) + "]"


def render(tabs) -> str:
    out = [
        "/- GENERATED by harness/translate_kwargs.py from scico/solver.py (ast) and inspect.signature of",
        "   scipy.optimize.minimize / minimize_scalar — rewritten on every run, do not edit. -/",
        "import Scico.Proofs.WrapKwargs",
        "",
        "namespace Scico.Generated.Kwargs",
        "open Scico.Wrap.Kwargs",
        "",
    ]
    for name, lean in (("minimize", "minimize"), ("minimize_scalar", "minimizeScalar")):
        t = tabs[name]
        out += [
            f"def {lean} : FnTable :=",
            f"  {{ accepted := {_l(t['accepted'])}",
            f"    forwarded := {_l(t['forwarded'])}",
            f"    rejected := {_l(t['rejected'])}",
            f"    verbatim := {_p(t['verbatim'])}",
            f"    callKeywords := {_l(t['callKeywords'])}",
            f"    callExprs := {_p(t['callExprs'])}",
            f"    scipyParams := {_l(t['scipyParams'])}",
            f"    defaults := {_p(t['defaults'])}",
            f"    scipyDefaults := {_p(t['scipyDefaults'])} }}",
            "",
        ]
    out += [
        f"def gradMethodsCode : List String := {_l(tabs['gradMethodsCode'])}",
        f"def gradMethodsCodeLower : List String := {_l([m.lower() for m in tabs['gradMethodsCode']])}",
        f"def scipyMethodsInstalled : List String := {_l(tabs['scipyMethods'])}",
        "",
        "/-- the code's gradient-method list is the modelled one, and (lower-cased) it is exactly the set of",
        "    scipy solvers that take a gradient -/",
        "theorem gradMethods_ok : checkGrad gradMethodsCodeLower scipyMethodsInstalled = true := by decide",
        "",
    ]
    out += [
        "/-- no accepted keyword is silently ignored; the pass-through keywords are passed verbatim;",
        "    every keyword passed on exists in scipy (meaning: `Scico.Wrap.Kwargs.checkFn_sound`) -/",
        "theorem minimize_ok : checkFn minimize expectedVerbatimMinimize = true := by decide",
        "theorem minimizeScalar_ok : checkFn minimizeScalar expectedVerbatimScalar = true := by decide",
        "",
        "/-- omitted pass-through parameters mean what they mean in scipy: the defaults agree (except `minimize(method=)`,",
        "    meaning: `Scico.Wrap.Kwargs.checkDefaults_sound`) -/",
        "theorem minimizeDefaults_ok : checkDefaults minimize allowedDefaultDiffMinimize = true := by decide",
        "theorem minimizeScalarDefaults_ok : checkDefaults minimizeScalar [] = true := by decide",
        "",
        "end Scico.Generated.Kwargs",
        "",
    ]
    return "\n".join(out)


def generate(repo: Path | None = None):
    tabs = read_tables(repo)
    txt = render(tabs)
    OUT.parent.mkdir(parents=True, exist_ok=True)
    if not OUT.exists() or OUT.read_text() != txt:
        OUT.write_text(txt)
    return tabs


if __name__ == "__main__":
    import json

    print(json.dumps(generate(), indent=1))
