"""Run-time validation of the TRUSTED PRIMITIVE TABLE of C06 (harness/jaxpr_ir.py), DESIGN §5.6.

The hypotheses `Interp.Sound` of `C06_check_sound` say, per class, how a primitive depends on its *data* operands when
its *parameter* operands are held fixed.  This module tests exactly those statements numerically on the JAX primitives
themselves (`primitive.bind`, eager), one *instance* at a time - an instance is one classified equation of a traced
program: primitive + its static parameters + operand shapes/dtypes + the constant values of its parameter operands:

    linAll    F(a X + b Y) = a F(X) + b F(Y) jointly in all data operands, F(0) = 0 exactly (NaN counts as non-zero)
    bilinear  linear in each of the two operands with the other one fixed (random)
    divLike   linear in the numerator for a fixed random denominator
    realPart  additive, homogeneous for real scalars
    conj      additive, F(c u) = conj(c) F(u)

with complex scalars when the data operands are complex.  Data operands that happen to be constants in the instance
are randomised as well (the class fact is about all values).  Two sources of instances:

* `coverage_instances()`  - hand-made functions that exercise every entry of the table with adversarial static
  parameters (gather / scatter in every index mode with out-of-bounds and duplicate indices, negative and interior
  padding, clamped dynamic_slice, reversed cumsum, every fft type, every convert_element_type direction, ...);
  traced by JAX itself so that the static parameters are JAX's, not ours.  `coverage_report()` says which entries of
  the table were reached.
* the instances recorded by `jaxpr_ir.translate(..., record=...)` while the real operators are translated (*in situ*:
  the very equations the emitted obligations are about, with the actual index arrays / predicates).

A defect is a wrong table entry: the caller reports it as a disagreement (`jaxpr.table.entry`).
"""

from __future__ import annotations

import numpy as np

import jaxpr_ir as ir

LINEAR_CLASSES = (ir.LINALL, ir.BIL, ir.DIV, ir.REAL, ir.CONJ)


def _kind(dt):
    dt = np.dtype(dt)
    if np.issubdtype(dt, np.complexfloating):
        return "c"
    if np.issubdtype(dt, np.floating):
        return "f"
    if np.issubdtype(dt, np.bool_):
        return "b"
    if np.issubdtype(dt, np.integer):
        return "i"
    return "?"


def _tol(dts):
    t = 1e-10
    for dt in dts:
        dt = np.dtype(dt)
        if _kind(dt) in "fc" and dt.itemsize <= (8 if _kind(dt) == "c" else 4):
            t = 2e-4
    return t


def _rand(rng, shape, dt, nonzero=False):
    import common

    k = _kind(dt)
    if k == "i":
        a = rng.integers(-3, 4, size=shape)
        if nonzero:
            a = np.where(a == 0, 2, a)
        return a.astype(dt)
    a = common.dyadic(rng, shape, bits=3, scale=4.0)
    if nonzero:
        a = np.where(a == 0, 1.5, a)
    if k == "c":
        a = a + 1j * common.dyadic(rng, shape, bits=3, scale=4.0)
    return np.asarray(a).astype(dt)


def _scalars(rng, kind):
    """two scalars of the field of the data operands"""
    import common

    if kind == "i":
        return int(rng.integers(2, 4)), -int(rng.integers(1, 3))
    a = float(common.dyadic(rng, (), bits=2, scale=3.0)) or -1.5
    b = float(common.dyadic(rng, (), bits=2, scale=3.0)) or 0.75
    if kind == "c":
        return complex(a, 0.75), complex(b, -1.25)
    return a, b


def _defect(lhs, rhs):
    worst = 0.0
    for l, r in zip(lhs, rhs):
        l = np.asarray(l).astype(np.complex128)
        r = np.asarray(r).astype(np.complex128)
        if l.shape != r.shape:
            return float("inf")
        if l.size == 0:
            continue
        if not (np.all(np.isfinite(l)) and np.all(np.isfinite(r))):
            return float("inf")
        sc = 1.0 + max(float(np.max(np.abs(l))), float(np.max(np.abs(r))))
        worst = max(worst, float(np.max(np.abs(l - r))) / sc)
    return worst


def bind_instance(inst, ops):
    """execute one primitive instance on concrete operands (`None` entries are filled from the baked operands)"""
    import jax
    import jax.numpy as jnp

    prim, params = inst["prim"], inst["params"]
    ops = list(ops)
    for i, v in (inst.get("baked") or {}).items():
        ops[i] = v
    with jax.ensure_compile_time_eval():
        if prim is None:  # pseudo-primitive of the translator (scan unrolling, pmap boundary): a Python function
            r = inst["fn"](*ops)
            return list(r) if isinstance(r, (tuple, list)) else [r]
        if prim.name in ("psum", "all_gather"):
            # collectives need their named axis: evaluate inside a single-device pmap (what the translator inlines)
            ax = params["axes"][0] if prim.name == "psum" else params["axis_name"]
            r = jax.pmap(lambda *o: prim.bind(*o, **params), axis_name=ax)(*[jnp.asarray(o)[None] for o in ops])
            return [t[0] for t in (r if prim.multiple_results else [r])]
        r = prim.bind(*ops, **params)
    return list(r) if prim.multiple_results else [r]


def ir_eval(prog, leaves):
    """run a program translated with `keep=True` on concrete input leaves, equation by equation, with the JAX
    primitives themselves: what the emitted IR denotes when `den` is the real primitive instance"""
    import jax.numpy as jnp

    env = [jnp.asarray(l) for l in leaves]
    for (cls, pname, pids, dids), ex in zip(prog.eqns, prog.exec):
        if ex[0] == "lit":
            env.append(ex[1])
            continue
        inst, k = ex[1], ex[2]
        ops = [None] * len(inst["avals"])
        for pos, v in list(zip(inst["ppos"], pids)) + list(zip(inst["dpos"], dids)):  # (a trailing offset literal is not an operand)
            val = env[v]
            try:
                val = jnp.asarray(val, dtype=inst["avals"][pos][1])
            except Exception:  # noqa: BLE001  (opaque dtypes)
                pass
            ops[pos] = val
        env.append(bind_instance(inst, ops)[k])
    return [env[i] for i in prog.outs]


def signature(inst):
    """dedupe key of an instance"""
    import hashlib

    h = hashlib.sha1()
    fixed = dict(inst["pvals"])
    fixed.update(inst.get("baked") or {})
    for i in sorted(fixed):
        v = np.asarray(fixed[i])
        h.update(str((i, v.shape, v.dtype)).encode())
        h.update(np.ascontiguousarray(v).tobytes())
    return (inst["name"], inst["cls"], tuple(inst["ppos"]), tuple((s, np.dtype(d).str) for s, d in inst["avals"]), inst["static"], h.hexdigest())


def _validate_once(inst, rng, scale=1.0):
    """-> ("ok" | "skipped:<why>" , None)  or  ("defect", dict)"""
    import jax
    import jax.numpy as jnp

    cls, ppos, dpos = inst["cls"], inst["ppos"], inst["dpos"]
    if cls not in LINEAR_CLASSES:
        return "skipped:nonlinear-class", None
    if any(i not in inst["pvals"] for i in ppos):
        return "skipped:input-dependent-parameter", None  # the equation is tagged bad by the checker anyway
    if inst.get("offset"):
        return "skipped:affine-offset-instance", None  # emitted with a non-zero constant operand: tagged bad anyway
    avals = inst["avals"]
    kinds = {_kind(avals[i][1]) for i in dpos}
    if "b" in kinds or "?" in kinds:
        return "skipped:non-numeric-data-operand", None
    kind = "i" if "i" in kinds else ("c" if kinds == {"c"} else "f")
    prim, params = inst["prim"], inst["params"]

    def F(data):
        ops = [None] * len(avals)
        for i in ppos:
            ops[i] = inst["pvals"][i]
        for i, d in zip(dpos, data):
            ops[i] = jnp.asarray(d, dtype=avals[i][1])
        return [np.asarray(t) for t in bind_instance(inst, ops)]

    def comb(a, X, b, Y):
        return [np.asarray(a * x + b * y).astype(avals[i][1]) for i, x, y in zip(dpos, X, Y)]

    def rnd(nonzero_at=()):
        out = []
        for k, i in enumerate(dpos):
            v = _rand(rng, avals[i][0], avals[i][1], nonzero=(k in nonzero_at))
            if scale != 1.0 and _kind(avals[i][1]) in "fc":
                v = (v * scale).astype(avals[i][1])
            out.append(v)
        return out

    a, b = _scalars(rng, kind)
    outk = None
    try:
        zero = F([np.zeros(avals[i][0], avals[i][1]) for i in dpos])
        outk = {_kind(z.dtype) for z in zero}
        tol = _tol([avals[i][1] for i in dpos] + [z.dtype for z in zero])
        if kind == "c" and "c" not in outk and cls not in (ir.REAL,):
            return "defect", {"what": "complex data operands, real output, class is not realPart"}

        def bad(what, lhs, rhs, **kw):
            d = _defect(lhs, rhs)
            if d > tol:
                return {"what": what, "defect": d, "tol": tol, "a": repr(a), "b": repr(b), **kw}
            return None

        def zero_ok(vals):
            return all(np.all(np.asarray(z) == 0) for z in vals)

        if cls == ir.LINALL:
            if not zero_ok(zero):
                return "defect", {"what": "F(0) != 0 with the parameter operands fixed", "F0": [np.asarray(z).ravel()[:8].tolist().__repr__() for z in zero]}
            X, Y = rnd(), rnd()
            FX, FY, FZ = F(X), F(Y), F(comb(a, X, b, Y))
            r = bad("F(aX+bY) != aF(X)+bF(Y) jointly in the data operands", FZ, [a * p + b * q for p, q in zip(FX, FY)])
            if r:
                return "defect", r
        elif cls in (ir.BIL, ir.DIV):
            if len(dpos) != 2:
                return "defect", {"what": f"{cls} primitive with {len(dpos)} data operands"}
            sides = (0, 1) if cls == ir.BIL else (0,)
            for s in sides:
                o = 1 - s
                base = rnd(nonzero_at=(1,) if cls == ir.DIV else ())
                X, Y = rnd(), rnd()
                k2 = _kind(avals[dpos[s]][1])
                a2, b2 = _scalars(rng, "i" if kind == "i" else k2)

                def G(u, _s=s, _o=o, _base=base):
                    d = [None, None]
                    d[_s], d[_o] = u, _base[_o]
                    return F(d)

                Z = np.asarray(a2 * X[s] + b2 * Y[s]).astype(avals[dpos[s]][1])
                GX, GY, GZ = G(X[s]), G(Y[s]), G(Z)
                r = bad(f"not linear in data operand {s} with the other one fixed", GZ, [a2 * p + b2 * q for p, q in zip(GX, GY)])
                if r:
                    return "defect", r
                if not zero_ok(G(np.zeros(avals[dpos[s]][0], avals[dpos[s]][1]))):
                    return "defect", {"what": f"F(0, v) != 0 (operand {s})"}
        elif cls in (ir.REAL, ir.CONJ):
            if len(dpos) != 1:
                return "defect", {"what": f"{cls} primitive with {len(dpos)} data operands"}
            if not zero_ok(zero):
                return "defect", {"what": "F(0) != 0"}
            X, Y = rnd(), rnd()
            FX, FY = F(X), F(Y)
            r = bad("not additive", F(comb(1, X, 1, Y)), [p + q for p, q in zip(FX, FY)])
            if r:
                return "defect", r
            if cls == ir.REAL:
                ar, _ = _scalars(rng, "f")
                r = bad("not homogeneous for a real scalar", F(comb(ar, X, 0, Y)), [ar * p for p in FX])
            else:
                r = bad("F(c u) != conj(c) F(u)", F(comb(a, X, 0, Y)), [np.conj(a) * p for p in FX])
            if r:
                return "defect", r
    except Exception as e:  # noqa: BLE001
        return "skipped:bind-raised:" + type(e).__name__, {"detail": repr(e)[:200]}
    return "ok", None


def validate(inst, rng, trials=3):
    """several independent draws (unit scale, x64, x1/8): -> ("ok" | "skipped:<why>", None) or ("defect", dict)"""
    st, d = "ok", None
    for scale in (1.0, 64.0, 0.125)[:trials]:
        st, d = _validate_once(inst, rng, scale)
        if st != "ok":
            return st, d
    return st, d


def describe(inst):
    st = inst["static"]
    return {"prim": inst["name"], "class": inst["cls"], "param_operands": list(inst["ppos"]), "data_operands": list(inst["dpos"]),
            "operands": [f"{np.dtype(d).name}{list(s)}" for s, d in inst["avals"]], "static": st[:300],
            "params": {str(i): np.asarray(v).ravel()[:12].tolist() for i, v in inst["pvals"].items()}}


# ---------------------------------------------------------------------------------------------------------------
# coverage functions: every entry of the table, adversarial static parameters


def coverage_functions():
    """[(label, fn, [(shape, dtype)])] ; everything except the arguments is a closed-over constant"""
    import jax
    import jax.numpy as jnp
    from jax import lax

    f8, c16, f4 = np.float64, np.complex128, np.float32
    idx_oob = jnp.asarray(np.array([0, 7, 2, -9, 2]))  # out of bounds both ways, duplicates
    idx_in = jnp.asarray(np.array([4, 0, 2, 2, 5]))
    mask = jnp.asarray(np.array([True, False, True, True, False, True]))
    which = jnp.asarray(np.array([0, 2, 1, 1, 0, 2], dtype=np.int32))
    c6 = jnp.asarray(np.array([0.5, -1.0, 2.0, 0.25, -0.75, 1.5]))
    c6c = c6 * (1 - 0.5j)
    M = jnp.asarray(np.arange(12.0).reshape(2, 6) / 4 - 1)
    out = []

    def add(label, fn, *specs):
        out.append((label, fn, list(specs)))

    for dt in (f8, c16):
        t = np.dtype(dt).name
        v6, m23 = ((6,), dt), ((2, 3), dt)
        cc = c6c if dt is c16 else c6
        add(f"add/sub/neg:{t}", lambda x, y: (x + y, x - y, -x), v6, v6)
        add(f"concatenate:{t}", lambda x, y: jnp.concatenate([x, y, x]), v6, v6)
        add(f"pad-zero:{t}", lambda x: lax.pad(x, jnp.zeros((), x.dtype), [(1, 2, 0)]), v6)
        add(f"pad-negative-interior:{t}", lambda x: lax.pad(x, jnp.zeros((), x.dtype), [(-1, 2, 1)]), v6)
        add(f"pad-value-operand:{t}", lambda x, v: lax.pad(x, v, [(2, 1, 1)]), v6, ((), dt))
        add(f"pad-modes:{t}", lambda x: (jnp.pad(x, 2, mode="edge"), jnp.pad(x, 2, mode="reflect"), jnp.pad(x, 2, mode="wrap"), jnp.pad(x, 2, mode="symmetric")), v6)
        add(f"slice-strided:{t}", lambda x: (x[1:5:2], x[::-1], x[::-2]), v6)
        add(f"reshape/squeeze/expand/transpose:{t}", lambda x: (x.reshape(3, 2).T, x[None, :, None].squeeze(0), jnp.swapaxes(x, 0, 1)), m23)
        add(f"reshape-with-dimensions:{t}", lambda x: lax.reshape(x, (3, 2), dimensions=(1, 0)), m23)
        add(f"broadcast:{t}", lambda x: jnp.broadcast_to(x[:, None], (6, 3)) + jnp.zeros((2, 6, 3), x.dtype), v6)
        add(f"rev:{t}", lambda x: lax.rev(x, (0, 1)), m23)
        add(f"reduce_sum:{t}", lambda x: (jnp.sum(x), jnp.sum(x, axis=0), jnp.sum(x, axis=1, keepdims=True), jnp.mean(x)), m23)
        add(f"cumsum:{t}", lambda x: (jnp.cumsum(x), lax.cumsum(x, axis=1, reverse=True), jnp.cumsum(x, axis=0)), m23)
        add(f"fft:{t}", lambda x: (jnp.fft.fft(x), jnp.fft.ifft(x), jnp.fft.fftn(x.reshape(2, 3)), jnp.fft.fftshift(x)), v6)
        add(f"copy:{t}", lambda x: jnp.array(x, copy=True), v6)
        add(f"split:{t}", lambda x: jnp.split(x, [2, 3]), v6)
        add(f"select_n-mask:{t}", lambda x, y: (jnp.where(mask, x, y), jnp.where(mask, x, 0)), v6, v6)
        add(f"select_n-3way:{t}", lambda x, y, z: lax.select_n(which, x, y, z), v6, v6, v6)
        for mode in ("clip", "fill", "promise_in_bounds", None):
            idx = idx_in if mode in ("promise_in_bounds", None) else idx_oob
            if mode != "promise_in_bounds":
                add(f"gather-take:{mode}:{t}", lambda x, _m=mode, _i=idx: jnp.take(x, _i, mode=_m), v6)
                add(f"gather-take-oob:{mode}:{t}", lambda x, _m=mode: jnp.take(x, idx_oob, mode=_m), v6)
            add(f"gather-at-get:{mode}:{t}", lambda x, _m=mode, _i=idx: x.at[_i].get(mode=_m), v6)
        add(f"gather-fill0:{t}", lambda x: x.at[idx_oob].get(mode="fill", fill_value=0), v6)
        add(f"gather-index:{t}", lambda x: (x[idx_in], x[jnp.asarray([[0, 1], [1, 2]]), jnp.asarray([2, 0])], jnp.take_along_axis(x, jnp.asarray([[1, 0, 0], [2, 2, 1]]), 1)), m23)
        for mode in ("clip", "drop", "promise_in_bounds", None):
            idx = idx_in if mode in ("promise_in_bounds", None) else idx_oob
            add(f"scatter-add:{mode}:{t}", lambda x, u, _m=mode, _i=idx: x.at[_i].add(u, mode=_m), v6, ((5,), dt))
            add(f"scatter-set:{mode}:{t}", lambda x, u, _m=mode, _i=idx: x.at[_i].set(u, mode=_m), v6, ((5,), dt))
        add(f"scatter-set-const:{t}", lambda x: x.at[jnp.asarray([1, 4])].set(0), v6)
        add(f"dynamic_slice:{t}", lambda x: (lax.dynamic_slice(x, (jnp.asarray(1),), (4,)), lax.dynamic_slice(x, (jnp.asarray(5),), (4,)), lax.dynamic_slice(x, (jnp.asarray(-3),), (2,))), v6)
        add(f"dynamic_update_slice:{t}", lambda x, u: (lax.dynamic_update_slice(x, u, (jnp.asarray(2),)), lax.dynamic_update_slice(x, u, (jnp.asarray(5),))), v6, ((3,), dt))
        add(f"roll/diff/tril:{t}", lambda x: (jnp.roll(x, 2), jnp.diff(x), jnp.tril(jnp.outer(x, jnp.ones(6, x.dtype)))), v6)
        add(f"mul:{t}", lambda x, y: (x * y, cc.astype(x.dtype) * x, x * 2.5), v6, v6)
        add(f"dot_general:{t}", lambda x, y: (M.astype(x.dtype) @ x, jnp.dot(x, y), jnp.outer(x, y), jnp.einsum("ij,j->i", x.reshape(1, 6), y), jnp.tensordot(x.reshape(2, 3), y.reshape(3, 2), 1)), v6, v6)
        add(f"conv_general_dilated:{t}", lambda x, y: (jnp.convolve(x, y, mode="full"), jnp.convolve(x, y[:3], mode="same"), jax.scipy.signal.convolve(x.reshape(2, 3), y[:4].reshape(2, 2), mode="valid")), v6, v6)
        add(f"div:{t}", lambda x, y: (x / y, x / 4.0, x / cc.astype(x.dtype)), v6, v6)
        add(f"all_gather-pmap:{t}", lambda x: jax.pmap(lambda v: lax.all_gather(v, "i"), axis_name="i")(x[None]), v6)
        add(f"device_put:{t}", lambda x: jax.device_put(x) + x, v6)
        add(f"psum-pmap:{t}", lambda x: jax.pmap(lambda v: lax.psum(v, "i") - v, axis_name="i")(x[None]), v6)
    add("add_any-transpose", lambda ct: jax.linear_transpose(lambda x: x + jnp.roll(x, 1) * c6 + x[::-1], jnp.zeros(6))(ct)[0], ((6,), f8))
    add("real/imag:complex128", lambda x: (x.real, x.imag, jnp.real(x) + jnp.imag(x)), ((6,), c16))
    add("conj:complex128", lambda x: jnp.conj(x), ((6,), c16))
    add("complex:float64", lambda x, y: lax.complex(x, y), ((6,), f8), ((6,), f8))
    add("convert:f64->c128", lambda x: x.astype(c16), ((6,), f8))
    add("convert:c128->f64", lambda x: lax.convert_element_type(x, f8), ((6,), c16))
    add("convert:f64->f32", lambda x: x.astype(f4), ((6,), f8))
    add("convert:f32->f64", lambda x: x.astype(f8), ((6,), f4))
    add("convert:c128->c64", lambda x: x.astype(np.complex64), ((6,), c16))
    add("convert:f64->int", lambda x: x.astype(np.int32), ((6,), f8))
    add("rfft/irfft", lambda x: (jnp.fft.rfft(x), jnp.fft.irfft(jnp.fft.rfft(x)[:4] * c6[:4], n=6)), ((6,), f8))
    add("irfft-of-complex", lambda x: jnp.fft.irfft(x, n=10), ((6,), c16))
    add("float32-arith", lambda x, y: (x + y, x * 3, jnp.cumsum(x), x[idx_in]), ((6,), f4), ((6,), f4))
    add("int-div", lambda x: x // 2, ((6,), np.int32))
    return out


def _instances_of(fn, specs):
    import jax.numpy as jnp

    rec = []
    closed = ir.trace(fn, [jnp.zeros(s, d) for s, d in specs])
    try:
        ir.translate(closed, record=rec)
    except ir.NotTranslatable as e:
        return rec, e
    return rec, None


def coverage_instances():
    """-> [(label, instance)], [(label, NotTranslatable)]"""
    insts, nt = [], []
    for label, fn, specs in coverage_functions():
        rec, err = _instances_of(fn, specs)
        insts += [(label, i) for i in rec]
        if err is not None:
            nt.append((label, err))
    return insts, nt


def table_entries():
    """names of the table's linear classes (the entries whose class is a claim that can be wrong in the unsound direction)"""
    return sorted(set(ir._LIN_ALL_DATA) | set(ir._LIN_WITH_PARAMS) | set(ir._BILINEAR) | set(ir._DIV) | set(ir._REAL) | set(ir._CONJ)
                  | {"convert_element_type", "convert_element_type[c->r]", "fft[irfft]"})


def jax_primitive_names():
    """names of the primitives this JAX version defines (to tell 'entry not reached' from 'entry does not exist here')"""
    names = set()
    try:
        from jax._src import core as jcore
        from jax._src.interpreters import mlir

        for p in list(getattr(mlir, "_lowerings", {})) + [k for t in getattr(mlir, "_platform_specific_lowerings", {}).values() for k in t]:
            if isinstance(p, jcore.Primitive):
                names.add(p.name)
    except Exception:  # noqa: BLE001
        pass
    return names


# ---------------------------------------------------------------------------------------------------------------
# negative controls: deliberately WRONG table entries - the validator must report every one of them


def negative_controls():
    """[(label, instance)] : instances recorded from real traces whose class / operand roles were then falsified.
    `validate` must answer "defect" on each (self-test of the stream: a wrong table entry is detected)."""
    import jax.numpy as jnp
    from jax import lax

    f8, c16 = np.float64, np.complex128
    idx_oob = jnp.asarray(np.array([0, 7, 2, -9, 2]))
    out = []

    def grab(fn, specs, prim_name):
        rec, _ = _instances_of(fn, specs)
        for i in rec:
            if i["name"].split("[")[0].split("#")[0] == prim_name or i["name"] == prim_name:
                return dict(i)
        raise KeyError(prim_name)

    def wrong(label, fn, specs, prim_name, cls, ppos=None, unbake=False, pvals=None):
        i = grab(fn, specs, prim_name)
        n = len(i["avals"])
        i["cls"] = cls
        if unbake:  # the entry as it was before the audit: indices are a parameter operand, no offset
            i["pvals"] = dict(i.get("baked") or {})
            i["baked"], i["offset"] = {}, False
            ppos = sorted(i["pvals"])
        if ppos is not None:
            i["ppos"] = list(ppos)
        if pvals:
            i["pvals"] = {**i["pvals"], **{k: jnp.asarray(v) for k, v in pvals.items()}}
        i["dpos"] = [k for k in range(n) if k not in i["ppos"]]
        i["name"] = i["name"] + " AS " + cls
        out.append((label, i))

    v6, w6 = ((6,), f8), ((6,), c16)
    wrong("abs as linAll", lambda x: jnp.abs(x), [v6], "abs", ir.LINALL)
    wrong("abs(complex) as realPart", lambda x: jnp.abs(x), [w6], "abs", ir.REAL)
    wrong("max as linAll", lambda x: jnp.maximum(x, 0.0), [v6], "max", ir.LINALL)
    wrong("min as linAll", lambda x, y: jnp.minimum(x, y), [v6, v6], "min", ir.LINALL)
    wrong("integer_pow[2] as linAll", lambda x: x**2, [v6], "integer_pow", ir.LINALL)
    wrong("sign as linAll", lambda x: jnp.sign(x), [v6], "sign", ir.LINALL)
    wrong("exp as linAll", lambda x: jnp.exp(x), [v6], "exp", ir.LINALL)
    wrong("reduce_max as linAll", lambda x: jnp.max(x), [v6], "reduce_max", ir.LINALL)
    wrong("reduce_prod as linAll", lambda x: jnp.prod(x), [v6], "reduce_prod", ir.LINALL)
    wrong("sort as linAll", lambda x: jnp.sort(x), [v6], "sort", ir.LINALL)
    wrong("clamp as linAll", lambda x: lax.clamp(-1.0, x, 1.0), [v6], "clamp", ir.LINALL)
    wrong("cumprod as linAll", lambda x: jnp.cumprod(x), [v6], "cumprod", ir.LINALL)
    wrong("cummax as linAll", lambda x: lax.cummax(x), [v6], "cummax", ir.LINALL)
    wrong("cumlogsumexp as linAll", lambda x: lax.cumlogsumexp(x), [v6], "cumlogsumexp", ir.LINALL)
    wrong("rem as linAll", lambda x: jnp.remainder(x, 1.5), [v6], "rem", ir.LINALL)
    wrong("real as linAll", lambda x: x.real, [w6], "real", ir.LINALL)
    wrong("conj as linAll", lambda x: jnp.conj(x), [w6], "conj", ir.LINALL)
    wrong("real as conj", lambda x: x.real, [w6], "real", ir.CONJ)
    wrong("convert c->r as linAll", lambda x: lax.convert_element_type(x, f8), [w6], "convert_element_type", ir.LINALL)
    wrong("irfft as linAll", lambda x: jnp.fft.irfft(x, n=10), [w6], "fft", ir.LINALL)
    wrong("mul as linAll (jointly)", lambda x, y: x * y, [v6, v6], "mul", ir.LINALL)
    wrong("div as bilinear", lambda x, y: x / y, [v6, v6], "div", ir.BIL)
    wrong("atan2 as bilinear", lambda x, y: jnp.arctan2(x, y), [v6, v6], "atan2", ir.BIL)
    wrong("pad: padding value as a parameter", lambda x: lax.pad(x, jnp.asarray(1.5), [(1, 1, 0)]), [v6], "pad", ir.LINALL, ppos=[1], pvals={1: np.float64(1.5)})
    wrong("gather[fill, NaN] with out-of-bounds indices as plain gather", lambda x: jnp.take(x, idx_oob), [v6], "gather", ir.LINALL, unbake=True)
    wrong("gather[fill_value=1] with out-of-bounds indices as plain gather", lambda x: x.at[idx_oob].get(mode="fill", fill_value=1.0), [v6], "gather", ir.LINALL, unbake=True)
    wrong("scatter-mul as linAll", lambda x, u: x.at[jnp.asarray([1, 3])].multiply(u), [v6, ((2,), f8)], "scatter-mul", ir.LINALL, ppos=[1], pvals={1: np.array([[1], [3]], np.int32)})
    wrong("select_n: a case operand as parameter", lambda x: jnp.where(jnp.asarray([True, False] * 3), x, 1.0), [v6], "select_n", ir.LINALL, ppos=[0, 2], pvals={0: np.array([True, False] * 3), 2: np.ones(6)})
    return out
