"""C18 - scipy.optimize wrappers are transparent to shape, dtype and options.

Tie: (1) `translate_kwargs.py` regenerates the keyword tables of `solver.minimize` /
`minimize_scalar` (ast) and Lean decides that none is silently dropped; (2) the flatten / split /
join / un-flatten helpers of solver.py are compared with the Lean model on random containers;
(3) `solver.minimize` is compared, result field by result field, with a *direct*
`scipy.optimize.minimize` call on the flattened real problem whose layout comes from the model
(index map of `Scico.Wrap.result`), for every method and every accepted keyword, each keyword in
a scenario where it provably changes scipy's answer; (4) `minimize_scalar` likewise.
"""

from __future__ import annotations

import json
import warnings

import numpy as np

import common
import translate_kwargs
from common import ModelErr, b2fs, fs2b

PROP = "C18"
CLAIMED = True
ENGINE = "Wrap"
DESIGN_REF = "DESIGN.md §5.11"
TECHNIQUE = (
    "Lean 4 proof (lists: cumulative-sum split = consecutive chunks, split/join and ravel/reshape bijections, "
    "minimiser transfer) + keyword tables extracted with ast and decided in Lean + differential test against direct scipy"
)
LEVEL_TEXT = (
    "Lean theorems about the transcription of solver.minimize's plumbing: join∘split = id and split∘join = id, "
    "unravel∘ravel = id and ravel∘unravel = id for arrays and block arrays of any shapes (order preserved), the function "
    "handed to scipy is func∘join∘reshape, flattening is a bijection onto R^n so scipy's minimiser of the flat problem is "
    "returned as a minimiser of func among containers of x0's form; result has x0's container kind, shape and dtype; "
    "gradient requested exactly for scipy's gradient-based solvers; the flat gradient pairs with flat directions as the "
    "container of partials pairs slot-wise (true gradient); index layout of block / complex entries; bounds given as "
    "containers = the same box on the flat vector; vectors of the wrong length rejected for nested shapes too; generated "
    "keyword tables: no accepted keyword silently ignored (decide)."
)
LEVEL_NOTE = (
    "Trusted: Lean kernel + Mathlib (axioms propext, Classical.choice, Quot.sound); jnp.ravel/reshape keep row-major order, "
    "jnp.split/concatenate, jax.value_and_grad (true gradient of a real function of real arrays) and scipy.optimize itself are "
    "contracts, exercised by comparing solver.minimize with a direct scipy call on the model's layout (x, fun, nit, nfev); "
    "float rounding and the float64->x0.dtype casts are not modelled; the ast translator is trusted to read solver.py."
)
PROP_MODULES = ["Scico.Props.C18"]
EXTRA_TARGETS = ["Drv.Wrap", "Scico.Proofs.WrapKwargs", "Scico.Proofs.WrapSource"]
DRIVER = "Wrap"
FILES = ["scico/solver.py"]
RULE = (
    "containers: dtype in {f32,f64,c64,c128} x {array of rank 0-3, block array of 1-3 blocks incl. 0-d blocks}; objective "
    "families {weighted quadratic, quartic, coupled}; every scipy method (canonical and lower-case spelling) x >= 2 container "
    "forms; every accepted keyword (tol, options, bounds as pairs / Bounds, constraints as dict / LinearConstraint / "
    "NonlinearConstraint, callback, hess, hessp, args) in a scenario where the direct scipy answer with the keyword differs "
    "from the one without; helper round trips on random containers + wrong-length vectors. A case is non-trivial when the "
    "container is not a 1-d float64 array or a non-default keyword is passed; distinct by (form, objective, method, scenario). "
    "Round 2: bounds given as containers (flattened by the model's layout, result checked entrywise), minimize_scalar with "
    "functions returning arrays of 7 shapes and with argument combinations scipy rejects, _unravel on () and wrong lengths."
)
ASSUMPTIONS = [
    "scipy.optimize.minimize / minimize_scalar are the reference for the flattened problem (contract)",
    "jax.value_and_grad returns the gradient w.r.t. the real entries of a real (block) array (contract, exercised: gradient-based runs match a direct scipy run that differentiates the flat problem)",
    "jnp.ravel / reshape / split / concatenate / stack are row-major and order preserving (contract, exercised by the helper round trips)",
]

METHODS = ["Nelder-Mead", "Powell", "CG", "BFGS", "Newton-CG", "L-BFGS-B", "TNC", "COBYLA", "COBYQA", "SLSQP", "trust-constr",
           "dogleg", "trust-ncg", "trust-exact", "trust-krylov"]
NEEDS_HESS = {"Newton-CG": "hessp", "dogleg": "hess", "trust-ncg": "hessp", "trust-exact": "hess", "trust-krylov": "hessp"}


def generate(ctx):
    tabs = translate_kwargs.generate()
    ctx.extra["keyword_tables"] = {k: ({kk: vv for kk, vv in v.items() if kk != "callExprs"} if isinstance(v, dict) else v) for k, v in tabs.items()}
    import block_translate

    src = block_translate.generate("wrap")
    ctx.extra["source_skeletons"] = {k: len(v) for k, v in src}
    return [("Scico.Generated.Kwargs", "keyword routing of minimize/minimize_scalar: nothing silently ignored, pass-through verbatim, keywords exist in scipy, gradient-method list, defaults"),
            ("Scico.Generated.WrapSource", "normalised decision structure of _ravel/_unravel/_wrap_func/_wrap_func_and_grad/_split_real_imag/_join_real_imag/minimize/minimize_scalar = pinned skeletons")]


# ---------------------------------------------------------------------------------------------


class Env:
    def __init__(self):
        self.scico = common.setup_scico()
        import jax
        import jax.numpy as jnp
        from scipy import optimize as spopt

        import scico.numpy as snp
        from scico import solver
        from scico.numpy import BlockArray

        self.jax, self.jnp, self.snp, self.solver, self.spopt, self.BlockArray = jax, jnp, snp, solver, spopt, BlockArray
        import logging

        logging.getLogger("jax._src.callback").setLevel(logging.CRITICAL)  # tracebacks of expected scipy errors
        try:
            import cobyqa  # noqa: F401

            self.have_cobyqa = True
        except Exception:  # noqa: BLE001
            self.have_cobyqa = False


def is_cplx(dtype):
    return np.dtype(dtype).kind == "c"


def container_json(env, x):
    blocks = x.arrays if isinstance(x, env.BlockArray) else [x]
    cplx = is_cplx(blocks[0].dtype) if blocks else False
    out = []
    for b in blocks:
        a = np.asarray(b)
        d = {"shape": list(a.shape), "re": fs2b(a.real)}
        if cplx:
            d["im"] = fs2b(a.imag)
        out.append(d)
    return {"cplx": bool(cplx), "isblk": isinstance(x, env.BlockArray), "blocks": out}


def container_of(env, j, dtype):
    """model container JSON -> real jax container with the given dtype"""
    blocks = []
    for b in j["blocks"]:
        re = np.array(b2fs(b["re"]), dtype=np.float64).reshape(b["shape"])
        if j["cplx"]:
            a = re + 1j * np.array(b2fs(b["im"]), dtype=np.float64).reshape(b["shape"])
        else:
            a = re
        blocks.append(env.jnp.array(a.astype(dtype)))
    return env.BlockArray(blocks) if j["isblk"] else blocks[0]


def same_container(env, a, b, rtol=0.0):
    BA = env.BlockArray
    if isinstance(a, BA) != isinstance(b, BA):
        return False
    if isinstance(a, BA):
        return len(a) == len(b) and all(same_container(env, x, y, rtol) for x, y in zip(a.arrays, b.arrays))
    aa, bb = np.asarray(a), np.asarray(b)
    if aa.shape != bb.shape or aa.dtype != bb.dtype:
        return False
    if rtol == 0.0:
        return bool(np.array_equal(aa, bb, equal_nan=True))
    return bool(np.allclose(aa, bb, rtol=rtol, atol=rtol, equal_nan=True))


def describe(env, x):
    if isinstance(x, env.BlockArray):
        return {"BlockArray": [describe(env, b) for b in x.arrays]}
    if hasattr(x, "shape"):
        a = np.asarray(x)
        return {"shape": list(a.shape), "dtype": str(a.dtype), "v": [complex(v).__repr__() if a.dtype.kind == "c" else float(v) for v in a.ravel()[:8].tolist()]}
    return repr(x)[:100]


# ---------------------------------------------------------------------------------------------
# forms, data, objectives (all reproducible from a small JSON case)

FORMS = [
    {"dtype": "float64", "shapes": [[2, 3]], "isblk": False},
    {"dtype": "float64", "shapes": [[5]], "isblk": False},
    {"dtype": "float32", "shapes": [[4]], "isblk": False},
    {"dtype": "float64", "shapes": [[]], "isblk": False},
    {"dtype": "complex128", "shapes": [[2, 2]], "isblk": False},
    {"dtype": "complex64", "shapes": [[3]], "isblk": False},
    {"dtype": "float64", "shapes": [[2, 3], [3]], "isblk": True},
    {"dtype": "float64", "shapes": [[2], []], "isblk": True},
    {"dtype": "complex128", "shapes": [[2], [1, 2]], "isblk": True},
    {"dtype": "float32", "shapes": [[2], [2]], "isblk": True},
    {"dtype": "float64", "shapes": [[3]], "isblk": True},
    {"dtype": "float64", "shapes": [[1, 2, 2]], "isblk": False},
]


def form_tag(form):
    return f"{form['dtype']}:{'blk' if form['isblk'] else 'arr'}:{form['shapes']}"


def make_data(env, form, seed):
    """x0 (zeros-ish start), target t and weights w as containers of the form"""
    rng = np.random.Generator(np.random.PCG64(seed))
    dt = np.dtype(form["dtype"])

    def mk(kind):
        blocks = []
        for s in form["shapes"]:
            s = tuple(s)
            if kind == "w":
                a = (np.abs(common.dyadic(rng, s, bits=2, scale=2.0)) + 0.5).astype(np.float64)
                a = a.astype(np.float32 if dt in (np.dtype("float32"), np.dtype("complex64")) else np.float64)
            else:
                a = common.dyadic(rng, s, bits=3, scale=1.0)
                if dt.kind == "c":
                    a = a + 1j * common.dyadic(rng, s, bits=3, scale=1.0)
                a = np.asarray(a).astype(dt)
            blocks.append(env.jnp.array(a))
        return env.BlockArray(blocks) if form["isblk"] else blocks[0]

    return mk("x0"), mk("t"), mk("w")


def make_objective(env, name, t, w):
    snp = env.snp

    if name == "quad":
        def f(z, a=1.0, b=0.0):
            return a * snp.sum(w * snp.abs(z - t) ** 2) + b
    elif name == "quartic":
        def f(z, a=1.0, b=0.0):
            d = snp.abs(z - t) ** 2
            return a * snp.sum(w * d) + snp.sum(d * d) + b
    elif name == "coupled":
        def f(z, a=1.0, b=0.0):
            d = snp.abs(z - t) ** 2
            return a * snp.sum(w * d) + 0.25 * snp.real(snp.sum(z - t)) ** 2 + b
    else:
        raise common.Infra(name)
    return f


# ---------------------------------------------------------------------------------------------
# the reference: direct scipy call on the flattened real problem, layout from the model


class Layout:
    def __init__(self, env, model, x0):
        self.env = env
        xj = container_json(env, x0)
        fl = model.call("flatten", x0=xj)
        self.v0 = np.array(b2fs(fl["v"]), dtype=np.float64)
        self.n = len(self.v0)
        lay = model.call("result", x0=xj, v=fs2b(np.arange(self.n, dtype=np.float64)))
        self.cplx, self.isblk = lay["cplx"], lay["isblk"]
        self.blocks = []
        for b in lay["blocks"]:
            re = np.array(b2fs(b["re"]), dtype=np.int64)
            im = np.array(b2fs(b["im"]), dtype=np.int64) if self.cplx else None
            self.blocks.append((tuple(b["shape"]), re, im))
        dts = model.call("dtype", dtype=str(np.dtype(x0.dtype)))
        self.work, self.result_dtype = np.dtype(dts["work"]), np.dtype(dts["result"])
        idx = np.concatenate([np.concatenate([re] + ([im] if im is not None else [])) for _, re, im in self.blocks]) if self.blocks else np.array([], dtype=np.int64)
        if sorted(idx.tolist()) != list(range(self.n)):
            raise common.Infra("model layout is not a permutation")

    def build_split(self, v):
        """flat real vector -> real work container (leading axis 2 = re/im for a complex start); eager, exact"""
        jnp = self.env.jnp
        v = jnp.asarray(v).astype(self.work)
        out = []
        for shape, re, im in self.blocks:
            a = v[re].reshape(shape)
            if self.cplx:
                a = jnp.stack((a, v[im].reshape(shape)))
            out.append(a)
        return self.env.BlockArray(out) if self.isblk else out[0]

    def join(self, s):
        if not self.cplx:
            return s
        if self.isblk:
            return self.env.BlockArray([b[0] + 1j * b[1] for b in s])
        return s[0] + 1j * s[1]

    def build(self, v):
        """flat real vector -> container (model's `result`)"""
        return self.join(self.build_split(v))

    def flat_of_split(self, g):
        """gradient w.r.t. the work container -> gradient w.r.t. the flat vector (model's index map)"""
        out = np.zeros(self.n, dtype=float)
        gs = g.arrays if self.isblk else [g]
        for (shape, re, im), gb in zip(self.blocks, gs):
            gb = np.asarray(gb).astype(float)
            if self.cplx:
                out[re] = gb[0].ravel()
                out[im] = gb[1].ravel()
            else:
                out[re] = gb.ravel()
        return out


def custom_method(fun, x0, args=(), **unknown):
    """a user-supplied minimiser (scipy's `method=callable` protocol): a few sweeps of coordinate-wise golden-section steps;
    deterministic, gradient-free, uses only `fun`"""
    from scipy import optimize as spopt

    x = np.array(x0, dtype=float)
    nfev = 0
    for sweep in range(3):
        for i in range(x.size):
            def g(t, i=i):
                z = x.copy()
                z[i] = t
                return fun(z, *args)

            r = spopt.minimize_scalar(g, bracket=(x[i] - 1.0, x[i] + 1.0), method="golden", options={"maxiter": 20})
            x[i] = r.x
            nfev += r.nfev
    return spopt.OptimizeResult(x=x, fun=fun(x, *args), nfev=nfev + 1, nit=3, success=True, status=0)


def reference_minimize(env, model, func, x0, args, method, kw, layout):
    jax, spopt = env.jax, env.spopt
    # a callable method is not a string: the wrapper passes no gradient (`isinstance(method, str) and …`)
    use_grad = model.call("routing", method=method) if isinstance(method, str) else model.call("routing", callable=True)
    func_s = (lambda s, *a: func(layout.join(s), *a)) if layout.cplx else func

    if use_grad:
        vg = jax.jit(jax.value_and_grad(func_s, argnums=0))

        def fun(v, *a):
            val, grad = vg(layout.build_split(v), *a)
            return np.array(val).astype(float).item(), layout.flat_of_split(grad)
    else:
        gj = jax.jit(func_s)

        def fun(v, *a):
            return np.array(gj(layout.build_split(v), *a)).astype(float).item()

    res = spopt.minimize(fun, layout.v0, args=args, jac=bool(use_grad), method=method, **kw)
    return res, use_grad


def flat_hessian(env, func, layout, args):
    jax, jnp = env.jax, env.jnp

    def g(v):
        return func(layout.build(v), *args)

    hj = jax.jit(jax.hessian(g))
    return lambda v, *a: np.asarray(hj(jnp.asarray(v, dtype=jnp.float64)), dtype=float)


def scenario_kwargs(env, name, n, hess_fn, record):
    spopt = env.spopt
    if name == "default":
        return {}
    if name == "tol":
        return {"tol": 1e-2}
    if name == "maxiter":
        return {"options": {"maxiter": 2}}
    if name == "tol-zero":
        return {"tol": 0.0, "options": {"maxiter": 12}}
    if name == "bounds-pairs":
        return {"bounds": [(-0.25, 0.375)] * n}
    if name == "bounds-obj":
        return {"bounds": spopt.Bounds(np.full(n, -0.125), 0.25)}
    if name == "bounds-container":
        return {"bounds": spopt.Bounds(record["lo"], record["hi"])}
    if name == "constraints-eq":
        return {"constraints": {"type": "eq", "fun": lambda v: np.sum(v) - 1.0, "jac": lambda v: np.ones_like(v)}}
    if name == "constraints-ineq":
        return {"constraints": [{"type": "ineq", "fun": lambda v: 0.25 - np.sum(v * v)}]}
    if name == "constraints-lin":
        return {"constraints": spopt.LinearConstraint(np.ones((1, n)), 1.0, 1.0)}
    if name == "constraints-nonlin":
        return {"constraints": spopt.NonlinearConstraint(lambda v: np.sum(v * v), -np.inf, 0.25)}
    if name == "callback":
        def cb(xk, *a):
            record.append(np.array(xk, dtype=float).copy())

        return {"callback": cb}
    if name == "hess":
        return {"hess": hess_fn}
    if name == "hessp":
        return {"hessp": lambda v, p, *a: hess_fn(v) @ p}
    if name == "hess+tol":
        return {"hess": hess_fn, "tol": 1e-1}
    raise common.Infra(name)


SCENARIO_METHODS = {
    "tol": ["L-BFGS-B", "BFGS", "Nelder-Mead", "CG"],
    "maxiter": ["L-BFGS-B", "BFGS", "Powell", "SLSQP"],
    "tol-zero": ["BFGS", "CG"],
    "bounds-pairs": ["L-BFGS-B", "TNC", "SLSQP", "trust-constr", "Powell", "Nelder-Mead", "COBYLA"],
    "bounds-obj": ["L-BFGS-B", "SLSQP", "trust-constr"],
    "bounds-container": ["L-BFGS-B", "TNC", "SLSQP", "Powell"],
    "constraints-eq": ["SLSQP"],
    "constraints-ineq": ["SLSQP", "COBYLA"],
    "constraints-lin": ["trust-constr", "SLSQP"],
    "constraints-nonlin": ["trust-constr"],
    "callback": ["L-BFGS-B", "BFGS", "CG", "Nelder-Mead", "trust-constr", "SLSQP"],
    "hess": ["Newton-CG", "dogleg", "trust-ncg", "trust-krylov", "trust-exact", "trust-constr"],
    "hessp": ["Newton-CG", "trust-ncg", "trust-krylov"],
    "hess+tol": ["trust-exact"],
}


def res_fields(res):
    out = {}
    for k in ("fun", "nit", "nfev", "njev", "nhev", "status", "success"):
        if k in res:
            v = res[k]
            out[k] = float(v) if k == "fun" else (bool(v) if k == "success" else int(v))
    return out


KNOWN_F32 = "minimize-float32-start"


class _SubCtx:
    """context for an auxiliary comparison whose outcome is only inspected (nothing is recorded)"""

    def __init__(self, ctx):
        self.failed = False
        self._ctx = ctx

    def case(self, *a, **k):
        pass

    def count(self, *a, **k):
        pass

    def is_known(self, fid):
        return False

    def disagree(self, *a, **k):
        self.failed = True


def run_minimize_case(env, ctx, model, case, known_id=None, func_override=None):
    """one comparison solver.minimize  vs  direct scipy on the model's layout.  `case` is JSON-able."""
    form, objn, seed, method, scen = case["form"], case["obj"], case["seed"], case["method"], case["scenario"]
    if method == "@custom":
        method = custom_method
    args = tuple(case.get("args", ()))
    x0, t, w = make_data(env, form, seed)
    func = func_override if func_override is not None else make_objective(env, objn, t, w)
    layout = Layout(env, model, x0)
    n = layout.n
    hess_fn = flat_hessian(env, func, layout, args) if (scen.startswith("hess") or method in NEEDS_HESS) else None
    rec_ref, rec_impl = [], []
    box = None
    if scen == "bounds-container":
        # bounds given as containers L <= U of x0's form (entrywise, real and imaginary parts separately), flattened with the
        # MODEL's layout (theorem C18_bounds_layout): some of them cut the unconstrained minimiser t off
        rngb = np.random.Generator(np.random.PCG64(seed + 17))

        def make_box(c):
            """entrywise lower / upper bound containers around c: the lower bound lies between c - 3/8 and c + 1/8 (so a good
            part of the lower bounds is active at the unconstrained minimiser c), the width between 1/8 and 1/2"""
            blocks = c.arrays if isinstance(c, env.BlockArray) else [c]
            los, his = [], []
            for b in blocks:
                a = np.asarray(b)
                dl = rngb.integers(-3, 2, size=a.shape) / 8.0
                w = rngb.integers(1, 5, size=a.shape) / 8.0
                if a.dtype.kind == "c":
                    dl = dl + 1j * (rngb.integers(-3, 2, size=a.shape) / 8.0)
                    w = w + 1j * (rngb.integers(1, 5, size=a.shape) / 8.0)
                los.append(env.jnp.array((a + dl).astype(a.dtype)))
                his.append(env.jnp.array((a + dl + w).astype(a.dtype)))
            mk = (lambda l: env.BlockArray(l)) if isinstance(c, env.BlockArray) else (lambda l: l[0])
            return mk(los), mk(his)

        Lc, Uc = make_box(t)
        lo = np.array(b2fs(model.call("flatten", x0=container_json(env, Lc))["v"]), dtype=float)
        hi = np.array(b2fs(model.call("flatten", x0=container_json(env, Uc))["v"]), dtype=float)
        box = (Lc, Uc)
        rec_ref = {"lo": lo, "hi": hi}
        rec_impl = {"lo": lo, "hi": hi}
    kw_ref = scenario_kwargs(env, scen, n, hess_fn, rec_ref)
    kw_impl = scenario_kwargs(env, scen, n, hess_fn, rec_impl)
    if box is not None:
        rec_ref, rec_impl = [], []
    if method in NEEDS_HESS and not scen.startswith("hess"):
        # these solvers cannot run without second-order information: supply it in both calls
        for kw in (kw_ref, kw_impl):
            if NEEDS_HESS[method] == "hess":
                kw["hess"] = hess_fn
            else:
                kw["hessp"] = lambda v, p, *a: hess_fn(v) @ p
    with warnings.catch_warnings():
        warnings.simplefilter("ignore")
        try:
            ref, use_grad = reference_minimize(env, model, func, x0, args, method, kw_ref, layout)
            refr = ("ok", ref)
        except Exception as e:  # noqa: BLE001
            refr = ("err", common.err_kind(e))
            use_grad = None
        try:
            impl = env.solver.minimize(func, x0, args=args, method=method, **kw_impl)
            implr = ("ok", impl)
        except Exception as e:  # noqa: BLE001
            implr = ("err", common.err_kind(e))
        # does the keyword matter?  (reference without it)
        effect = None
        if scen != "default" and refr[0] == "ok":
            base_kw = {}
            if method in NEEDS_HESS:
                base_kw = {k: v for k, v in kw_ref.items() if k in ("hess", "hessp")} if not scen.startswith("hess") else {}
            try:
                base, _ = reference_minimize(env, model, func, x0, args, method, base_kw, layout)
                effect = (not np.array_equal(base.x, ref.x)) or res_fields(base) != res_fields(ref) or bool(rec_ref)
            except Exception:  # noqa: BLE001
                effect = True  # cannot even run without it
    nontrivial = not (form["dtype"] == "float64" and not form["isblk"] and len(form["shapes"][0]) == 1 and scen == "default")
    ctx.case({k: case[k] for k in ("form", "obj", "method", "scenario")}, (form_tag(form), objn, case["method"], scen, len(args)) if nontrivial else None)
    ctx.count(f"method={method if isinstance(method, str) else '@custom (callable)'}")
    ctx.count(f"scenario={scen}")
    ctx.count(f"form={'blk' if form['isblk'] else 'arr'}/{form['dtype']}")
    ctx.count(f"uses-gradient={use_grad}")
    if effect is not None:
        ctx.count(f"keyword-effect:{scen}={'yes' if effect else 'no'}")
    problems = []
    if refr[0] != implr[0]:
        problems.append(f"outcome: scico {implr[0]}{':' + implr[1] if implr[0] == 'err' else ''}, direct scipy {refr[0]}{':' + refr[1] if refr[0] == 'err' else ''}")
    elif refr[0] == "err":
        if refr[1] != implr[1]:
            problems.append(f"error kinds differ: scico {implr[1]}, direct {refr[1]}")
    else:
        want_x = layout.build(ref.x.astype(layout.work))
        got_x = impl.x
        if isinstance(got_x, env.BlockArray) != form["isblk"]:
            problems.append("container type")
        if not same_container(env, got_x, want_x):
            if same_container(env, got_x, want_x, rtol=1e-6):
                ctx.count("x-equal-within-1e-6-only")
                if res_fields(impl) != res_fields(ref):
                    problems.append("x / result fields differ from the direct scipy run")
            else:
                problems.append("x differs from the direct scipy run")
        elif res_fields(impl) != res_fields(ref):
            problems.append(f"result fields differ: scico {res_fields(impl)} direct {res_fields(ref)}")
        gx = got_x.arrays[0] if isinstance(got_x, env.BlockArray) else got_x
        if str(gx.dtype) != form["dtype"]:
            problems.append(f"dtype {gx.dtype} != {form['dtype']}")
        if box is not None:
            # the consequence the theorem promises to users: the returned container lies entrywise in [L, U]
            def parts(c):
                blocks = c.arrays if isinstance(c, env.BlockArray) else [c]
                out = []
                for b in blocks:
                    a = np.asarray(b)
                    out += [a.real.ravel(), a.imag.ravel()] if a.dtype.kind == "c" else [a.ravel()]
                return np.concatenate(out) if out else np.array([])

            gx_, lo_, hi_ = parts(got_x), parts(box[0]), parts(box[1])
            eps = 1e-6 if form["dtype"] in ("float32", "complex64") else 1e-12
            if gx_.shape != lo_.shape or np.any(gx_ < lo_ - eps) or np.any(gx_ > hi_ + eps):
                problems.append("result is not entrywise between the bound containers L and U")
            ctx.count(f"bounds-container:active={int(np.sum((np.abs(gx_ - lo_) < 1e-6) | (np.abs(gx_ - hi_) < 1e-6)))>0}")
        if scen == "callback":
            if len(rec_ref) != len(rec_impl) or any(not np.array_equal(a, b) for a, b in zip(rec_ref, rec_impl)):
                problems.append(f"callback sequences differ ({len(rec_impl)} vs {len(rec_ref)} calls)")
    if problems:
        fail = {
            "call": f"solver.minimize(func[{objn}], x0[{form_tag(form)}], args={args}, method={(method if isinstance(method, str) else 'custom_method')!r}, {scen})",
            "problems": problems,
            "scico": ({"x": describe(env, implr[1].x), **res_fields(implr[1])} if implr[0] == "ok" else {"err": implr[1]}),
            "direct_scipy_on_flattened_problem": ({"x": describe(env, layout.build(refr[1].x)), **res_fields(refr[1])} if refr[0] == "ok" else {"err": refr[1]}),
            "callback_calls": [len(rec_impl), len(rec_ref)] if scen == "callback" else None,
        }
        if known_id is None and form["dtype"] in ("float32", "complex64") and ctx.is_known(KNOWN_F32):
            # single-precision start handed to scipy as float32: verify that this is the cause (float64 twin agrees)
            twin = dict(case, form=dict(form, dtype="float64" if form["dtype"] == "float32" else "complex128"))
            sub = _SubCtx(ctx)
            if run_minimize_case(env, sub, model, twin) and not sub.failed:
                known_id = KNOWN_F32
        ctx.disagree("wrap.minimize", dict(case), fail["scico"], fail["direct_scipy_on_flattened_problem"], oracle=lambda c: fail, known_id=known_id)
        return False
    return True


# ---------------------------------------------------------------------------------------------


def random_container(env, rng, cplx=None):
    dts = ["float64", "float32", "complex128", "complex64"]
    dt = dts[int(rng.integers(0, 4))]
    if cplx is True:
        dt = ["complex128", "complex64"][int(rng.integers(0, 2))]
    if cplx is False:
        dt = ["float64", "float32"][int(rng.integers(0, 2))]
    isblk = rng.random() < 0.5
    nb = int(rng.integers(1, 4)) if isblk else 1
    shapes = []
    for _ in range(nb):
        r = int(rng.integers(0, 4))
        shapes.append([int(rng.integers(0 if rng.random() < 0.1 else 1, 4)) for _ in range(r)])
    form = {"dtype": dt, "shapes": shapes, "isblk": bool(isblk)}
    x, _, _ = make_data(env, form, int(rng.integers(0, 2**31)))
    return form, x


def section_helpers(env, ctx, model):
    rng = ctx.rng
    S = env.solver
    n_cases = ctx.n(120, 1200)
    for it in range(n_cases):
        form, x = random_container(env, rng)
        xj = container_json(env, x)
        cplx = xj["cplx"]
        ctx.case({"section": "helpers", "form": form_tag(form)}, ("helpers", form_tag(form)))
        ctx.count(f"helpers:{'blk' if form['isblk'] else 'arr'}/{form['dtype']}")
        bad = []
        # split / join
        work = x
        if cplx:
            sp = S._split_real_imag(x)
            msp = model.call("split", x=xj)
            wdt = np.float32 if form["dtype"] == "complex64" else np.float64
            if not same_container(env, sp, container_of(env, msp, wdt)):
                bad.append("split")
            jn = S._join_real_imag(sp)
            mj = model.call("join", x=container_json(env, sp))
            if not (same_container(env, jn, container_of(env, mj, form["dtype"])) and same_container(env, jn, x)):
                bad.append("join")
            work = sp
        # ravel / unravel
        wj = container_json(env, work)
        flat = np.asarray(S._ravel(work))
        mflat = np.array(b2fs(model.call("ravel", x=wj)), dtype=np.float64)
        if not (flat.ndim == 1 and np.array_equal(flat.astype(np.float64), mflat)):
            bad.append("ravel")
        shape = work.shape
        shj = {"nested": [list(s) for s in shape]} if isinstance(work, env.BlockArray) else {"flat": list(shape)}
        mback = model.call("unravel", v=fs2b(flat), shape=shj)
        try:
            back = S._unravel(env.jnp.array(flat), shape)
            if not (same_container(env, back, container_of(env, mback, flat.dtype)) and same_container(env, back, work)):
                bad.append("unravel")
        except Exception as e:  # noqa: BLE001
            bad.append(f"unravel raised {type(e).__name__}")
        # model: the vector handed to scipy / the returned container
        fl = model.call("flatten", x0=xj)
        if not np.array_equal(np.array(b2fs(fl["v"])), flat.astype(np.float64)):
            bad.append("flatten")
        # wrong length: rejected on both sides
        if flat.size > 0 and rng.random() < 0.5:
            wrong = np.concatenate([flat, flat[:1]]) if rng.random() < 0.5 else flat[:-1]
            try:
                model.call("unravel", v=fs2b(wrong), shape=shj)
                mr = "ok"
            except ModelErr as e:
                mr = e.kind
            try:
                S._unravel(env.jnp.array(wrong), shape)
                ir = "ok"
            except Exception as e:  # noqa: BLE001
                ir = common.err_kind(e)
            ctx.count(f"helpers:wrong-length model={mr} impl={ir}")
            if (mr == "ok") != (ir == "ok"):
                bad.append(f"wrong-length model={mr} impl={ir}")
        if bad:
            ctx.disagree("wrap.helpers", {"section": "helpers", "form": form, "x": xj}, bad, "model", oracle=helper_oracle(env))


def _unravel_boundary_oracle(env, r, v, shape):
    total = int(np.sum([int(np.prod(s)) for s in shape])) if (len(shape) and isinstance(shape[0], tuple)) else int(np.prod(shape))
    if r[0] == "ok" and total != len(v):
        return {"call": f"_unravel(array of length {len(v)}, {shape})", "returned": describe(env, r[1]),
                "expected": "rejected (length differs from the number of scalars of the shape)"}
    if r[0] == "err" and total == len(v):
        return {"call": f"_unravel(array of length {len(v)}, {shape})", "outcome": {"err": r[1]},
                "expected": "the (block) array of that shape: the length is the number of scalars of the shape"}
    return None


def section_helpers_boundary(env, ctx, model):
    """`()` is the 0-d shape, never an empty nested shape; wrong lengths for nested shapes"""
    S, jnp = env.solver, env.jnp
    cases = [([7.0], {"nested": []}, ()), ([7.0], {"flat": []}, ()), ([1.0, 2.0], {"nested": []}, ()), ([], {"nested": []}, ()),
             ([1.0, 2.0, 3.0, 4.0], {"nested": [[2], [3]]}, ((2,), (3,))), ([1.0, 2.0, 3.0, 4.0, 5.0, 6.0], {"nested": [[2], [3]]}, ((2,), (3,))),
             ([1.0, 2.0, 3.0, 4.0, 5.0], {"nested": [[2], [3]]}, ((2,), (3,))), ([1.0], {"nested": [[1]]}, ((1,),)), ([], {"nested": [[0], [0]]}, ((0,), (0,)))]
    for v, shj, shape in cases:
        try:
            m = ("ok", model.call("unravel", v=fs2b(np.array(v, dtype=float)), shape=shj))
        except ModelErr as e:
            m = ("err", e.kind)
        try:
            r = ("ok", S._unravel(jnp.array(np.array(v, dtype=float)), shape))
        except Exception as e:  # noqa: BLE001
            r = ("err", common.err_kind(e))
        ctx.case({"section": "helpers-boundary", "len": len(v), "shape": str(shape)}, ("helpers-boundary", len(v), str(shj)))
        ctx.count(f"helpers-boundary:model={m[0]} impl={r[0]}")
        good = m[0] == r[0] and (m[0] == "err" or same_container(env, r[1], container_of(env, m[1], np.float64)))
        if not good:
            ctx.disagree("wrap.unravel-boundary", {"section": "helpers-boundary", "v": v, "shape": shj}, r[0] if r[0] == "err" else describe(env, r[1]), m[0] if m[0] == "err" else m[1],
                         oracle=lambda c, r=r, v=v, shape=shape: _unravel_boundary_oracle(env, r, v, shape))


def helper_oracle(env):
    """property itself on the real helpers: the two round trips"""

    def oracle(case):
        S = env.solver
        form = case["form"]
        x = container_of(env, case["x"], form["dtype"])
        try:
            w = S._split_real_imag(x) if case["x"]["cplx"] else x
            ok1 = same_container(env, S._unravel(S._ravel(w), w.shape), w)
            ok2 = (not case["x"]["cplx"]) or same_container(env, S._join_real_imag(S._split_real_imag(x)), x)
        except Exception as e:  # noqa: BLE001
            return {"form": form, "raised": repr(e)[:200]}
        if not (ok1 and ok2):
            return {"form": form, "unravel(ravel(x)) == x": ok1, "join(split(x)) == x": ok2}
        return None

    return oracle


def section_minimize(env, ctx, model):
    rng = ctx.rng
    methods = [m for m in METHODS if m != "COBYQA" or env.have_cobyqa]
    if not env.have_cobyqa:
        ctx.count("method COBYQA skipped: package cobyqa not installed")
    nf = len(FORMS)
    objs = ["quad", "quartic", "coupled"]
    # every method x forms
    for mi, method in enumerate(methods):
        forms = [int(v) for v in rng.permutation(nf)[:6]] if ctx.thorough else [(2 * mi + int(rng.integers(0, nf))) % nf, 4 + ((mi + int(rng.integers(0, 6))) % 6)]
        for fi in dict.fromkeys(forms):
            for spelled in ([method, method.lower()] if (ctx.thorough or fi == forms[0]) else [method]):
                case = {"form": FORMS[fi], "obj": objs[(mi + fi) % 3], "seed": int(rng.integers(0, 2**31)), "method": spelled, "scenario": "default"}
                run_minimize_case(env, ctx, model, case)
    # every keyword in a scenario where it matters
    for scen, ms in SCENARIO_METHODS.items():
        for k, method in enumerate(ms):
            forms = [int(v) for v in rng.permutation(nf)[:4]] if ctx.thorough else [int(rng.integers(0, nf))]
            for fi in dict.fromkeys(forms):
                case = {"form": FORMS[fi], "obj": objs[(k + fi) % 3], "seed": int(rng.integers(0, 2**31)), "method": method, "scenario": scen}
                run_minimize_case(env, ctx, model, case)
    # a callable method (scipy's custom-minimiser protocol): no gradient is passed, containers are handled as for the built-in solvers
    for fi in (range(nf) if ctx.thorough else [1, 4, 6, 8]):
        case = {"form": FORMS[fi], "obj": objs[fi % 3], "seed": int(rng.integers(0, 2**31)), "method": "@custom", "scenario": "default"}
        run_minimize_case(env, ctx, model, case)
    # extra arguments, real and complex starts
    for fi in (range(nf) if ctx.thorough else [0, 4, 6, 8]):
        for method in ("L-BFGS-B", "Nelder-Mead"):
            case = {"form": FORMS[fi], "obj": "quad", "seed": int(rng.integers(0, 2**31)), "method": method, "scenario": "default", "args": [2.0, 0.5]}
            run_minimize_case(env, ctx, model, case)


def section_sequence(env, ctx, model):
    """one and the same function object minimised from a sequence of starting points of different
    shapes / dtypes / container kinds (each call must be independent of the previous ones)"""
    rng = ctx.rng
    jnp, snp, BA = env.jnp, env.snp, env.BlockArray
    T = jnp.array(common.dyadic(rng, (8,), bits=3, scale=1.0))
    W = jnp.array(np.abs(common.dyadic(rng, (8,), bits=2, scale=2.0)) + 0.5)

    def poly(z, a=1.0, b=0.0):
        # defined for every container; depends on the shape (sums along the first axis) and on the order
        blocks = z.arrays if isinstance(z, BA) else [z]
        flat = jnp.concatenate([jnp.ravel(blk) for blk in blocks])
        m = flat.shape[0]
        val = a * jnp.sum(W[:m] * jnp.abs(flat - T[:m]) ** 2) + b
        for i, blk in enumerate(blocks):
            val = val + (i + 1) * 0.125 * jnp.sum(jnp.abs(jnp.sum(jnp.atleast_1d(blk), axis=0)) ** 2)
        return val

    seq = [
        {"dtype": "float64", "shapes": [[2, 3]], "isblk": False},
        {"dtype": "float64", "shapes": [[3, 2]], "isblk": False},
        {"dtype": "float32", "shapes": [[6]], "isblk": False},
        {"dtype": "float64", "shapes": [[2], [4]], "isblk": True},
        {"dtype": "complex128", "shapes": [[3]], "isblk": False},
        {"dtype": "float64", "shapes": [[1, 2], [2, 2]], "isblk": True},
        {"dtype": "float64", "shapes": [[6]], "isblk": False},
        {"dtype": "complex64", "shapes": [[1], [2]], "isblk": True},
    ]
    for method in (["L-BFGS-B", "Nelder-Mead", "BFGS", "trust-constr"] if ctx.thorough else ["L-BFGS-B", "Nelder-Mead"]):
        order = list(rng.permutation(len(seq))) if ctx.thorough else list(range(len(seq)))
        for k in order:
            case = {"form": seq[k], "obj": "poly-shared", "seed": int(rng.integers(0, 2**31)), "method": method, "scenario": "default"}
            run_minimize_case(env, ctx, model, case, func_override=poly)
            ctx.count("sequence:same-function-object")


def section_start_dtypes(env, ctx, model):
    """which dtypes of x0 are taken: the model (`DT.isInexact`) says floating and complex; an integer / boolean start must be
    rejected (TypeError) - kept as the dtype of the optimization variable it truncates every trial point"""
    jnp = env.jnp
    t = jnp.array([0.375, 1.625, 2.5, -0.75])
    f = lambda z: jnp.sum((z - t) ** 2)  # noqa: E731
    for dt in ("float32", "float64", "complex64", "complex128", "int32", "int64", "bool"):
        acc = model.call("dtype", dtype=dt)["accepted"]
        for method in ("Nelder-Mead", "L-BFGS-B", "Powell"):
            for isblk in (False, True):
                x0 = jnp.zeros(4, dtype=dt)
                x0 = env.BlockArray([x0[:1], x0[1:]]) if isblk else x0
                fun = (lambda z: f(jnp.concatenate([jnp.real(b) for b in z.arrays]))) if isblk else (lambda z: f(jnp.real(z)))
                with warnings.catch_warnings():
                    warnings.simplefilter("ignore")
                    try:
                        r = ("ok", env.solver.minimize(fun, x0, method=method))
                    except Exception as e:  # noqa: BLE001
                        r = ("err", common.err_kind(e))
                ctx.case({"section": "start-dtype", "dtype": dt, "method": method, "block": isblk}, ("start-dtype", dt, method, isblk))
                ctx.count(f"start-dtype:{dt}:{'accepted' if r[0] == 'ok' else 'rejected:' + r[1]}")
                good = (r[0] == "ok") if acc else (r == ("err", "type"))
                if not good:
                    xr = None
                    if r[0] == "ok":
                        xr = np.concatenate([np.asarray(b).ravel() for b in (r[1].x.arrays if isblk else [r[1].x])]).tolist()
                    fail = {"call": f"solver.minimize(sum((z - t)**2), zeros(4, dtype={dt}){' as a block array' if isblk else ''}, method={method!r})", "t": [0.375, 1.625, 2.5, -0.75],
                            "scico": {"x": xr, "fun": float(r[1].fun), "success": bool(r[1].success)} if r[0] == "ok" else {"err": r[1]},
                            "expected": "the minimiser t (scipy on the flattened real problem), or a TypeError for a dtype that cannot hold it"}
                    ctx.disagree("wrap.start-dtype", {"section": "start-dtype", "dtype": dt, "method": method, "block": isblk}, fail["scico"], "TypeError" if not acc else "accepted",
                                 oracle=lambda c, fail=fail: fail)


def section_forwarding(env, ctx, model):
    """what the inner scipy calls receive, observed exactly: `scico.solver.spopt` is replaced (for scico only) by a recorder.
    Every scipy method x {canonical, lower, upper} spelling and a callable: `jac` = the model's routing, the pass-through
    keywords ARE the caller's objects (identity), for a truthy and a falsy set of values (tol=0.0, options={}, bounds=[],
    constraints=(), args=(), callback=None), the keyword set is the model's, x0 is the model's flat float64 vector."""
    S, jnp = env.solver, env.jnp
    real = S.spopt
    rec = {}

    class Recorder:
        OptimizeResult = real.OptimizeResult
        Bounds, LinearConstraint, NonlinearConstraint = real.Bounds, real.LinearConstraint, real.NonlinearConstraint

        @staticmethod
        def minimize(*a, **k):
            rec["pos"], rec["kw"] = a, k
            return real.OptimizeResult(x=np.array(k["x0"], dtype=float), fun=0.0, success=True, status=0, nit=0, nfev=0)

        @staticmethod
        def minimize_scalar(*a, **k):
            rec["pos"], rec["kw"] = a, k
            return real.OptimizeResult(x=0.0, fun=0.0, success=True, nit=0, nfev=0)

    kws = model.call("call_keywords")
    hess_f, hessp_f, cb_f = (lambda v: None), (lambda v, p: None), (lambda xk: None)
    value_sets = {
        "truthy": dict(args=(2.0, 0.5), hess=hess_f, hessp=hessp_f, bounds=[(0.0, 1.0)] * 3, constraints=({"type": "eq", "fun": lambda v: 0.0},), tol=1e-3, callback=cb_f, options={"maxiter": 3}),
        "falsy": dict(args=(), hess=None, hessp=None, bounds=[], constraints=(), tol=0.0, callback=None, options={}),
        "zeros": dict(args=(0.0,), hess=False, hessp=0, bounds=(), constraints=[], tol=0, callback=None, options=None),
    }
    x0s = [("arr", jnp.array([0.5, -1.0, 2.0])), ("cplx", jnp.array([0.5 + 1j, -1.0 - 2j]))]
    S.spopt = Recorder
    try:
        methods = [m for m in METHODS] + ["@callable"]
        for m in methods:
            spellings = [m, m.lower(), m.upper()] if m != "@callable" else [custom_method]
            for sp in spellings:
                for vname, vals in value_sets.items():
                    if not ctx.thorough and vname == "zeros" and sp != m:
                        continue
                    for xname, x0 in (x0s if (ctx.thorough or sp == m) else x0s[:1]):
                        rec.clear()
                        try:
                            S.minimize(lambda z, *a: jnp.sum(jnp.abs(z) ** 2), x0, method=sp, **vals)
                            out = "ok"
                        except Exception as e:  # noqa: BLE001
                            out = common.err_kind(e)
                        want_jac = model.call("routing", method=sp) if isinstance(sp, str) else model.call("routing", callable=True)
                        flat = np.array(b2fs(model.call("flatten", x0=container_json(env, x0))["v"]), dtype=float)
                        problems = []
                        if out != "ok" or "kw" not in rec:
                            problems.append(f"call failed: {out}")
                        else:
                            kw = rec["kw"]
                            if sorted(kw) != sorted(kws["minimize"]) or len(rec["pos"]) != 1 or not callable(rec["pos"][0]):
                                problems.append(f"keywords of the scipy call: {sorted(kw)} (+{len(rec['pos'])} positional)")
                            if kw.get("jac") is not want_jac:
                                problems.append(f"jac={kw.get('jac')!r}, the routing says {want_jac}")
                            if kw.get("method") is not sp:
                                problems.append("method is not the caller's object")
                            for k, v in vals.items():
                                if kw.get(k, "<absent>") is not v:
                                    problems.append(f"{k}: scipy received {kw.get(k, '<absent>')!r}, the caller passed {v!r}")
                            xr = kw.get("x0")
                            if not (isinstance(xr, np.ndarray) and xr.dtype == np.float64 and xr.ndim == 1 and np.array_equal(xr, flat)):
                                problems.append("x0 is not the flat float64 vector of the model's layout")
                        ctx.case({"section": "forwarding", "method": str(m), "spelling": sp if isinstance(sp, str) else "callable", "values": vname, "x0": xname},
                                 ("forwarding", str(m), sp if isinstance(sp, str) else "callable", vname, xname))
                        ctx.count(f"forwarding:jac={want_jac}")
                        if problems:
                            fail = {"call": f"solver.minimize(f, x0[{xname}], method={(sp if isinstance(sp, str) else 'callable')!r}, **{vname} values)", "problems": problems}
                            ctx.disagree("wrap.forwarding", {"section": "forwarding", "method": str(m), "spelling": sp if isinstance(sp, str) else "callable", "values": vname}, problems, "forwarded unchanged",
                                         oracle=lambda c, fail=fail: fail)
        # minimize_scalar
        for vname, vals in {"truthy": dict(bracket=(0.0, 1.0), bounds=(0.0, 2.0), args=(0.5,), method="bounded", tol=1e-3, options={"maxiter": 5}),
                            "falsy": dict(bracket=None, bounds=None, args=(), method=None, tol=0.0, options={}),
                            "zeros": dict(bracket=(), bounds=[], args=(0.0,), method="", tol=0, options=None)}.items():
            rec.clear()
            try:
                S.minimize_scalar(lambda x: jnp.asarray(x * x), **vals)
                out = "ok"
            except Exception as e:  # noqa: BLE001
                out = common.err_kind(e)
            problems = []
            if out != "ok" or "kw" not in rec:
                problems.append(f"call failed: {out}")
            else:
                kw = rec["kw"]
                if sorted(kw) != sorted(kws["minimize_scalar"]) or rec["pos"]:
                    problems.append(f"keywords of the scipy call: {sorted(kw)} (+{len(rec['pos'])} positional)")
                for k, v in vals.items():
                    if kw.get(k, "<absent>") is not v:
                        problems.append(f"{k}: scipy received {kw.get(k, '<absent>')!r}, the caller passed {v!r}")
            ctx.case({"section": "forwarding", "fn": "minimize_scalar", "values": vname}, ("forwarding-scalar", vname))
            if problems:
                fail = {"call": f"solver.minimize_scalar(f, **{vname} values)", "problems": problems}
                ctx.disagree("wrap.forwarding", {"section": "forwarding", "fn": "minimize_scalar", "values": vname}, problems, "forwarded unchanged", oracle=lambda c, fail=fail: fail)
    finally:
        S.spopt = real


def section_jit(env, ctx, model):
    """`minimize` is written with `jax.pure_callback` so that it can be traced: under `jax.jit` (and `vmap` over starts)
    the returned container is the eager one (container kind, shape, dtype, values)"""
    rng = ctx.rng
    jax = env.jax
    forms = [FORMS[i] for i in ((0, 4, 6, 8, 9) if ctx.thorough else (0, 8))]
    for form in forms:
        for method in ("L-BFGS-B", "Nelder-Mead"):
            x0, t, w = make_data(env, form, int(rng.integers(0, 2**31)))
            func = make_objective(env, "quad", t, w)
            with warnings.catch_warnings():
                warnings.simplefilter("ignore")
                try:
                    eager = ("ok", env.solver.minimize(func, x0, method=method).x)
                except Exception as e:  # noqa: BLE001
                    eager = ("err", common.err_kind(e))
                try:
                    jitted = ("ok", jax.jit(lambda z: env.solver.minimize(func, z, method=method).x)(x0))
                except Exception as e:  # noqa: BLE001
                    jitted = ("err", common.err_kind(e))
                # characterisation: while tracing only `x` exists (the other fields are written by the host callback when the
                # compiled program runs), so `res.fun` cannot be returned from a jitted function
                seen = {}

                def probe(z):
                    res = env.solver.minimize(func, z, method=method)
                    seen["fields"] = sorted(k for k in res.keys())
                    return res.x

                try:
                    jax.jit(probe)(x0)
                except Exception:  # noqa: BLE001
                    pass
                ctx.count(f"jit:fields-while-tracing={seen.get('fields')}")
            ctx.case({"section": "jit", "form": form_tag(form), "method": method}, ("jit", form_tag(form), method))
            ctx.count(f"jit:{'blk' if form['isblk'] else 'arr'}/{form['dtype']}")
            good = eager[0] == jitted[0] and (eager[0] == "err" or same_container(env, eager[1], jitted[1]))
            if not good:
                fail = {"call": f"jax.jit(lambda z: solver.minimize(func, z, method={method!r}).x)(x0[{form_tag(form)}])",
                        "under_jit": describe(env, jitted[1]) if jitted[0] == "ok" else {"err": jitted[1]},
                        "eager": describe(env, eager[1]) if eager[0] == "ok" else {"err": eager[1]}}
                ctx.disagree("wrap.jit", {"section": "jit", "form": form, "method": method}, fail["under_jit"], fail["eager"], oracle=lambda c, fail=fail: fail)


def section_scalar(env, ctx, model):
    spopt, jnp = env.spopt, env.jnp
    rng = ctx.rng
    n_cases = ctx.n(6, 40)
    for it in range(n_cases):
        a = float(common.dyadic(rng, (), bits=3, scale=2.0))
        oshape = [(), (), (1,), (2,), (1, 1), (2, 2), (0,), (3, 1)][int(rng.integers(0, 8))] if it > 0 else ()
        ctx.count(f"scalar:func-result-shape={oshape}")

        def f(x, s=1.5, oshape=oshape, a=a):
            y = (x - a) ** 2 * (x + s) ** 2 + 0.5 * (x - a) ** 2
            n = int(np.prod(oshape))
            if oshape == ():
                return jnp.asarray(y)
            # the value first, then other numbers (only the first entry may be read)
            return jnp.reshape(jnp.concatenate([jnp.reshape(jnp.asarray(y, dtype=jnp.float64), (1,)), 7.0 + jnp.arange(max(n - 1, 0), dtype=jnp.float64)])[:n], oshape)

        def fref(x, *args, f=f):
            # what the wrapper hands to scipy according to the MODEL (`scalarOf`)
            y = np.asarray(f(x, *args), dtype=np.float64)
            try:
                return common.b2f(model.call("scalar", y={"shape": list(y.shape), "re": fs2b(y.ravel())}))
            except ModelErr as e:
                raise (IndexError("index") if e.kind == "index" else ValueError("size")) from None

        calls = [
            ("default", {}),
            ("brent+bracket", {"method": "brent", "bracket": (a - 3.0, a - 2.0)}),
            ("golden", {"method": "golden"}),
            ("golden+tol", {"method": "golden", "tol": 1e-3}),
            ("bounded", {"method": "bounded", "bounds": (a - 1.0, a + 0.5)}),
            ("Bounded-case", {"method": "Bounded", "bounds": (a + 0.25, a + 2.0)}),
            ("maxiter", {"method": "brent", "options": {"maxiter": 3}}),
            ("tol", {"tol": 1e-2}),
            ("args", {"args": (0.75,)}),
            # values that are falsy in Python but meaningful to scipy
            ("tol-zero-brent", {"tol": 0.0, "options": {"maxiter": 25}}),
            ("tol-zero-golden", {"method": "golden", "tol": 0.0, "options": {"maxiter": 30}}),
            ("args-zero", {"args": (0.0,)}),
            ("bounded-zero-bounds", {"method": "bounded", "bounds": (0, 0.0 + abs(a) + 1.0)}),
            ("empty-options", {"options": {}}),
            ("args+bounded+xatol", {"args": (0.75,), "method": "bounded", "bounds": (a - 2.0, a + 2.0), "options": {"xatol": 1e-2}}),
            # combinations scipy rejects: the wrapper must not swallow them
            ("brent+bounds", {"method": "brent", "bounds": (a - 1.0, a + 1.0)}),
            ("golden+bounds", {"method": "golden", "bounds": (a - 1.0, a + 1.0)}),
            ("bounded-without-bounds", {"method": "bounded"}),
            ("bounded+bracket", {"method": "bounded", "bounds": (a - 1.0, a + 1.0), "bracket": (a - 1.0, a)}),
            ("bounds-only", {"bounds": (a - 0.5, a + 1.5)}),
            ("unknown-method", {"method": "newton"}),
        ]
        for tag, kw in calls:
            with warnings.catch_warnings():
                warnings.simplefilter("ignore")
                try:
                    ref = ("ok", spopt.minimize_scalar(fref, **kw))
                except Exception as e:  # noqa: BLE001
                    ref = ("err", common.err_kind(e))
                try:
                    impl = ("ok", env.solver.minimize_scalar(f, **kw))
                except Exception as e:  # noqa: BLE001
                    impl = ("err", common.err_kind(e))
            ctx.case({"section": "scalar", "call": tag}, ("scalar", tag, it))
            ctx.count(f"scalar:{tag}")
            if ref[0] != impl[0] or (ref[0] == "err" and ref[1] != impl[1]):
                good = False
            elif ref[0] == "err":
                good = True
            else:
                r, i = ref[1], impl[1]
                good = float(r.x) == float(i.x) and float(r.fun) == float(i.fun) and int(r.nfev) == int(i.nfev) and int(r.get("nit", -1)) == int(i.get("nit", -1))
            if not good:
                fail = {"call": f"solver.minimize_scalar(f, {tag})", "a": a,
                        "scico": ({"x": float(impl[1].x), "fun": float(impl[1].fun), "nfev": int(impl[1].nfev)} if impl[0] == "ok" else {"err": impl[1]}),
                        "direct": ({"x": float(ref[1].x), "fun": float(ref[1].fun), "nfev": int(ref[1].nfev)} if ref[0] == "ok" else {"err": ref[1]})}
                ctx.disagree("wrap.minimize_scalar", {"section": "scalar", "tag": tag, "a": a}, fail["scico"], fail["direct"], oracle=lambda c, fail=fail: fail)


def run_corpus(env, ctx, model):
    d = common.CORPUS_DIR / PROP
    if not d.exists():
        return
    for f in sorted(d.glob("*.json")):
        case = json.loads(f.read_text())
        ctx.count("corpus")
        run_minimize_case(env, ctx, model, case.get("case", case), known_id=case.get("known_id"))


MODE_F32, ENGINE_F32 = "wrap", "wrap"

def section_default_precision(env, ctx, model):
    """DEFAULT-PRECISION stream (round 6): a subprocess WITHOUT jax_enable_x64 evaluates the property itself on the real code in the
    library's default mode (float32 / complex64 / int32, dtype arguments omitted, weakly typed Python scalars); every record
    that is not ok is a failing input of the property (the record IS the oracle's evaluation), never a model disagreement"""
    import os
    import subprocess
    import sys

    envv = {k: v for k, v in os.environ.items() if k != "JAX_ENABLE_X64"}
    p = subprocess.run([sys.executable, str(common.VERIF / "harness" / "block_f32_worker.py")], input=json.dumps({"repo": str(common.REPO), "mode": MODE_F32, "seed": ctx.seed}),
                       capture_output=True, text=True, env=envv, timeout=900)
    try:
        results = json.loads(p.stdout)["results"]
    except Exception:  # noqa: BLE001
        # the worker died: with the code under test in the traceback it is the implementation's failure, otherwise ours
        if str(common.REPO) in p.stderr:
            ctx.disagree(f"{ENGINE_F32}.default-precision", {"section": "default-precision", "worker": "died"}, p.stderr[-400:], "runs",
                         oracle=lambda c: {"default_precision_worker": "died inside the code under test", "stderr_tail": p.stderr[-600:]})
            return
        raise common.Infra("default-precision worker failed: " + p.stderr[-500:])
    for r in results:
        ctx.case({"section": "default-precision", "case": r["case"]}, ("default-precision", r["case"]))
        ctx.count(f"default-precision:{r['case'].split('/')[0]}:{'ok' if r['ok'] else 'FAILS'}")
        if not r["ok"]:
            fail = {"mode": "default precision (jax_enable_x64 off)", "case": r["case"], "detail": r["detail"]}
            ctx.disagree(f"{ENGINE_F32}.default-precision", {"section": "default-precision", "case": r["case"]}, r["detail"], "per-block jax / scipy on the flattened problem in the same mode",
                         oracle=lambda c, fail=fail: fail)


def correspond(ctx, model):
    import time

    env = Env()
    timing = {}
    for sec in (run_corpus, section_helpers, section_helpers_boundary, section_start_dtypes, section_default_precision, section_forwarding, section_scalar, section_jit, section_sequence, section_minimize):
        t0 = time.time()
        try:
            sec(env, ctx, model)
        except (common.Infra, ModelErr):
            raise
        except Exception as e:  # noqa: BLE001
            # an exception escaping from the code under test is its failure, not the harness's
            import traceback

            frames = [f for f in traceback.extract_tb(e.__traceback__) if str(common.REPO) in f.filename]
            if not frames:
                raise
            ctx.disagree("%s.%s" % ("wrap", sec.__name__), {"section": sec.__name__, "exception": repr(e)[:300], "raised_in": f"{frames[-1].filename}:{frames[-1].lineno}"},
                         "raised", "no exception")
        timing[sec.__name__] = round(time.time() - t0, 1)
    ctx.extra["section_wall_s"] = timing
    # the routing of the model agrees with scipy's own notion (contract check)
    for m in METHODS:
        for s in (m, m.lower(), m.upper()):
            got = model.call("routing", method=s)
            want = m.lower() not in ("nelder-mead", "powell", "cobyla", "cobyqa")
            if got != want:
                raise common.Infra(f"model routing for {s}: {got}")


def findings(ctx, model):
    if ctx.is_known(KNOWN_F32):
        env = Env()
        jnp = env.jnp
        t = jnp.arange(4.0, dtype=jnp.float32) / 4
        still = False
        with warnings.catch_warnings():
            warnings.simplefilter("ignore")
            for m in ("TNC", "SLSQP"):
                try:
                    env.solver.minimize(lambda z: jnp.sum((z - t) ** 2), jnp.zeros(4, dtype=jnp.float32), method=m)
                except Exception:  # noqa: BLE001
                    still = True
        ctx.known_finding(KNOWN_F32, still)


def search(ctx, model, why):
    """failing-input search on the implementation: random (form, method, keyword scenario) against direct scipy"""
    env = Env()
    rng = ctx.rng
    sub = common.Ctx(PROP, ctx.tier, ctx.seed)
    sub.known = {}
    found = []
    sub.disagree = lambda op, case, impl, mdl, oracle=None, known_id=None, note="": found.append(oracle(case) if oracle else {"case": case})
    if why is not None and "WrapSource" in str(why.get("module", "")):
        # targeted panel: the sections that exercise the functions whose normalised body differs from the pinned one
        import block_translate

        rows = block_translate.changed_rows("wrap")
        ctx.extra["changed_source_rows"] = rows
        names = {r.split(":", 1)[1] for r in rows}
        panel = []
        if names & {"_ravel", "_unravel", "_split_real_imag", "_join_real_imag"}:
            panel += [section_helpers, section_helpers_boundary]
        if "minimize_scalar" in names:
            panel += [section_scalar]
        if names & {"minimize", "_wrap_func", "_wrap_func_and_grad", "_ravel", "_unravel", "_split_real_imag", "_join_real_imag"}:
            panel += [section_start_dtypes, section_forwarding, section_minimize, section_sequence]
        sub.is_known = lambda fid: False
        sub.disagree = lambda op, case, impl, mdl, oracle=None, known_id=None, note="": found.append(oracle(case) if oracle else None)
        for sec in panel:
            try:
                sec(env, sub, model)
            except (common.Infra, ModelErr):
                raise
            except Exception as e:  # noqa: BLE001
                found.append({"section": sec.__name__, "raised": repr(e)[:300]})
            hits = [f for f in found if f is not None]
            if hits:
                return dict(hits[0], changed_functions=rows)
        return None
    scen_names = ["default"] + list(SCENARIO_METHODS)
    for it in range(12 if why is None else 40):
        scen = scen_names[int(rng.integers(0, len(scen_names)))]
        ms = SCENARIO_METHODS.get(scen, [m for m in METHODS if m != "COBYQA" or env.have_cobyqa])
        method = ms[int(rng.integers(0, len(ms)))]
        form, _ = random_container(env, rng)
        if any(0 in s for s in form["shapes"]):
            continue
        case = {"form": form, "obj": ["quad", "quartic", "coupled"][int(rng.integers(0, 3))], "seed": int(rng.integers(0, 2**31)), "method": method, "scenario": scen}
        run_minimize_case(env, sub, model, case)
        if found:
            return found[0]
    return None


def replay(ctx, model, case):
    env = Env()
    c = case.get("case", case)
    if isinstance(c, dict) and "method" in c:
        ok = run_minimize_case(env, ctx, model, c)
        print("replay:", "no failure at this input" if ok else "property FAILS on implementation (see VIOLATION)")
    else:
        print("replay: nothing to replay for", str(c)[:200])
