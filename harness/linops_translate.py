"""Translator of the LinOps engine (C04; DESIGN §6.3): data of the scico source that the hand-written model, the driver and
the configuration grid copy  ->  lean/Scico/Generated/LinOpsTables.lean.

Read with `ast` only (nothing is imported or executed) from `$SCICO_REPO`:

* default argument values of the constructor of every operator class of `harness/opgrid.py` (`__init__` of the class; for
  the `linop_from_function` classes the inner `__init__` of that factory; `from_operator`, `matrices_from_euler_angles`,
  `radial_transverse_frequency`, `normalize_axes`, `BiConvolve.__init__` as well);
* accepted option value sets: `_LINEAR_PAD_MODES`, the literal lists in `if mode not in [...]` of `Convolve` / `ConvolveByX` /
  `BiConvolve`, in `if prepend/append not in [...]` of `SingleAxisFiniteDifference`, in `if map_type not in [...]` of
  `DiagonalReplicated`, and in `if ndim not in (...)` of `radial_transverse_frequency`;
* constants: `MAX_SLICE_LEN` in `XRayTransform3D._project` and `._back_project`, the footprint width `w` in `._calc_weights`,
  the half-voxel offset `+ 0.5` of the voxel centres there, the default `dx` of `XRayTransform2D.__init__`;
* exported names: `__all__` of `scico.linop`, `scico.linop.xray`, and the public classes of `scico/linop/optics.py`,
  `scico/linop/abel.py`.

The generated module holds the data as a `Scico.LinOpsTables.Tables` value `src` and the obligations
`src.defaults = model.defaults`, `src.options = model.options`, `src.constants = model.constants` and
`every exported name is covered by the grid or pinned in the exclusion list`, all closed by `decide`.
"""

from __future__ import annotations

import ast

import common

OUT = common.LEAN_DIR / "Scico" / "Generated" / "LinOpsTables.lean"

# (file, class or None, function) whose defaults are pinned
DEFAULTS = [
    ("scico/linop/_diff.py", "FiniteDifference", "__init__"),
    ("scico/linop/_diff.py", "SingleAxisFiniteDifference", "__init__"),
    ("scico/linop/_dft.py", "DFT", "__init__"),
    ("scico/linop/_circconv.py", "CircularConvolve", "__init__"),
    ("scico/linop/_circconv.py", "CircularConvolve", "from_operator"),
    ("scico/linop/_convolve.py", "Convolve", "__init__"),
    ("scico/linop/_convolve.py", "ConvolveByX", "__init__"),
    ("scico/operator/biconvolve.py", "BiConvolve", "__init__"),
    ("scico/linop/_func.py", None, "linop_from_function.__init__"),
    ("scico/linop/_func.py", None, "_linear_pad"),
    ("scico/linop/_func.py", "Crop", "__init__"),
    ("scico/linop/_func.py", "Slice", "__init__"),
    ("scico/linop/_grad.py", "ProjectedGradient", "__init__"),
    ("scico/linop/_grad.py", "PolarGradient", "__init__"),
    ("scico/linop/_grad.py", "CylindricalGradient", "__init__"),
    ("scico/linop/_grad.py", "SphericalGradient", "__init__"),
    ("scico/linop/_stack.py", "VerticalStack", "__init__"),
    ("scico/linop/_stack.py", "DiagonalStack", "__init__"),
    ("scico/linop/_stack.py", "DiagonalReplicated", "__init__"),
    ("scico/linop/_stack.py", None, "linop_over_axes"),
    ("scico/numpy/util.py", None, "normalize_axes"),
    ("scico/linop/xray/_xray.py", "XRayTransform2D", "__init__"),
    ("scico/linop/xray/_xray.py", "XRayTransform3D", "__init__"),
    ("scico/linop/xray/_xray.py", "XRayTransform3D", "matrices_from_euler_angles"),
    ("scico/linop/xray/_xray.py", "XRayTransform3D", "_calc_weights"),
    ("scico/linop/optics.py", "Propagator", "__init__"),
    ("scico/linop/optics.py", "AngularSpectrumPropagator", "__init__"),
    ("scico/linop/optics.py", "FresnelPropagator", "__init__"),
    ("scico/linop/optics.py", "FraunhoferPropagator", "__init__"),
    ("scico/linop/abel.py", "AbelTransform", "__init__"),
    ("scico/functional/_tvnorm.py", "SingleAxisFiniteSum", "__init__"),
    ("scico/functional/_tvnorm.py", "FiniteSum", "__init__"),
    ("scico/functional/_tvnorm.py", "SingleAxisHaarTransform", "__init__"),
    ("scico/functional/_tvnorm.py", "HaarTransform", "__init__"),
]


# constructors whose guarded `raise` statements (error cases) and stored attributes are pinned
CHECKED = [
    ("scico/linop/_diff.py", "SingleAxisFiniteDifference", "__init__"),
    ("scico/linop/_dft.py", "DFT", "__init__"),
    ("scico/linop/_circconv.py", "CircularConvolve", "__init__"),
    ("scico/linop/_circconv.py", "CircularConvolve", "from_operator"),
    ("scico/linop/_convolve.py", "Convolve", "__init__"),
    ("scico/linop/_convolve.py", "ConvolveByX", "__init__"),
    ("scico/linop/_func.py", None, "_linear_pad"),
    ("scico/linop/_grad.py", "ProjectedGradient", "__init__"),
    ("scico/linop/_grad.py", "PolarGradient", "__init__"),
    ("scico/linop/_grad.py", "CylindricalGradient", "__init__"),
    ("scico/linop/_grad.py", "SphericalGradient", "__init__"),
    ("scico/numpy/util.py", None, "normalize_axes"),
    ("scico/numpy/util.py", None, "slice_length"),
    ("scico/numpy/util.py", None, "indexed_shape"),
    ("scico/operator/_stack.py", "DiagonalReplicated", "__init__"),
    ("scico/linop/xray/_xray.py", "XRayTransform2D", "__init__"),
    ("scico/linop/xray/_xray.py", "XRayTransform3D", "__init__"),
    ("scico/linop/optics.py", None, "radial_transverse_frequency"),
    ("scico/linop/optics.py", "Propagator", "__init__"),
    ("scico/linop/optics.py", "FraunhoferPropagator", "__init__"),
    ("scico/linop/abel.py", "AbelTransform", "__init__"),
]


class Untranslatable(common.Infra):
    pass


def _tree(rel):
    return ast.parse((common.REPO / rel).read_text())


def _defaults(fn):
    a = fn.args
    pos = a.posonlyargs + a.args
    out = [(p.arg, ast.unparse(d)) for p, d in zip(pos[len(pos) - len(a.defaults):], a.defaults)]
    out += [(p.arg, ast.unparse(d)) for p, d in zip(a.kwonlyargs, a.kw_defaults) if d is not None]
    return out


def _find(body, kind, name, where):
    for n in body:
        if isinstance(n, kind) and n.name == name:
            return n
    raise Untranslatable(f"{where}: {name} not found")


def _function(tree, cls, fn, where):
    body = tree.body if cls is None else _find(tree.body, ast.ClassDef, cls, where).body
    node = None
    for part in fn.split("."):
        node = _find(body, ast.FunctionDef, part, where)
        body = node.body
    return node


def _membership_lists(fn, var):
    """source texts of the containers in `if <var> not in <container>` tests inside `fn`"""
    out = []
    for n in ast.walk(fn):
        if isinstance(n, ast.Compare) and len(n.ops) == 1 and isinstance(n.ops[0], ast.NotIn) and isinstance(n.left, ast.Name) and n.left.id == var:
            c = n.comparators[0]
            if isinstance(c, (ast.List, ast.Tuple)):
                out.append([ast.unparse(e) for e in c.elts])
    return out


def _assign_value(fn, var, where):
    vals = [ast.unparse(n.value) for n in ast.walk(fn) if isinstance(n, ast.Assign) and len(n.targets) == 1
            and isinstance(n.targets[0], ast.Name) and n.targets[0].id == var]
    if len(vals) != 1:
        raise Untranslatable(f"{where}: expected exactly one assignment to {var}, found {len(vals)}")
    return vals[0]


def _all_list(rel):
    for n in _tree(rel).body:
        if isinstance(n, ast.Assign) and any(isinstance(t, ast.Name) and t.id == "__all__" for t in n.targets):
            if isinstance(n.value, ast.List) and all(isinstance(e, ast.Constant) for e in n.value.elts):
                return [e.value for e in n.value.elts]
    raise Untranslatable(f"{rel}: __all__ is not a list literal")


def _public_classes(rel):
    return [n.name for n in _tree(rel).body if isinstance(n, ast.ClassDef) and not n.name.startswith("_")]


def _raises(fn):
    """[(test source text, exception class)] for every `if <test>: raise <Exc>(...)` in source order (also `except …: raise`)"""
    out = []
    for n in ast.walk(fn):
        if isinstance(n, ast.If):
            for st in n.body:
                if isinstance(st, ast.Raise) and st.exc is not None:
                    exc = st.exc.func if isinstance(st.exc, ast.Call) else st.exc
                    out.append((n.lineno, ast.unparse(n.test), ast.unparse(exc)))
        if isinstance(n, ast.ExceptHandler):
            for st in n.body:
                if isinstance(st, ast.Raise) and st.exc is not None:
                    exc = st.exc.func if isinstance(st.exc, ast.Call) else st.exc
                    out.append((n.lineno, "except " + (ast.unparse(n.type) if n.type else ""), ast.unparse(exc)))
    return [(t, e) for _, t, e in sorted(out)]


def _self_attrs(fn):
    """names X of the `self.X = …` / `self.X: T = …` statements of a constructor, in source order without repetition"""
    out = []
    for n in ast.walk(fn):
        tgts = n.targets if isinstance(n, ast.Assign) else ([n.target] if isinstance(n, ast.AnnAssign) else [])
        for t in tgts:
            if isinstance(t, ast.Attribute) and isinstance(t.value, ast.Name) and t.value.id == "self":
                out.append((n.lineno, t.attr))
    res = []
    for _, a in sorted(out):
        if a not in res:
            res.append(a)
    return res


def extract_checked():
    raises, attrs = [], []
    for rel, cls, fn in CHECKED:
        where = f"{rel}:{cls or ''}.{fn}"
        f = _function(_tree(rel), cls, fn, where)
        name = f"{cls + '.' if cls else ''}{fn}"
        for test, exc in _raises(f):
            raises.append((name, test, exc))
        if fn == "__init__":
            attrs.append((cls, _self_attrs(f)))
    return raises, attrs


def extract():
    defaults = []
    for rel, cls, fn in DEFAULTS:
        where = f"{rel}:{cls or ''}.{fn}"
        f = _function(_tree(rel), cls, fn, where)
        for arg, val in _defaults(f):
            defaults.append((f"{cls + '.' if cls else ''}{fn}", arg, val))
    func = _tree("scico/linop/_func.py")
    conv = _tree("scico/linop/_convolve.py")
    bic = _tree("scico/operator/biconvolve.py")
    diff = _tree("scico/linop/_diff.py")
    ostack = _tree("scico/operator/_stack.py")
    optics = _tree("scico/linop/optics.py")
    xray = _tree("scico/linop/xray/_xray.py")
    options = []
    pm = [n for n in func.body if isinstance(n, ast.Assign) and any(isinstance(t, ast.Name) and t.id == "_LINEAR_PAD_MODES" for t in n.targets)]
    if len(pm) != 1 or not isinstance(pm[0].value, (ast.Tuple, ast.List)):
        raise Untranslatable("_LINEAR_PAD_MODES is not a tuple literal")
    options.append(("pad.modes", [ast.unparse(e) for e in pm[0].value.elts]))
    for tree, cls in ((conv, "Convolve"), (conv, "ConvolveByX"), (bic, "BiConvolve")):
        ls = _membership_lists(_function(tree, cls, "__init__", cls), "mode")
        if len(ls) != 1:
            raise Untranslatable(f"{cls}.__init__: expected one `mode not in [...]` test")
        options.append((f"{cls}.mode", ls[0]))
    sa = _function(diff, "SingleAxisFiniteDifference", "__init__", "SingleAxisFiniteDifference")
    for var in ("prepend", "append"):
        ls = _membership_lists(sa, var)
        if len(ls) != 1:
            raise Untranslatable(f"SingleAxisFiniteDifference.__init__: expected one `{var} not in [...]` test")
        options.append((f"fd.{var}", ls[0]))
    ls = _membership_lists(_function(ostack, "DiagonalReplicated", "__init__", "DiagonalReplicated"), "map_type")
    if len(ls) != 1:
        raise Untranslatable("DiagonalReplicated.__init__: expected one `map_type not in [...]` test")
    options.append(("DiagonalReplicated.map_type", ls[0]))
    ls = _membership_lists(_function(optics, None, "radial_transverse_frequency", "optics"), "ndim")
    if len(ls) != 1:
        raise Untranslatable("radial_transverse_frequency: expected one `ndim not in (...)` test")
    options.append(("optics.ndim", ls[0]))
    constants = [
        ("XRayTransform3D._project.MAX_SLICE_LEN", _assign_value(_function(xray, "XRayTransform3D", "_project", "x3"), "MAX_SLICE_LEN", "_project")),
        ("XRayTransform3D._back_project.MAX_SLICE_LEN", _assign_value(_function(xray, "XRayTransform3D", "_back_project", "x3"), "MAX_SLICE_LEN", "_back_project")),
        ("XRayTransform3D._calc_weights.w", _assign_value(_function(xray, "XRayTransform3D", "_calc_weights", "x3"), "w", "_calc_weights")),
    ]
    # half-voxel offset of the voxel centres: the first assignment to x in _calc_weights
    cw = _function(xray, "XRayTransform3D", "_calc_weights", "x3")
    xs = [ast.unparse(n.value) for n in cw.body if isinstance(n, ast.Assign) and isinstance(n.targets[0], ast.Name) and n.targets[0].id == "x"]
    if not xs:
        raise Untranslatable("_calc_weights: no assignment to x")
    constants.append(("XRayTransform3D._calc_weights.x", xs[0]))
    # default dx of the 2-D projector: `if dx is None: dx = <value>`
    init2 = _function(xray, "XRayTransform2D", "__init__", "x2")
    dxs = [ast.unparse(s.value) for n in ast.walk(init2) if isinstance(n, ast.If) and ast.unparse(n.test) == "dx is None"
           for s in n.body if isinstance(s, ast.Assign)]
    if len(dxs) != 1:
        raise Untranslatable("XRayTransform2D.__init__: expected `if dx is None: dx = ...`")
    constants.append(("XRayTransform2D.__init__.dx", dxs[0]))
    exported = sorted(set(_all_list("scico/linop/__init__.py") + _all_list("scico/linop/xray/__init__.py")
                          + _public_classes("scico/linop/optics.py") + _public_classes("scico/linop/abel.py")))
    return defaults, options, constants, exported


def _s(x):
    return '"' + x.replace("\\", "\\\\").replace('"', '\\"') + '"'


def render(defaults, options, constants, exported, raises=None, attrs=None):
    L = ["/- GENERATED by harness/linops_translate.py from scico/linop/*.py, scico/linop/xray/_xray.py, scico/operator/_stack.py,",
         "   scico/operator/biconvolve.py, scico/numpy/util.py, scico/functional/_tvnorm.py (ast) — rewritten on every run, do not edit. -/",
         "import Scico.Proofs.LinOpsTables", "", "namespace Scico.Generated.LinOpsTables", "open Scico.LinOpsTables", "",
         "/-- (function, argument, source text of its default value) -/",
         "def defaults : List (String × String × String) := ["]
    L += [f"  ({_s(f)}, {_s(a)}, {_s(v)})," for f, a, v in defaults]
    L[-1] = L[-1].rstrip(",")
    L += ["]", "", "/-- accepted option values (source texts of the list / tuple elements) -/", "def options : List (String × List String) := ["]
    L += [f"  ({_s(k)}, [{', '.join(_s(e) for e in vs)}])," for k, vs in options]
    L[-1] = L[-1].rstrip(",")
    L += ["]", "", "/-- constants the model / driver / grid rely on -/", "def constants : List (String × String) := ["]
    L += [f"  ({_s(k)}, {_s(v)})," for k, v in constants]
    L[-1] = L[-1].rstrip(",")
    L += ["]", "", "/-- names exported by scico.linop, scico.linop.xray and the public classes of optics.py, abel.py -/",
          "def exported : List String := [" + ", ".join(_s(e) for e in exported) + "]", "",
          "def src : Tables := ⟨defaults, options, constants, exported⟩", "",
          "/-- error cases: (function, guard, exception class) of every `if guard: raise Exc(…)`, in source order -/",
          "def raises : List (String × String × String) := ["] + _lines3(raises) + ["]", "",
          "/-- attributes stored by the constructors (`self.X = …`) -/",
          "def attrs : List (String × List String) := ["] + _lines2(attrs) + ["]", "",
          "/-- the error cases of the modelled constructors are exactly the ones the model knows about -/",
          "theorem raises_eq : raises = modelRaises := by decide", "",
          "/-- every attribute the adapter / model reads from an operator is still stored by its constructor -/",
          "theorem attrs_used : usedAttrs.all (fun ca => ((attrs.find? (fun t => t.1 = ca.1)).map (·.2)).any (fun l => ca.2.all l.contains)) = true := by decide", "",
          "/-- every default argument value of every constructor in the grid is the one the model / grid assume -/",
          "theorem defaults_eq : src.defaults = modelTables.defaults := by decide", "",
          "/-- accepted option value sets (pad modes, convolution modes, boundary flags, …) -/",
          "theorem options_eq : src.options = modelTables.options := by decide", "",
          "/-- MAX_SLICE_LEN, footprint width, voxel-centre offset, default pixel size -/",
          "theorem constants_eq : src.constants = modelTables.constants := by decide", "",
          "/-- every exported name is a class of the configuration grid or is pinned in the exclusion list -/",
          "theorem exported_covered : src.exported.all (fun n => covered.contains n || excluded.contains n) = true := by decide", "",
          "/-- and every grid class that lives in these modules is still exported -/",
          "theorem covered_exported : (covered.filter (fun n => !notExported.contains n)).all (fun n => src.exported.contains n) = true := by decide", "",
          "end Scico.Generated.LinOpsTables", ""]
    return "\n".join(L)


def _lines3(rows):
    L = [f"  ({_s(a)}, {_s(b)}, {_s(c)})," for a, b, c in rows]
    if L:
        L[-1] = L[-1].rstrip(",")
    return L


def _lines2(rows):
    L = [f"  ({_s(k)}, [{', '.join(_s(e) for e in vs)}])," for k, vs in rows]
    if L:
        L[-1] = L[-1].rstrip(",")
    return L


def generate(ctx=None):
    raises, attrs = extract_checked()
    text = render(*extract(), raises=raises, attrs=attrs)
    OUT.parent.mkdir(parents=True, exist_ok=True)
    if not OUT.exists() or OUT.read_text() != text:
        OUT.write_text(text)
    return [("Scico.Generated.LinOpsTables",
             "constructor defaults, accepted option values, MAX_SLICE_LEN / footprint width / voxel-centre offset, exported operator classes = tables of the model")]


def model_tables_text():
    """hand-written side, printed once to seed lean/Scico/Proofs/LinOpsTables.lean (not used by the check)"""
    d, o, c, e = extract()
    return d, o, c, e


if __name__ == "__main__":
    print(generate())
