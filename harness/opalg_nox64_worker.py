"""Default-precision worker of the OpAlg engine (C05 / C12), run as a subprocess WITHOUT jax_enable_x64: the library's default
mode (float32 / complex64 throughout, Python scalars weakly typed).  Every sampled expression tree / stack is built from
32-bit data (or with the dtype arguments omitted: scico's float32 defaults), and the property is evaluated on the
implementation alone: construction must agree (accept / reject) with the recorded expectation, declared shapes = returned
shapes, declared dtypes = returned dtypes and all 32-bit, forward values = the same construction on the operands' matrices
(numpy, float64) at relative tolerance 1e-3, adjoint = conjugate transpose for kind-uniform trees.
Reads {"repo", "items": [{"e": tree} | {"stack": case}, ...]} on stdin, prints {"results": [...]}."""

import json
import os
import sys
import warnings

os.environ["JAX_PLATFORMS"] = "cpu"
os.environ.pop("JAX_ENABLE_X64", None)
os.environ.setdefault("XLA_FLAGS", "--xla_cpu_multi_thread_eigen=false intra_op_parallelism_threads=2")
req = json.loads(sys.stdin.read())
sys.path.insert(0, req["repo"])
sys.path.insert(0, os.path.dirname(os.path.abspath(__file__)))
warnings.simplefilter("ignore")
import numpy as np  # noqa: E402

import jax  # noqa: E402

assert not jax.config.jax_enable_x64
import jax.numpy as jnp  # noqa: E402

import scico.numpy as snp  # noqa: E402
from scico import linop  # noqa: E402
from scico.operator import Operator  # noqa: E402

import common  # noqa: E402
import opalg_gen as G  # noqa: E402

assert not jax.config.jax_enable_x64

env = G.Env.__new__(G.Env)
env.scico, env.jnp, env.snp, env.linop, env.Operator = None, jnp, snp, linop, Operator
TOL = 1e-3


def leaf_default(e):
    """leaf built with the dtype arguments OMITTED (scico defaults: float32); real leaves only"""
    t = e["t"]
    if t == "sid":
        return linop.ScaledIdentity(env.scalar(e["c"]), G.tup(e["sh"]))
    if t == "ident":
        return linop.Identity(G.tup(e["sh"]))
    if t == "diag" and e.get("indt") is None:
        d = env.to_array(G.decs(e["d"]), e["dsh"], "float32")
        kw = {"input_shape": G.tup(e["insh"])} if e.get("insh") is not None else {}
        return linop.Diagonal(d, **kw)
    if t == "lin" and not G.is_nested(e["insh"]) and not G.is_nested(e["outsh"]):
        n, m = G.size(e["insh"]), G.size(e["outsh"])
        Gm = jnp.asarray(G.decs(e["G"]).reshape(m, n).real, dtype="float32")
        insh, outsh = e["insh"], e["outsh"]
        return linop.LinearOperator(input_shape=G.tup(insh), output_shape=G.tup(outsh),
                                    eval_fn=lambda x: (Gm @ x.ravel()).reshape(G.tup(outsh)),
                                    adj_fn=(lambda y: (Gm.T @ y.ravel()).reshape(G.tup(insh))) if e["hasadj"] else None)
    return env.leaf(e)


def build(e, default):
    if default and e["t"] in ("sid", "ident", "diag", "lin"):
        return leaf_default(e)
    t = e["t"]
    if t in ("mat", "diag", "sid", "ident", "lin", "nonlin"):
        return env.leaf(e)
    sub = {k: build(e[k], default) for k in ("a", "b") if isinstance(e.get(k), dict)}
    a = sub["a"]
    if t in ("add", "sub", "comp", "matmul", "had"):
        b = sub["b"]
        return {"add": lambda: a + b, "sub": lambda: a - b, "comp": lambda: a(b), "matmul": lambda: a @ b,
                "had": lambda: (a / b if e["div"] else a * b)}[t]()
    if t in ("neg", "T", "H", "conj", "gram"):
        return {"neg": lambda: -a, "T": lambda: a.T, "H": lambda: a.H, "conj": lambda: a.conj(), "gram": lambda: a.gram_op}[t]()
    c = env.scalar(e["c"])
    if t == "smulL":
        return c * a
    if t == "smulR":
        return a * c
    if t == "sdiv":
        return a / c
    if t == "rdiv":
        return c / a
    if t == "addS":
        if e["rev"]:
            return (c - a) if e["sub"] else (c + a)
        return (a - c) if e["sub"] else (a + c)
    raise RuntimeError(t)


def is32(dt):
    return np.dtype(dt).name in ("float32", "complex64")


def check(o, D, kind_uniform, adj_ok):
    """the property on the implementation in default precision; returns (info, fails)"""
    info = {"in_shape": G.lst(o.input_shape), "out_shape": G.lst(o.output_shape), "in_dtype": np.dtype(o.input_dtype).name,
            "out_dtype": np.dtype(o.output_dtype).name, "matrix_shape": [int(v) for v in o.matrix_shape]}
    fails = {}
    if not (is32(info["in_dtype"]) and is32(info["out_dtype"])):
        fails["declared_not_32bit"] = [info["in_dtype"], info["out_dtype"]]
    m, n = info["matrix_shape"]
    rng = np.random.Generator(np.random.PCG64(7))
    cplx = G.is_cplx(info["in_dtype"])
    xs = [np.eye(n, dtype=np.complex128)[j] for j in range(min(n, 2))]
    xs.append((rng.integers(-4, 5, n) / 2 + (1j * rng.integers(-4, 5, n) / 2 if cplx else 0)).astype(np.complex128))
    for x in xs:
        try:
            y = o(env.to_array(x, info["in_shape"], info["in_dtype"]))
        except Exception as ex:  # noqa: BLE001
            fails["evaluation_raised"] = {"x": [str(complex(v)) for v in x], "error": repr(ex)[:200]}
            break
        if G.lst(y.shape) != info["out_shape"]:
            fails["shape"] = {"declared": info["out_shape"], "returned": G.lst(y.shape)}
        if np.dtype(y.dtype).name != info["out_dtype"]:
            fails["dtype"] = {"declared_output_dtype": info["out_dtype"], "returned_dtype": np.dtype(y.dtype).name}
        if D is not None and list(D.shape) == [m, n]:
            want = D @ x
            got = env.flat(y)
            scale = 1 + float(np.max(np.abs(want))) if want.size else 1.0
            if got.shape != want.shape or float(np.max(np.abs(got - want), initial=0.0)) > TOL * scale:
                fails["value"] = {"x": [str(complex(v)) for v in x], "operator_returned": [str(complex(v)) for v in got],
                                  "same_construction_on_matrices": [str(complex(v)) for v in want]}
                break
    if D is not None and list(D.shape) != [m, n]:
        fails["matrix_shape_vs_construction"] = {"declared": [m, n], "construction": list(D.shape)}
    if adj_ok and hasattr(o, "adj") and not fails:
        yv = (rng.integers(-4, 5, m) / 2 + (1j * rng.integers(-4, 5, m) / 2 if G.is_cplx(info["out_dtype"]) else 0)).astype(np.complex128)
        try:
            z = o.adj(env.to_array(yv, info["out_shape"], info["out_dtype"]))
            if G.lst(z.shape) != info["in_shape"] or np.dtype(z.dtype).name != info["in_dtype"]:
                fails["adjoint_meta"] = {"declared_input": [info["in_shape"], info["in_dtype"]], "adj_returned": [G.lst(z.shape), np.dtype(z.dtype).name]}
            elif D is not None and kind_uniform and list(D.shape) == [m, n]:
                want = D.conj().T @ yv
                got = env.flat(z)
                scale = 1 + float(np.max(np.abs(want))) if want.size else 1.0
                if float(np.max(np.abs(got - want), initial=0.0)) > TOL * scale:
                    fails["adjoint_value"] = {"y": [str(complex(v)) for v in yv], "adj_returned": [str(complex(v)) for v in got],
                                              "conjugate_transpose_of_construction": [str(complex(v)) for v in want]}
        except Exception as ex:  # noqa: BLE001
            fails["adjoint_raised"] = repr(ex)[:200]
    return info, fails


out = []
for k, it in enumerate(req["items"]):
    rec = {}
    try:
        if "e" in it:
            e = it["e"]
            o = build(e, it.get("default", False))
            D = None
            if not G.has_nonlin(e) and (G.kind_uniform(e) or not G.uses_adjoint(e)):
                try:
                    D = G.np_den(e)
                except Exception:  # noqa: BLE001
                    D = None
            adj_ok = (not G.has_nonlin(e)) and G.leaf_adj_ok(e) and (G.dtype_uniform(e) or not G.has_sum(e))
            rec["info"], rec["fails"] = check(o, D, G.kind_uniform(e), adj_ok)
        else:
            import opalg_stacks as S

            c = it["stack"]
            o = S.build_stack(env, c)
            lin_ok = all(not G.has_nonlin(e) for e in c["es"])
            D = None
            if lin_ok and all(G.kind_uniform(e) or not G.uses_adjoint(e) for e in c["es"]):
                try:
                    D = S._np_stack_den(c["kind"], c["es"])
                except Exception:  # noqa: BLE001
                    D = None
            uni = all(G.kind_uniform({"t": "add", "a": e, "b": c["es"][0]}) for e in c["es"])
            dtu = all(G.dtype_uniform({"t": "add", "a": e, "b": c["es"][0]}) for e in c["es"])
            rec["info"], rec["fails"] = check(o, D, uni, c["lin"] and dtu and all(G.leaf_adj_ok(e) for e in c["es"]))
    except Exception as ex:  # noqa: BLE001
        rec["err"] = common.err_kind(ex)
        rec["raised"] = repr(ex)[:200]
    out.append(rec)
    if k % 60 == 59:
        jax.clear_caches()
print(json.dumps({"results": out}))
