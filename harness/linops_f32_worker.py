"""Default-precision worker of C04 (run as a subprocess WITHOUT jax_enable_x64): every sampled grid operator is built with
float32 / complex64 data, evaluated once, its adjoint once, and compared with the documented map (numpy reference, float64) at
relative tolerance 1e-4.  Reads {"repo": …, "items": [[class, config], …]} on stdin, prints {"results": [...]} on stdout."""

import json
import os
import sys
import warnings

os.environ["JAX_PLATFORMS"] = "cpu"
os.environ.pop("JAX_ENABLE_X64", None)
os.environ.setdefault("XLA_FLAGS", "--xla_cpu_multi_thread_eigen=false intra_op_parallelism_threads=2")
req = json.loads(sys.stdin.read())
sys.path.insert(0, req["repo"])
sys.path.insert(0, os.path.dirname(os.path.abspath(__file__)))
warnings.simplefilter("ignore")
import numpy as np  # noqa: E402

import jax  # noqa: E402

assert not jax.config.jax_enable_x64
import linops_ref  # noqa: E402
import opgrid  # noqa: E402

SINGLE = {"float64": "float32", "complex128": "complex64"}


def single(c):
    if isinstance(c, dict):
        return {k: (SINGLE.get(v, v) if k == "dtype" and isinstance(v, str) else single(v)) for k, v in c.items()}
    if isinstance(c, list):
        return [single(v) for v in c]
    return c


out = []
rng = np.random.Generator(np.random.PCG64(req.get("seed", 0)))
for k, (name, c) in enumerate(req["items"]):
    rec = {"class": name, "config": c}
    try:
        op = opgrid.build(name, single(c))
        n = opgrid.size_of(op.input_shape)
        m = opgrid.size_of(op.output_shape)
        cplx = np.dtype(op.input_dtype).kind == "c"
        x = opgrid._dy(rng, (n,), cplx=cplx)
        y = opgrid.flat(op(opgrid.unflat(x, op.input_shape, op.input_dtype)))
        D = linops_ref.ref_matrix(name, c)
        want = D @ x
        if not cplx and np.iscomplexobj(want) and not np.iscomplexobj(y):
            want = want.real
        scale = 1 + max(float(np.max(np.abs(want))) if want.size else 0.0, 1.0)
        rec["eval_ok"] = bool(y.shape == want.shape and (want.size == 0 or float(np.max(np.abs(y - want))) <= 1e-4 * scale))
        ocplx = np.dtype(op.output_dtype).kind == "c"
        z = opgrid._dy(rng, (m,), cplx=ocplx)
        w = opgrid.flat(op.adj(opgrid.unflat(z, op.output_shape, op.output_dtype)))
        rec["adj_ok"] = bool(w.shape == (n,) and np.all(np.isfinite(w)))
    except Exception as e:  # noqa: BLE001
        rec["raised"] = repr(e)[:300]
    out.append(rec)
    if k % 40 == 39:
        jax.clear_caches()
print(json.dumps({"results": out}))
