"""Default-precision worker of C02 (run as a subprocess WITHOUT jax_enable_x64): every item is a prox case of `prox_cases` at
float32 / complex64 (plain, N-d and block layouts, Python-float `lam`), together with the prox value of the Lean model computed
by the parent.  For each item the real scico object is built and `prox` is called once; recorded are

* `raised`   : the exception, if the library raised on this conforming input,
* `dtypes`   : dtype of every returned array/block (must be the input dtype: float32 / complex64 — nothing may be promoted),
* `value_ok` : the result against the model's value at the float32 relative tolerance 1e-4·n·(1+max),
* `objective`: objective of the returned point and of the model's point, evaluated with the library's own `__call__` in this mode,
* `failing`  : when the value differs or the objective is worse — the property oracle of `prox_cases.oracle` (competitors, sub-gradient
               inequality, domain) evaluated HERE, in default precision.

Reads {"repo": …, "items": [{"case": …, "model": {"re": […], "im": […]}, "margin": …}], "seed": …} on stdin, prints {"results": […]}."""

import json
import math
import os
import sys
import warnings

os.environ["JAX_PLATFORMS"] = "cpu"
os.environ.pop("JAX_ENABLE_X64", None)
os.environ.setdefault("XLA_FLAGS", "--xla_cpu_multi_thread_eigen=false intra_op_parallelism_threads=2")
req = json.loads(sys.stdin.read())
sys.path.insert(0, req["repo"])
sys.path.insert(0, os.path.dirname(os.path.abspath(__file__)))
warnings.simplefilter("ignore")
import numpy as np  # noqa: E402

import jax  # noqa: E402

assert not jax.config.jax_enable_x64
import prox_cases as pc  # noqa: E402
import scico.numpy as snp  # noqa: E402

out = []
rng = np.random.Generator(np.random.PCG64(req.get("seed", 0)))
for k, item in enumerate(req["items"]):
    case = item["case"]
    rec = {"i": k}
    cplx = bool(case.get("cplx"))
    want_dtype = "complex64" if cplx else "float32"
    pm = np.asarray(item["model"]["re"], dtype=np.float64)
    if cplx:
        pm = pm + 1j * np.asarray(item["model"]["im"], dtype=np.float64)
    try:
        impl = pc.Impl(case)
        if not impl.has_prox():
            rec["raised"] = "has_prox is False for a configuration that advertises a prox with x64"
            out.append(rec)
            continue
        v = pc.flat_value(case, "v")
        x = impl.f.prox(pc.to_scico(case, v), impl.lam_arg())
        blocks = list(x) if isinstance(x, snp.BlockArray) else [x]
        rec["dtypes"] = sorted({str(b.dtype) for b in blocks})
        rec["dtype_ok"] = rec["dtypes"] == [want_dtype]
        p = pc.from_scico(x)
        n = max(p.size, 1)
        rec["finite"] = bool(np.all(np.isfinite(p)))
        top = max(float(np.max(np.abs(pm), initial=0.0)), float(np.max(np.abs(p), initial=0.0))) if rec["finite"] else float("inf")
        rec["value_ok"] = bool(rec["finite"] and p.shape == pm.shape and float(np.max(np.abs(p - pm), initial=0.0)) <= 1e-4 * n * (1.0 + top))
        margin = item.get("margin")
        rec["near_tie"] = bool(margin is not None and 0 < margin < 1e-4)  # decision margin below float32 resolution: not comparable
        fam = case["fam"]
        if fam != "l0" and rec["finite"]:
            # objective of the returned point against the model's point (library's __call__ in this mode)
            pz = pm if cplx else np.real(pm)
            fp = impl.value(p.astype(np.complex128 if cplx else np.float64))
            if not math.isfinite(fp) and fam in ("l2ball", "lossgen"):
                fp = 0.0  # projection lands on the sphere up to float32 rounding (checked by the oracle with a shrink)
            fz = impl.value(pz)
            if math.isfinite(fz) and math.isfinite(fp):
                Fp, Fz = impl.objective(p.astype(np.complex128 if cplx else np.float64), v), impl.objective(pz, v)
                rec["objective"] = [Fp, Fz]
                rec["objective_ok"] = bool(Fp <= Fz + 1e-3 * (1.0 + abs(Fp) + abs(Fz)))
            elif not math.isfinite(fp):
                rec["objective_ok"] = False
                rec["objective"] = [fp, fz]
        if fam != "l0" and not rec["near_tie"] and (not rec["value_ok"] or rec.get("objective_ok") is False):
            rec["failing"] = pc.oracle(case, rng, pm if cplx else np.real(pm))
    except Exception as e:  # noqa: BLE001
        import traceback

        frames = traceback.extract_tb(e.__traceback__)
        rec["raised"] = f"{type(e).__name__}: {str(e)[:300]}"
        rec["raised_in_scico"] = any("/scico/" in (fr.filename or "") for fr in frames)
        rec["where"] = [f"{os.path.basename(fr.filename)}:{fr.lineno}" for fr in frames[-3:]]
    out.append(rec)
    if k % 60 == 59:
        jax.clear_caches()
print(json.dumps({"results": out}, default=str))
