"""C13 - block arrays and the wrapped numpy namespace act block-wise as documented.

The Lean model (`Scico/Model/Block.lean`) gives, for any per-block function, *which* computation
the wrappers perform (which block gets which arguments, when one concatenation is reduced, when
the call is rejected); jax gives the per-block values.  Every case runs the model end-to-end
(two-request protocol of `block_eval.run2`) and compares with the real `scico.numpy` call.
"""

from __future__ import annotations

import inspect
import itertools
import json
import warnings

import numpy as np

import block_eval as be
import common
import translate_lists
from block_eval import A, Evaluator, run2, same, val_json
from common import ModelErr

PROP = "C13"
CLAIMED = True
ENGINE = "Block"
DESIGN_REF = "DESIGN.md §5.8"
TECHNIQUE = (
    "Lean 4 proof (induction over argument lists / blocks, for an arbitrary per-block function) + generated "
    "wrapped-name tables checked by `decide` + correspondence exhaustive over the whole wrapped-name table"
)
LEVEL_TEXT = (
    "Lean theorems about the transcription of _blockarray.py/_wrappers.py: operator overloads, lifted methods, "
    "map_func_over_blocks (any f, any positional/keyword mix, block count from the first block argument, mismatch "
    "rejected), add_full_reduction (one call on the concatenation without axis, per block with axis; sum/norm^2/max/"
    "min/count/any/all of a concatenation = fold of per-block values), creation routines on nested shapes, pytree "
    "round trip and the contract for placeholder leaves (non-array leaves stored untouched), block assignment, "
    "scico.random (_add_seed: where key/seed are read, key xor seed, same effective key for every block, returned key "
    "= split(key)[0]), dtype invariant. Tables (wrapped names; lifted jax-array attributes) regenerated from source "
    "every run and checked by `decide`."
)
LEVEL_NOTE = (
    "Trusted: Lean kernel + Mathlib (axioms propext, Classical.choice, Quot.sound); jax.numpy per-block values, "
    "isinstance/jnp.array/dtype and CPython's inspect.signature().bind are contracts (exercised every run); the "
    "tie is differential testing over every wrapped name with generated argument patterns (names without an "
    "accepted pattern are listed in the evidence); float rounding is not modelled (the numeric reduction layer is "
    "compared within 1e-9)."
)
PROP_MODULES = ["Scico.Props.C13"]
EXTRA_TARGETS = ["Drv.Block", "Scico.Proofs.BlockLists", "Scico.Proofs.BlockSource"]
DRIVER = "Block"
FILES = [
    "scico/numpy/_blockarray.py",
    "scico/numpy/_wrappers.py",
    "scico/numpy/_wrapped_function_lists.py",
    "scico/numpy/__init__.py",
    "scico/numpy/util.py",
    "scico/scipy/special.py",
    "scico/random.py",
]
RULE = (
    "names: every name of the regenerated tables (mathematical, special, reductions, creation, testing) x first "
    "accepted argument family x {positional, keyword, mixed} passing x block structures (incl. 0-d blocks) + one "
    "boundary structure; operators: every lifted dunder x operand kinds {block, block of other length, jax/numpy "
    "array, 0-d, python int/float/complex, str}; methods/properties: every lifted attribute; wrappers on a "
    "recording python function with random positional/keyword block/array mixes and block counts; reductions with/"
    "without axis, 0/1/2 block arguments; creation with nested/flat/int shapes. A case is non-trivial when a block "
    "array with >= 2 blocks takes part (or one block of rank >= 2 meets a rank-sensitive reduction option: every reduction x "
    "{keepdims, ord in 1,2,inf,-inf,0,fro,nuc, dtype, initial, where, promote_integers} on single-block arrays of rank 0/2/3); distinct by (section, name, family, passing, structure, dtype). Round 2: 23 jax "
    "transformations of a function of a block array vs the tuple of its blocks; tree_unflatten with 10 kinds of leaf "
    "lists; x[k] = v for random k in [-n-1, n] and value kinds {same dtype, other dtype, list, numpy}; scico.random: "
    "wrapped names (all in thorough, 9 in quick) x 12 argument forms x nested/flat shapes."
)
ASSUMPTIONS = [
    "jax.numpy / jax.scipy.special / numpy.testing functions are the reference for per-block values (contract)",
    "inspect.signature(f).bind is CPython's argument binding (contract); isinstance(x, jnp.ndarray), jnp.array(x), x.dtype are jax primitives (contract, table-backed in the model run)",
]

KNOWN_RMOD = "blockarray-rmod-missing"
KNOWN_TUPLE = "map-blocks-tuple-results"

# ---------------------------------------------------------------------------------------------


def generate(ctx):
    t = translate_lists.generate()
    ctx.extra["wrapped_name_tables"] = {k: len(v) for k, v in t.items()}
    import block_translate

    src = block_translate.generate("block")
    ctx.extra["source_skeletons"] = {k: len(v) for k, v in src}
    return [("Scico.Generated.WrappedNames", "wrapped-name tables: reductions also block-mapped, one wrapper per name, wrapper order, promised operators lifted; lifted attributes; operators; namespace"),
            ("Scico.Generated.BlockSource", "normalised decision structure of the 22 function bodies the model transcribes (_blockarray.py, _wrappers.py, util.py, random.py) = pinned skeletons")]


class Env:
    """everything imported from the code under test"""

    def __init__(self):
        self.scico = common.setup_scico()
        import jax
        import jax.numpy as jnp
        import jax.scipy.special as jss

        import scico.numpy as snp
        import scico.random as srandom
        import scico.scipy.special as sspecial
        from scico.numpy import BlockArray, _blockarray, _wrappers

        self.jax, self.jnp, self.jss, self.snp = jax, jnp, jss, snp
        self.sspecial, self.srandom = sspecial, srandom
        self.BlockArray, self._blockarray, self._wrappers = BlockArray, _blockarray, _wrappers
        self.ArrayT = _blockarray.Array
        self.tables = translate_lists.read_tables()
        self.py = {}

    def resolve(self, fn):
        kind, _, name = fn.partition(":")
        if kind == "jnp":
            return be.getpath(self.jnp, name)
        if kind == "jsp":
            return getattr(self.jss, name)
        if kind == "np":
            return be.getpath(np, name)
        if kind == "jr":
            return getattr(self.jax.random, name)
        if kind == "op":
            return getattr(self.ArrayT, name)
        if kind == "meth":
            return lambda x, *a, **k: getattr(x, name)(*a, **k)
        if kind == "prop":
            return lambda x: getattr(x, name)
        if kind == "py":
            return self.py[name]
        raise common.Infra(f"unknown function id {fn}")


# ---------------------------------------------------------------------------------------------
# data generation


def gen_array(env, rng, shape, kind, dtype=None):
    jnp = env.jnp
    if kind in ("x", "y"):
        a = common.dyadic(rng, shape, bits=4, scale=0.9)
    elif kind == "p":
        a = np.abs(common.dyadic(rng, shape, bits=4, scale=3.0)) + 0.5
    elif kind in ("i", "j"):
        a = rng.integers(1, 7, size=shape).astype(np.int64)
    elif kind == "b":
        a = rng.integers(0, 2, size=shape).astype(bool)
    elif kind == "c":
        a = common.dyadic(rng, shape, bits=4, scale=0.9) + 1j * common.dyadic(rng, shape, bits=4, scale=0.9)
    elif kind in ("M", "N"):
        k = shape[-1] if len(shape) else 1
        a = common.dyadic(rng, (k, k), bits=3, scale=0.5) + 2.0 * np.eye(k)
    elif kind == "S":
        k = shape[-1] if len(shape) else 1
        m = common.dyadic(rng, (k, k), bits=3, scale=0.5)
        a = m @ m.T + 2.0 * np.eye(k)
    else:
        raise common.Infra(kind)
    a = np.asarray(a)
    if dtype is not None and a.dtype.kind == "f":
        a = a.astype(dtype)
    return jnp.array(a)


STRUCTS = {
    "a": [(3,), (2, 3), ()],
    "b": [(3,), (2, 3)],
    "c": [(4,), (3,)],
    "d": [(2, 2), (3, 3)],
    "e": [(3,)],
    "f": [(2, 3), (3,), (1, 2), ()],
    "h": [(1, 2, 2), (2, 1, 3)],
    "g": [(2,), (), (1, 3), (2, 2), (3,)],
    # exactly one block of rank >= 2: "the concatenation of the ravelled blocks" is 1-d, the block is not
    "s2": [(2, 3)],
    "s3": [(2, 1, 3)],
    "s0": [()],
}


def gen_block(env, rng, struct, kind, dtype=None):
    return env.BlockArray([gen_array(env, rng, s, kind, dtype) for s in STRUCTS[struct]])


FAMILIES = [
    ("x",),
    ("x", "y"),
    ("i", "j"),
    ("M",),
    ("M", "N"),
    ("S",),
    ("c",),
    ("x", 2),
    ("b", "x", "y"),
    ("p", "i"),
]


def _sp(*tmpl, **kw):
    return (tmpl, kw)


# name -> (argument templates, keyword templates); letters are block kinds, anything else is static
SPECIAL = {
    "reshape": _sp("x", (-1,)),
    "moveaxis": _sp("M", 0, 1),
    "rollaxis": _sp("M", 1),
    "swapaxes": _sp("M", 0, 1),
    "expand_dims": _sp("x", 0),
    "tile": _sp("x", 2),
    "repeat": _sp("x", 2),
    "roll": _sp("x", 1),
    "clip": _sp("x", -0.5, 0.5),
    "where": _sp("b", "x", "y"),
    "interp": _sp("x", "y", "y"),
    "einsum": _sp("ij,ij->", "M", "N"),
    "einsum_path": _sp("ij,ij->", "M", "N"),
    "tensordot": _sp("M", "N", 1),
    "linalg.matrix_power": _sp("M", 2),
    "linalg.tensorsolve": _sp("M", "x"),
    "split": _sp("x", 1),
    "array_split": _sp("x", 2),
    "insert": _sp("x", 0, 1.5),
    "resize": _sp("x", (2,)),
    "partition": _sp("x", 0),
    "searchsorted": _sp("x", 0.25),
    "full_like": _sp("x", 1.5),
    "ldexp": _sp("x", "i"),
    "nan_to_num": _sp("x"),
    "cross": _sp("x", "y"),
    "polygamma": _sp("i", "p"),
    "zeta": _sp("p", "p"),
    "betainc": _sp("p", "p", "x"),
    "multigammaln": _sp("p", 1),
    "sph_harm": _sp("i", "i", "x", "x"),
    "vsplit": _sp("M", 1),
    "hsplit": _sp("M", 1),
    "dsplit": _sp("x", 1),
}

SKIP_NAMES = {
    # need concrete per-call python structure that cannot be shared by blocks of different shapes
    "linalg.tensorinv": "needs a 4-d operand with prod(shape[:2]) == prod(shape[2:])",
    "linalg.multi_dot": "takes a list of arrays (a list is not a BlockArray: no mapping)",
    "block": "takes a nested list of arrays",
}


def instantiate(env, rng, tmpl, struct, dtype=None):
    """template -> (real args, n block args)"""
    out = []
    for t in tmpl:
        if isinstance(t, str) and len(t) == 1 and t.isalpha():
            out.append(gen_block(env, rng, struct, t, dtype))
        else:
            out.append(t)
    return out


def per_block_ok(env, fn, args, kwargs):
    """does jax accept every block of these arguments?"""
    BA = env.BlockArray
    n = next((len(a) for a in list(args) + list(kwargs.values()) if isinstance(a, BA)), 0)
    for i in range(max(n, 1)):
        a = [x[i] if isinstance(x, BA) else x for x in args]
        k = {kk: (v[i] if isinstance(v, BA) else v) for kk, v in kwargs.items()}
        try:
            r = fn(*a, **k)
            if r is NotImplemented:
                return False
        except Exception:  # noqa: BLE001
            return False
    return True


# ---------------------------------------------------------------------------------------------
# one case = model run + real call + comparison


def impl_call(f, args, kwargs):
    try:
        return ("ok", f(*args, **kwargs))
    except Exception as e:  # noqa: BLE001
        return ("err", common.err_kind(e))


def compare(env, m, impl, ev, op=None):
    BA = env.BlockArray
    if m[0] == "err":
        return impl[0] == "err" and impl[1] == m[1]
    res = m[1]
    if "ni" in res:
        # Python's fallback when both operands answer NotImplemented: identity for ==/!=, TypeError otherwise
        if op == "__eq__":
            return impl == ("ok", False)
        if op == "__ne__":
            return impl == ("ok", True)
        return impl[0] == "err" and impl[1] == "type"
    if impl[0] == "err":
        return False
    r = impl[1]
    try:
        if "blk" in res:
            return isinstance(r, BA) and len(r) == len(res["blk"]) and all(same(ev.val(t), r.arrays[i]) for i, t in enumerate(res["blk"]))
        if "tup" in res:
            return isinstance(r, tuple) and len(r) == len(res["tup"]) and all(same(ev.val(t), r[i]) for i, t in enumerate(res["tup"]))
        if "one" in res:
            return same(ev.val(res["one"]), r)
        if "none" in res:
            return r is None
    except be.Raised:
        return False
    raise common.Infra(f"unknown model result {res}")


def show(env, m, ev):
    if m[0] == "err":
        return {"err": m[1]}
    res = m[1]
    out = {}
    for k in ("blk", "tup"):
        if k in res:
            vals = []
            for t in res[k]:
                st, v = ev.ev(t)
                vals.append(be.describe(v) if st == "ok" else {"err": st})
            out[k] = vals
    if "one" in res:
        st, v = ev.ev(res["one"])
        out["one"] = be.describe(v) if st == "ok" else {"err": st}
    if "ni" in res:
        out["NotImplemented"] = True
    if "none" in res:
        out["none"] = True
    return out


def show_impl(impl):
    return {"err": impl[1]} if impl[0] == "err" else be.describe(impl[1])


def jsonable(x):
    BA = None
    try:
        from scico.numpy import BlockArray as BA  # noqa: N814
    except Exception:  # noqa: BLE001
        pass
    if BA is not None and isinstance(x, BA):
        return {"BlockArray": [jsonable(b) for b in x.arrays]}
    if isinstance(x, type) and issubclass(x, np.generic):
        return {"npdtype": np.dtype(x).name}
    if hasattr(x, "shape") and hasattr(x, "dtype"):
        a = np.asarray(x)
        if a.dtype.kind == "c":
            return {"dtype": str(a.dtype), "shape": list(a.shape), "re": a.real.ravel().tolist(), "im": a.imag.ravel().tolist()}
        return {"dtype": str(a.dtype), "shape": list(a.shape), "v": a.ravel().tolist()}
    if isinstance(x, tuple):
        return {"tuple": [jsonable(v) for v in x]}
    if isinstance(x, list):
        return [jsonable(v) for v in x]
    if isinstance(x, type) and issubclass(x, np.generic):
        return {"npdtype": np.dtype(x).name}
    if isinstance(x, (int, float, str, bool)) or x is None:
        return x
    if isinstance(x, complex):
        return {"complex": [x.real, x.imag]}
    return repr(x)


def unjson(env, x):
    if isinstance(x, dict) and "BlockArray" in x:
        return env.BlockArray([unjson(env, b) for b in x["BlockArray"]])
    if isinstance(x, dict) and "dtype" in x:
        if "re" in x:
            a = (np.array(x["re"]) + 1j * np.array(x["im"])).astype(x["dtype"]).reshape(x["shape"])
        else:
            a = np.array(x["v"], dtype=x["dtype"]).reshape(x["shape"])
        return env.jnp.array(a)
    if isinstance(x, dict) and "complex" in x:
        return complex(*x["complex"])
    if isinstance(x, dict) and "npdtype" in x:
        return np.dtype(x["npdtype"]).type
    if isinstance(x, dict) and "tuple" in x:
        return tuple(unjson(env, v) for v in x["tuple"])
    if isinstance(x, list):
        return [unjson(env, v) for v in x]
    return x


def args_atoms(args, kwargs):
    atoms, jargs, jkw = {}, [], []
    for i, a in enumerate(args):
        j, at = val_json(a, f"p{i}")
        jargs.append(j)
        atoms.update(at)
    for k, v in kwargs.items():
        j, at = val_json(v, f"k_{k}")
        jkw.append([k, j])
        atoms.update(at)
    return atoms, jargs, jkw


def nblocks(env, args, kwargs):
    return max([len(a) for a in list(args) + list(kwargs.values()) if isinstance(a, env.BlockArray)] + [0])


def _plain_signature(fn):
    """(positional-or-keyword names, keyword-only names) when the signature has nothing else, else None"""
    try:
        ps = list(inspect.signature(fn).parameters.values())
    except (TypeError, ValueError):
        return None
    if any(p.kind not in (inspect.Parameter.POSITIONAL_OR_KEYWORD, inspect.Parameter.KEYWORD_ONLY) for p in ps):
        return None
    return [p.name for p in ps if p.kind is inspect.Parameter.POSITIONAL_OR_KEYWORD], [p.name for p in ps if p.kind is inspect.Parameter.KEYWORD_ONLY]


def run_call(env, ctx, model, section, kind, fn_id, raw_fn, snp_fn, args, kwargs, tag, known_id=None, key="shape"):
    """kind in map | void | reduce | create.  Returns True when model and code agree."""
    atoms, jargs, jkw = args_atoms(args, kwargs)
    ev = Evaluator(atoms, env.resolve)
    if kind == "map":
        m = run2(model, "map", dict(fn=fn_id, args=jargs, kwargs=jkw), ev)
    elif kind == "void":
        m = run2(model, "map", dict(fn=fn_id, args=jargs, kwargs=jkw), ev)
        if m[0] == "ok":
            # same calls, results discarded: rerun through the void wrapper with the complete table
            m = run2_void(model, fn_id, jargs, jkw, ev)
    elif kind == "reduce" and _plain_signature(raw_fn) is not None:
        # the model binds the arguments itself (`bindCall`): which positional reaches `axis`, keyword-only names, TypeErrors
        pos_params, kw_only = _plain_signature(raw_fn)
        m = run2(model, "reduce_call", dict(fn=fn_id, pos_params=pos_params, kw_only=kw_only, args=jargs, kwargs=jkw), ev)
        ctx.count("reduction:bound-by-the-model")
    else:
        try:
            bound = inspect.signature(raw_fn).bind(*args, **kwargs).arguments
        except TypeError:
            bound = None
        if bound is None:
            m = ("err", "type")
        else:
            atoms, jb = {}, []
            for k, v in bound.items():
                if kind == "create" and k == key and isinstance(v, (int, tuple, list)) and not isinstance(v, bool):
                    jb.append([k, {"shape": be.shape_tree(v)}])
                    continue
                j, at = val_json(v, f"b_{k}")
                atoms.update(at)
                jb.append([k, j if kind == "reduce" else j.get("o", j)])
            ev = Evaluator(atoms, env.resolve)
            if kind == "reduce":
                m = run2(model, "reduce", dict(fn=fn_id, bound=jb), ev)
            else:
                m = run2(model, "create", dict(fn=fn_id, key=key, bound=jb), ev)
    impl = impl_call(snp_fn, args, kwargs)
    nb = nblocks(env, args, kwargs)
    desc = {"section": section, "fn": fn_id, "tag": tag}
    ctx.case(desc, (section, fn_id, tag) if (nb >= 2 or "/single/" in tag) else None)
    ctx.count(f"{section}:cases")
    ctx.count(f"{section}:model={'err:' + m[1] if m[0] == 'err' else 'ok'}")
    ctx.count(f"blocks={nb}")
    okk = compare(env, m, impl, ev)
    if not okk:
        case = {"section": section, "kind": kind, "fn": fn_id, "tag": tag, "args": [jsonable(a) for a in args], "kwargs": {k: jsonable(v) for k, v in kwargs.items()}, "key": key}
        ctx.disagree(f"block.{section}", case, show_impl(impl), show(env, m, ev), oracle=make_oracle(env), known_id=known_id)
    return okk


def run2_void(model, fn_id, jargs, jkw, ev):
    """the void wrapper: learn the calls through `map`, then run `mapvoid` with the complete table"""
    try:
        r1 = model.call("map", fn=fn_id, args=jargs, kwargs=jkw, tab=[])
    except ModelErr as e:
        return ("err", e.kind)
    tab = []
    for ent in r1["terms"]:
        st, v = ev.ev(ent["t"])
        tab.append({"k": ent["k"], "st": st, "arr": True, "dt": "-"})
    try:
        r2 = model.call("mapvoid", fn=fn_id, args=jargs, kwargs=jkw, tab=tab)
    except ModelErr as e:
        return ("err", e.kind)
    return ("ok", r2["res"])


# ---------------------------------------------------------------------------------------------
# property oracle (evaluated on the real code only, no model): the documented behaviour
# written directly with per-block jax calls


def make_oracle(env):
    BA = env.BlockArray

    def blockwise(raw, args, kwargs):
        blks = [a for a in list(args) + list(kwargs.values()) if isinstance(a, BA)]
        if not blks:
            return ("ok", raw(*args, **kwargs))
        n = len(blks[0])
        if any(len(b) != n for b in blks):
            return ("err", "type")
        outs = []
        for i in range(n):
            a = [x[i] if isinstance(x, BA) else x for x in args]
            k = {kk: (v[i] if isinstance(v, BA) else v) for kk, v in kwargs.items()}
            outs.append(raw(*a, **k))
        return ("ok", outs)

    def hetero(impl, what, case):
        # part of the property itself: a block array carries one homogeneous dtype
        if impl[0] == "ok" and isinstance(impl[1], BA) and len({str(b.dtype) for b in impl[1].arrays}) > 1:
            return {"call": what, "args": case.get("args"), "kwargs": case.get("kwargs"), "self": case.get("self"), "other": case.get("other"),
                    "returned_block_dtypes": [str(b.dtype) for b in impl[1].arrays], "expected": "one dtype (ValueError otherwise)"}
        return None

    def oracle(case):
        r = _oracle(case)
        return r

    def _oracle(case):
        sec, kind = case.get("section"), case.get("kind")
        args = [unjson(env, a) for a in case.get("args", [])]
        kwargs = {k: unjson(env, v) for k, v in case.get("kwargs", {}).items()}
        fn_id = case["fn"]
        raw = None
        if kind in ("map", "reduce", "create"):
            try:
                raw = env.resolve(fn_id)
            except Exception:  # noqa: BLE001
                return None
        if kind in ("reduce", "create"):
            # documented behaviour written directly on the bound arguments
            from scico.numpy import util

            sn = snp_of(env, fn_id)
            impl = impl_call(sn, args, kwargs)
            h = hetero(impl, fn_id, case)
            if h:
                return h
            try:
                bound = dict(inspect.signature(raw).bind(*args, **kwargs).arguments)
            except TypeError:
                return None
            try:
                if kind == "reduce":
                    bk = [k for k, v in bound.items() if isinstance(v, BA)]
                    if not bk:
                        return None
                    if "axis" in bound:
                        n = len(bound[bk[0]])
                        if any(len(bound[k]) != n for k in bk):
                            want = ("err", "type")
                        else:
                            want = ("blk", [raw(**{k: (v[i] if isinstance(v, BA) else v) for k, v in bound.items()}) for i in range(n)])
                    elif len(bk) > 1:
                        want = ("err", "value")
                    else:
                        cat = env.jnp.concatenate([env.jnp.ravel(b) for b in bound[bk[0]].arrays])
                        want = ("one", raw(**dict(bound, **{bk[0]: cat})))
                else:
                    key = case.get("key", "shape")
                    if key not in bound or not util.is_nested(bound[key]):
                        return None
                    want = ("blk", [raw(**dict(bound, **{key: s})) for s in bound[key]])
            except Exception:  # noqa: BLE001
                want = ("err", "any")
            if want[0] == "err":
                bad = impl[0] != "err"
            elif impl[0] == "err":
                bad = True
            elif want[0] == "blk":
                r = impl[1]
                bad = not (isinstance(r, BA) and len(r) == len(want[1]) and all(same(w, r.arrays[i]) for i, w in enumerate(want[1])))
            else:
                bad = not same(want[1], impl[1])
            if bad:
                return {"call": fn_id, "args": case.get("args"), "kwargs": case.get("kwargs"), "scico_result": show_impl(impl),
                        "documented": {"err": want[1]} if want[0] == "err" else be.describe(want[1])}
            return None
        if kind == "map":
            sn = snp_of(env, fn_id)
            impl = impl_call(sn, args, kwargs)
            h = hetero(impl, fn_id, case)
            if h:
                return h
            try:
                want = blockwise(raw, args, kwargs)
            except Exception as e:  # noqa: BLE001
                want = ("err", common.err_kind(e))
            if want[0] == "ok" and isinstance(want[1], list) and all(be.is_arr(w) for w in want[1]) and len({str(w.dtype) for w in want[1]}) > 1:
                want = ("err", "dtype")  # per-block results of different dtypes: a block array must not be formed
            if want[0] == "err":
                bad = impl[0] != "err"
            elif impl[0] == "err":
                bad = True
            elif isinstance(want[1], list):
                r = impl[1]
                if any(isinstance(w, (tuple, list)) for w in want[1]):
                    # several outputs per block: the documented result would be those outputs block by block
                    bad = not (isinstance(r, tuple) and all(isinstance(t, BA) for t in r))
                else:
                    bad = not (isinstance(r, BA) and len(r) == len(want[1]) and all(same(env.jnp.array(w) if not be.is_arr(w) else w, r.arrays[i]) for i, w in enumerate(want[1])))
            else:
                bad = not same(want[1], impl[1])
            if bad:
                return {"call": f"{fn_id}", "args": case.get("args"), "kwargs": case.get("kwargs"), "scico_result": show_impl(impl),
                        "per_block_jax": {"err": want[1]} if want[0] == "err" else be.describe(want[1])}
        if kind == "binop":
            x = unjson(env, case["self"])
            o = unjson(env, case["other"])
            pyf = PYOPS[case["fn"]]
            impl = impl_call(lambda: pyf(x, o), [], {})
            h = hetero(impl, case["fn"], case)
            if h:
                return h
            if isinstance(o, BA) and len(o) != len(x):
                if impl[0] != "err":
                    return {"expr": case["fn"], "self": case["self"], "other": case["other"], "scico_result": show_impl(impl), "expected": "TypeError (different numbers of blocks)"}
                return None
            try:
                want = [pyf(x[i], o[i] if isinstance(o, BA) else o) for i in range(len(x))]
            except Exception:  # noqa: BLE001
                return None if impl[0] == "err" else {"expr": case["fn"], "scico_result": show_impl(impl), "expected": "error"}
            if impl[0] == "err" or not (isinstance(impl[1], BA) and all(same(w, impl[1].arrays[i]) for i, w in enumerate(want))):
                return {"expr": case["fn"], "self": case["self"], "other": case["other"], "scico_result": show_impl(impl), "per_block_jax": be.describe(want)}
        return None

    return oracle


def snp_of(env, fn_id):
    kind, _, name = fn_id.partition(":")
    if kind == "jnp":
        return be.getpath(env.snp, name)
    if kind == "jsp":
        return getattr(env.sspecial, name)
    if kind == "np":
        return be.getpath(env.snp, name)
    if kind == "jr":
        return getattr(env.srandom, name)
    if kind == "py":
        return env.py[name + ":wrapped"]
    raise common.Infra(fn_id)


# ---------------------------------------------------------------------------------------------
# sections


def passing_variants(raw, args):
    """[(tag, args, kwargs)] : positional, keyword (from the first block argument on), mixed"""
    out = [("pos", list(args), {})]
    try:
        params = list(inspect.signature(raw).parameters.values())
    except (TypeError, ValueError):
        return out
    if len(params) < len(args) or any(p.kind is not inspect.Parameter.POSITIONAL_OR_KEYWORD for p in params[: len(args)]):
        return out
    names = [p.name for p in params[: len(args)]]
    out.append(("kw", [], dict(zip(names, args))))
    if len(args) >= 2:
        out.append(("mixed", list(args[:1]), dict(zip(names[1:], args[1:]))))
    return out


def section_names(env, ctx, model):
    rng = ctx.rng
    t = env.tables
    reductions = set(t["reduction_functions"])
    todo = [("jnp:" + n, n, "math") for n in dict.fromkeys(t["mathematical_functions"])] + [("jsp:" + n, n, "special") for n in t["special_functions"]]
    nopattern = []
    multi_output = []
    structs_valid = ["a", "b", "c", "d", "e", "h"]
    extra_structs = ["f", "g"] if ctx.thorough else []
    dtypes = [None, np.float32] if ctx.thorough else [None]
    for fn_id, name, grp in todo:
        if name in SKIP_NAMES:
            ctx.count("names:skipped-structural")
            continue
        raw = env.resolve(fn_id)
        snp_fn = snp_of(env, fn_id)
        kind = "reduce" if (grp == "math" and name in reductions) else "map"
        fams = [SPECIAL[name]] if name in SPECIAL else [(f, {}) for f in FAMILIES]
        chosen = None
        for tmpl, kwt in fams:
            for st in structs_valid:
                args = instantiate(env, rng, tmpl, st)
                if per_block_ok(env, raw, args, kwt):
                    chosen = (tmpl, kwt, st)
                    break
            if chosen:
                break
        if chosen is None:
            nopattern.append(name)
            ctx.count("names:no-accepted-pattern")
            # still a case: the first family on the boundary structure (errors must agree)
            tmpl, kwt = fams[0]
            args = instantiate(env, rng, tmpl, "a")
            run_call(env, ctx, model, "names", kind, fn_id, raw, snp_fn, args, dict(kwt), "nopattern/a")
            continue
        tmpl, kwt, st = chosen
        ctx.count(f"names:family={'special' if name in SPECIAL else ''.join(str(x) for x in tmpl)}")
        try:
            a0 = [x.arrays[0] if isinstance(x, env.BlockArray) else x for x in instantiate(env, rng, tmpl, st)]
            if isinstance(raw(*a0, **kwt), (tuple, list)):
                multi_output.append(name)
                ctx.count("names:multi-output (results converted with jnp.array, finding map-blocks-tuple-results)")
        except Exception:  # noqa: BLE001
            pass
        fam_tag = "".join(str(x) for x in tmpl)
        for dtp in dtypes:
            for stx in [st] + (extra_structs if ctx.thorough else ([["f", "g"][int(rng.integers(0, 2))]] if (st in ("a", "b") and rng.random() < 0.5) else [])):
                args = instantiate(env, rng, tmpl, stx, dtp)
                for tag, a, k in passing_variants(raw, args):
                    k = dict(k, **kwt)
                    run_call(env, ctx, model, "names", kind, fn_id, raw, snp_fn, a, k, f"{fam_tag}/{tag}/{stx}/{'f32' if dtp else 'f64'}")
        # boundary structure with 0-d blocks (often rejected per block: the error kinds must agree)
        if st != "a":
            args = instantiate(env, rng, tmpl, "a")
            run_call(env, ctx, model, "names", kind, fn_id, raw, snp_fn, args, dict(kwt), f"{fam_tag}/pos/a-boundary")
        # different numbers of blocks
        nb = sum(1 for x in tmpl if isinstance(x, str) and len(x) == 1 and x.isalpha())
        if nb >= 2 and (ctx.thorough or rng.random() < 0.4):
            args = instantiate(env, rng, tmpl, st)
            idx = [i for i, x in enumerate(args) if isinstance(x, env.BlockArray)]
            if len(args[idx[1]]) >= 2:
                short = list(args)
                short[idx[1]] = env.BlockArray(args[idx[1]].arrays[:-1])
                run_call(env, ctx, model, "names", kind, fn_id, raw, snp_fn, short, dict(kwt), f"{fam_tag}/second-shorter")
                longer = list(args)
                longer[idx[0]] = env.BlockArray(args[idx[0]].arrays[:-1])
                run_call(env, ctx, model, "names", kind, fn_id, raw, snp_fn, longer, dict(kwt), f"{fam_tag}/second-longer")
    # the whole namespace: a name outside the lists is jax.numpy's own object (passed through untouched), a name in the
    # lists is not (it is wrapped) - the translator's name list is the running namespace
    names = translate_lists.read_namespace()
    wrapped_all = set(t["creation_routines"]) | set(t["mathematical_functions"])
    ctx.extra["namespace"] = {"jax_numpy_names": len(names), "wrapped": len(wrapped_all & set(names)), "passed_through": len([n for n in names if n not in wrapped_all])}
    for n in names:
        try:
            a, b = be.getpath(env.snp, n), be.getpath(env.jnp, n)
            status = "same-object" if a is b else "wrapped"
        except AttributeError:
            status = "missing"
        want = "wrapped" if n in wrapped_all else "same-object"
        ctx.case({"section": "namespace", "name": n}, None)
        ctx.count(f"namespace:{status}")
        if status != want:
            x0 = gen_block(env, rng, "b", "x")

            def ns_oracle(c, n=n, want=want, status=status, x0=x0):
                if want != "wrapped":
                    return None
                try:
                    r = be.getpath(env.snp, n)(x0)
                    okk = isinstance(r, env.BlockArray) or n in t["reduction_functions"]
                except Exception as e:  # noqa: BLE001
                    return {"call": f"snp.{n}(x)", "x": jsonable(x0), "outcome": {"err": common.err_kind(e)}, "documented": "listed in scico.numpy.mathematical_functions: mapped over the blocks"}
                return None if okk else {"call": f"snp.{n}(x)", "x": jsonable(x0), "outcome": be.describe(r), "documented": "mapped over the blocks"}

            ctx.disagree("block.namespace", {"section": "namespace", "name": n}, status, want, oracle=ns_oracle)
    ctx.extra["names_without_accepted_pattern"] = sorted(nopattern)
    ctx.extra["names_skipped"] = SKIP_NAMES
    ctx.extra["names_with_several_outputs"] = sorted(multi_output)
    ctx.exhaustive = True
    # testing functions (void wrapper)
    for name in t["testing_functions"]:
        fn_id = "np:" + name
        raw, snp_fn = env.resolve(fn_id), snp_of(env, fn_id)
        x = gen_block(env, rng, "b", "x")
        y = env.BlockArray([b + 0 for b in x.arrays])
        z = env.BlockArray([b + 1 for b in x.arrays])
        for tag, a, k in [("equal", [x, y], {}), ("differ", [x, z], {}), ("kw", [x], {"desired" if "allclose" in name else "y": y}),
                          ("shorter", [x, env.BlockArray(y.arrays[:1])], {}), ("array", [x.arrays[0], y.arrays[0]], {})]:
            run_call(env, ctx, model, "testing", "void", fn_id, raw, snp_fn, a, k, tag)


def section_reductions(env, ctx, model):
    rng = ctx.rng
    t = env.tables
    for name in t["reduction_functions"]:
        fn_id = "jnp:" + name
        raw, snp_fn = env.resolve(fn_id), snp_of(env, fn_id)
        p0 = list(inspect.signature(raw).parameters)[0]
        for st in (["a", "b", "c", "e", "f", "g"] if ctx.thorough else ["a", "g"]):
            for kd in ("x", "i"):
                x = gen_block(env, rng, st, kd)
                cases = [
                    ("noaxis/pos", [x], {}),
                    ("noaxis/kw", [], {p0: x}),
                    ("axis0/pos", [x, 0], {}),
                    ("axis0/kw", [x], {"axis": 0}),
                    ("axis-1/allkw", [], {"axis": -1, p0: x}),
                    ("axisNone/kw", [x], {"axis": None}),
                    ("keepdims", [x], {"keepdims": True}),
                    ("axis0+keepdims", [x], {"axis": 0, "keepdims": True}),
                ]
                if name == "linalg.norm":
                    cases += [("ord1", [x], {"ord": 1}), ("ordinf/pos", [x, np.inf], {}), ("ordNone+axis0/pos", [x, None, 0], {}),
                              ("ord+axis/pos+keepdims-kw", [x, None, 0], {"keepdims": True}), ("all-positional", [x, None, 0, False], {})]
                # binding errors: too many positionals, axis given twice, unknown keyword
                npar = len(inspect.signature(raw).parameters)
                cases += [("too-many-positional", [x] + [None] * npar, {}), ("axis-twice", [x, 0], {"axis": 0}), ("unknown-keyword", [x], {"axes": 0}),
                          ("block-by-keyword+axis-pos-missing", [], {p0: x, "keepdims": False})]
                if "where" in inspect.signature(raw).parameters:
                    mask = gen_block(env, rng, st, "b")
                    cases += [("two-blocks-noaxis", [x], {"where": mask}), ("two-blocks-axis", [x], {"where": mask, "axis": 0})]
                    if name == "sum":
                        cases += [("where-array", [x], {"where": True})]
                for tag, a, k in cases:
                    run_call(env, ctx, model, "reduction", "reduce", fn_id, raw, snp_fn, a, k, f"{name}/{tag}/{st}/{kd}")
        # a single block of rank 2 / 3 / 0 (and two control structures) x the rank-sensitive options of the reduction:
        # without `axis` the function must see the 1-d concatenation of the ravelled blocks, never the block itself
        rparams = inspect.signature(raw).parameters
        grid = [("plain", {})]
        if "keepdims" in rparams:
            grid += [("keepdims", {"keepdims": True}), ("keepdims-false", {"keepdims": False})]
        if "ord" in rparams:
            grid += [(f"ord={o}", {"ord": o}) for o in (1, 2, np.inf, -np.inf, 0, "fro", "nuc", None)]
            grid += [("ord1+keepdims", {"ord": 1, "keepdims": True})]
        if "dtype" in rparams:
            grid += [("dtype=f32", {"dtype": np.float32}), ("dtype+keepdims", {"dtype": np.float32, "keepdims": True})]
        if "initial" in rparams:
            grid += [("initial", {"initial": 1.5})]
        if "where" in rparams:
            grid += [("where-true", {"where": True}), ("where+keepdims", {"where": True, "keepdims": True})]
        if "promote_integers" in rparams:
            grid += [("no-promote", {"promote_integers": False})]
        for st in ("s2", "s3", "s0", "d", "h"):
            for kd in (("x", "i") if (ctx.thorough or st in ("s2", "s3")) else ("x",)):
                x = gen_block(env, rng, st, kd)
                for tag, kw in grid:
                    run_call(env, ctx, model, "reduction", "reduce", fn_id, raw, snp_fn, [x], dict(kw), f"{name}/single/{tag}/{st}/{kd}")
                    ctx.count("reduction:single-block-option-grid")
                if "ord" in rparams:
                    run_call(env, ctx, model, "reduction", "reduce", fn_id, raw, snp_fn, [x, 1], {}, f"{name}/single/ord1-pos/{st}/{kd}")
        # plain arrays pass through
        arr = gen_array(env, rng, (2, 3), "x")
        run_call(env, ctx, model, "reduction", "reduce", fn_id, raw, snp_fn, [arr], {}, f"{name}/array")
        run_call(env, ctx, model, "reduction", "reduce", fn_id, raw, snp_fn, [arr], {"axis": 1}, f"{name}/array-axis")
        # empty block array: nothing to concatenate
        run_call(env, ctx, model, "reduction", "reduce", fn_id, raw, snp_fn, [env.BlockArray([])], {}, f"{name}/empty")
    # numeric layer: concatenation versus fold of per-block values (C13_sum_concat ...)
    jnp = env.jnp
    n_num = ctx.n(40, 400)
    for it in range(n_num):
        nb = int(rng.integers(1, 5))
        blocks = []
        for _ in range(nb):
            sh = [(), (3,), (2, 2), (0,), (4,)][int(rng.integers(0, 5))]
            a = common.dyadic(rng, sh, bits=3, scale=2.0)
            if rng.random() < 0.3:
                a = np.where(rng.random(a.shape) < 0.5, 0.0, a)
            blocks.append(np.asarray(a, dtype=np.float64))
        x = env.BlockArray([jnp.array(b) for b in blocks])
        flat = jnp.concatenate([jnp.ravel(b) for b in x.arrays])
        wire = [common.fs2b(b) for b in blocks]
        for kind, ref in [
            ("sum", lambda: env.snp.sum(x)),
            ("sumsq", lambda: env.snp.linalg.norm(x) ** 2),
            ("count", lambda: env.snp.count_nonzero(x)),
            ("any", lambda: env.snp.any(x)),
            ("max", lambda: jnp.max(flat) if flat.size else None),
            ("min", lambda: jnp.min(flat) if flat.size else None),
            ("all", lambda: jnp.all(flat)),
            ("prod", lambda: jnp.prod(flat)),
        ]:
            got = model.call("reduce_num", kind=kind, blocks=wire)
            try:
                r = ref()
            except Exception as exc:  # noqa: BLE001
                ctx.disagree("block.reduce_num", {"section": "numeric", "kind": kind, "blocks": [b.tolist() for b in blocks]}, {"err": common.err_kind(exc)}, "value",
                             oracle=lambda c, kind=kind, exc=exc: {"reduction": kind, "blocks": c["blocks"], "raised": repr(exc)[:200]})
                continue
            ctx.case({"section": "numeric", "kind": kind, "blocks": [list(b.shape) for b in blocks]}, ("numeric", kind, it) if nb >= 2 else None)
            ctx.count("numeric:cases")

            def conv(v):
                if v is None:
                    return None
                if kind in ("count",):
                    return int(v)
                if kind in ("any", "all"):
                    return bool(v)
                return common.b2f(v)

            full, fold = conv(got["full"]), conv(got["fold"])
            try:
                rr = None if r is None else (int(r) if kind == "count" else bool(r) if kind in ("any", "all") else float(r))
            except Exception:  # noqa: BLE001  (the reduction did not return a scalar at all)
                ctx.disagree("block.reduce_num", {"section": "numeric", "kind": kind, "blocks": [b.tolist() for b in blocks]}, be.describe(r),
                             {"full": conv(got["full"]), "fold": conv(got["fold"])},
                             oracle=lambda c, r=r, kind=kind: {"reduction": kind, "blocks": c["blocks"], "scico_result": be.describe(r), "expected": "a scalar (reduction of the concatenation)"})
                continue
            good = (full is None and fold is None and rr is None) if (rr is None or full is None) else (
                (full == rr and fold == rr) if kind in ("count", "any", "all") else (common.close(full, rr, k=flat.size) and common.close(fold, rr, k=flat.size)))
            if not good:
                ctx.disagree("block.reduce_num", {"section": "numeric", "kind": kind, "blocks": [b.tolist() for b in blocks]}, rr, {"full": full, "fold": fold})


def section_creation(env, ctx, model):
    t = env.tables
    shapes = [((2, 3), (4,)), ((2,), ()), [(2, 3), 3], ((1,), (2, 2), (3,)), (2, 3), 3, (), [[2], [3]], ((2, 3),)]
    if ctx.thorough:
        shapes += [((2, 3), ((1,), (2,))), (0,), ((0,), (2,)), [4, (1, 1)]]
    for name in t["creation_routines"]:
        fn_id = "jnp:" + name
        raw, snp_fn = env.resolve(fn_id), snp_of(env, fn_id)
        for si, sh in enumerate(shapes):
            extra_pos = [1.5] if name == "full" else []
            extra_kw = {"fill_value": 1.5} if name == "full" else {}
            variants = [
                ("pos", [sh] + extra_pos, {}),
                ("kw", [], dict({"shape": sh}, **extra_kw)),
                ("pos+dtype", [sh] + extra_pos, {"dtype": np.float32}),
                ("kw+dtype-first", [], dict({"dtype": np.complex128, "shape": sh}, **extra_kw)),
            ]
            for tag, a, k in variants:
                run_call(env, ctx, model, "creation", "create", fn_id, raw, snp_fn, a, k, f"{name}/{tag}/s{si}")
    # scico.random: the same wrapper around jax.random (every block is drawn with the same key)
    key = env.jax.random.PRNGKey(3)
    for name in ["normal", "uniform"]:
        raw = getattr(env.jax.random, name)
        wrapped = env._wrappers.map_func_over_tuple_of_tuples(raw)
        env.py[f"jr_{name}"] = raw
        env.py[f"jr_{name}:wrapped"] = wrapped
        for si, sh in enumerate(shapes[:5]):
            for tag, a, k in [("pos", [key, sh], {}), ("kw", [key], {"shape": sh, "dtype": np.float64})]:
                run_call(env, ctx, model, "creation", "create", f"py:jr_{name}", raw, wrapped, a, k, f"random.{name}/{tag}/s{si}")
        # the public function: same blocks as the per-block jax draw with the same key
        sh = ((2, 3), (4,))
        x, _ = getattr(env.srandom, name)(sh, dtype=np.float64, key=key)
        want = [raw(key, s, np.float64) for s in sh]
        ctx.case({"section": "creation", "fn": f"scico.random.{name}"}, ("creation", "random", name))
        if not (isinstance(x, env.BlockArray) and all(same(w, x.arrays[i]) for i, w in enumerate(want))):
            ctx.disagree("block.creation.random", {"fn": name, "shape": sh}, be.describe(x), be.describe(want))
    # util.is_nested / shape_to_size against the model
    from scico.numpy import util

    for sh in shapes + [((2, 3), (4,), ()), [1, 2, 3], [(1, 2), (3,)]]:
        got = model.call("shape", shape=be.shape_tree(sh))
        ctx.case({"section": "shape", "shape": str(sh)}, None)
        nested = util.is_nested(sh)
        if got["nested"] != nested:
            ctx.disagree("block.is_nested", {"shape": str(sh)}, nested, got["nested"])
        flat_items = nested and all(isinstance(s, (tuple, list)) and not util.is_nested(s) for s in sh)
        if (not nested and isinstance(sh, (tuple, list))) or flat_items:
            sz = util.shape_to_size(sh)
            if sz != got["size"]:
                ctx.disagree("block.shape_to_size", {"shape": str(sh)}, sz, got["size"])


def _rop(f):
    return lambda a, b: f(b, a)


import operator as _op  # noqa: E402

_BASE = {
    "add": _op.add, "sub": _op.sub, "mul": _op.mul, "matmul": _op.matmul, "truediv": _op.truediv, "floordiv": _op.floordiv,
    "mod": _op.mod, "pow": _op.pow, "gt": _op.gt, "ge": _op.ge, "lt": _op.lt, "le": _op.le, "eq": _op.eq, "ne": _op.ne,
    "and": _op.and_, "or": _op.or_, "xor": _op.xor, "lshift": _op.lshift, "rshift": _op.rshift,
}
PYOPS = {f"__{k}__": v for k, v in _BASE.items()}
PYOPS.update({f"__r{k}__": _rop(v) for k, v in _BASE.items() if k not in ("gt", "ge", "lt", "le", "eq", "ne")})
PYUN = {"__neg__": _op.neg, "__pos__": _op.pos, "__abs__": abs, "__invert__": _op.invert}
REFLECTABLE = ["add", "sub", "mul", "matmul", "truediv", "floordiv", "mod", "pow"]


def section_operators(env, ctx, model):
    rng = ctx.rng
    t = env.tables
    BA = env.BlockArray
    jnp = env.jnp
    oracle = make_oracle(env)
    # unary
    for name in t["unary_ops"]:
        for kd in ("x", "i", "c", "b"):
            for st in (["a", "f", "g"] if not ctx.thorough else ["a", "b", "c", "e", "f", "g"]):
                x = gen_block(env, rng, st, kd)
                atoms = {f"s#{i}": x.arrays[i] for i in range(len(x))}
                ev = Evaluator(atoms, env.resolve)
                m = run2(model, "unop", dict(name="op:" + name, blocks=[A(f"s#{i}") for i in range(len(x))]), ev)
                impl = impl_call(PYUN[name], [x], {})
                ctx.case({"section": "unary", "op": name, "kind": kd, "struct": st}, ("unary", name, kd, st) if len(x) >= 2 else None)
                ctx.count("operators:unary")
                if not compare(env, m, impl, ev):
                    def un_oracle(c, impl=impl, x=x, name=name):
                        try:
                            want = [PYUN[name](b) for b in x.arrays]
                        except Exception:  # noqa: BLE001
                            return None if impl[0] == "err" else {"expr": name, "x": c["self"], "scico_result": show_impl(impl), "expected": "error (per-block jax raises)"}
                        if impl[0] == "ok" and isinstance(impl[1], BA) and len(impl[1]) == len(want) and all(same(w, impl[1].arrays[i]) for i, w in enumerate(want)):
                            return None
                        return {"expr": name, "x": c["self"], "scico_result": show_impl(impl), "per_block_jax": be.describe(want)}

                    ctx.disagree("block.unop", {"section": "unary", "fn": name, "self": jsonable(x)}, show_impl(impl), show(env, m, ev), oracle=un_oracle)
    # binary
    lifted = list(t["binary_ops"])
    missing_reflected = [f"__r{k}__" for k in REFLECTABLE if f"__{k}__" in lifted and f"__r{k}__" not in lifted]
    ctx.extra["reflected_operators_not_lifted"] = missing_reflected
    for name in lifted + missing_reflected:
        is_mm = "matmul" in name
        reflected = name.startswith("__r") and name not in ("__rshift__",)
        kinds = ("x", "i") if not is_mm else ("x",)
        for kd in kinds:
            st = "b" if is_mm else ["a", "f", "g"][int(rng.integers(0, 3))]
            x = gen_block(env, rng, st, kd)
            if kd == "i" and "pow" in name:
                x = BA([jnp.abs(b) % 3 + 1 for b in x.arrays])
            n = len(x)
            if is_mm:
                yblocks = [gen_array(env, rng, (3,), "y"), gen_array(env, rng, (3,) if not reflected else (4, 2), "y")]
                if reflected:
                    yblocks = [gen_array(env, rng, (3,), "y"), gen_array(env, rng, (4, 2), "y")]
                arr = gen_array(env, rng, (3,), "y") if not reflected else gen_array(env, rng, (3,), "y")
            else:
                yblocks = [gen_array(env, rng, s, "p" if ("pow" in name or "div" in name or "mod" in name) else "y") for s in STRUCTS[st]]
                arr = gen_array(env, rng, (3,), "p")
            others = [
                ("block", BA(yblocks)),
                ("block-shorter", BA(yblocks[:-1])),
                ("block-longer", BA(yblocks + [yblocks[0]])),
                ("jax-array", arr),
                ("numpy-array", np.asarray(arr)),
                ("jax-0d", jnp.array(1.5)),
                ("numpy-0d", np.float64(2.5)),
                ("int", 2),
                ("float", 0.5),
                ("complex", 1 + 2j),
                ("str", "hi"),
                ("none", None),
            ]
            if is_mm:
                others = [o for o in others if o[0] in ("block", "block-shorter", "block-longer", "jax-array", "numpy-array", "str", "int")]
            for okind, o in others:
                if name in missing_reflected and isinstance(o, BA):
                    continue  # `o % x` with a block `o` is o.__mod__(x): the reflected method is never consulted
                if name == "__rmod__" and isinstance(o, str):
                    continue  # `"hi" % x` is string formatting (str.__mod__ succeeds): __rmod__ is never consulted
                atoms = {f"s#{i}": x.arrays[i] for i in range(n)}
                if isinstance(o, BA):
                    oj = {"b": [A(f"o#{i}") for i in range(len(o))]}
                    atoms.update({f"o#{i}": o.arrays[i] for i in range(len(o))})
                    # dunder called directly: python syntax would try the left operand's method first
                    impl = impl_call(lambda: getattr(x, name)(o), [], {}) if name in lifted else ("err", "other")
                    if impl[0] == "ok" and impl[1] is NotImplemented:
                        impl = ("err", "type")
                else:
                    oj = {"o": A("o")}
                    atoms["o"] = o
                    impl = impl_call(lambda: PYOPS[name](x, o), [], {})
                ev = Evaluator(atoms, env.resolve)
                m = run2(model, "binop", dict(name="op:" + name, blocks=[A(f"s#{i}") for i in range(n)], other=oj), ev)
                ctx.case({"section": "binary", "op": name, "other": okind, "kind": kd, "struct": st}, ("binary", name, okind, kd))
                ctx.count(f"operators:other={okind}")
                ctx.count(f"operators:model={'err:' + m[1] if m[0] == 'err' else ('ni' if 'ni' in m[1] else 'ok')}")
                if not compare(env, m, impl, ev, op=None if isinstance(o, BA) else name):
                    case = {"section": "binary", "kind": "binop", "fn": name, "other_kind": okind, "self": jsonable(x), "other": jsonable(o)}
                    kid = KNOWN_RMOD if (name in missing_reflected and name == "__rmod__") else None
                    ctx.disagree("block.binop", case, show_impl(impl), show(env, m, ev), oracle=oracle, known_id=kid)


def section_nonlifted(env, ctx, model):
    """operators a block array does not have (pinned list of `BlockLists.pinnedNonLifted`): TypeError for every operand,
    on either side; in-place operators fall back to the binary operator and rebind to a NEW block array (an alias of
    the old one is unchanged: history / aliasing stream)"""
    rng = ctx.rng
    jnp, BA = env.jnp, env.BlockArray
    pinned = ["__invert__", "__divmod__", "__rdivmod__", "__lshift__", "__rlshift__", "__rshift__", "__rrshift__",
              "__and__", "__rand__", "__xor__", "__rxor__", "__or__", "__ror__"]
    lifted = set(env.tables["unary_ops"]) | set(env.tables["binary_ops"])
    ops2 = dict(PYOPS, __divmod__=divmod, __rdivmod__=lambda a, b: divmod(b, a))
    reflected_names = {"__rdivmod__", "__rlshift__", "__rrshift__", "__rand__", "__rxor__", "__ror__"}
    for kd in ("i", "b"):
        x = gen_block(env, rng, "b", kd)
        others = [("block", gen_block(env, rng, "b", kd)), ("jax-array", gen_array(env, rng, (3,), kd)), ("numpy-array", np.asarray(gen_array(env, rng, (3,), kd))),
                  ("int", 2), ("bool", True), ("numpy-int", np.int64(2))]
        for name in pinned:
            if name == "__invert__":
                impl = impl_call(lambda: ~x, [], {})
                cases = [("-", impl)]
            else:
                cases = [(ok, impl_call(lambda o=o: ops2[name](x, o), [], {})) for ok, o in others if not (name in reflected_names and ok == "block")]
            for ok, impl in cases:
                ctx.case({"section": "nonlifted", "op": name, "other": ok, "kind": kd}, ("nonlifted", name, ok, kd))
                want_lifted = name in lifted
                if ok.startswith("numpy") and not want_lifted and name != "__invert__" and name not in reflected_names:
                    # numpy's own (reflected) operator takes over and treats the block array as a sequence of arrays: the outcome
                    # is numpy's for the list of the blocks (ValueError for blocks of different shapes), never a block-wise result
                    o = dict(others)[ok]
                    ref = impl_call(lambda: ops2[name](list(x.arrays), o), [], {})
                    ctx.count(f"nonlifted:numpy-takes-over:{impl[1] if impl[0] == 'err' else 'value'}")
                    if impl[0] != ref[0] or (impl[0] == "err" and impl[1] != ref[1]) or (impl[0] == "ok" and isinstance(impl[1], BA)):
                        ctx.disagree("block.nonlifted", {"section": "nonlifted", "op": name, "other": ok, "kind": kd}, show_impl(impl), show_impl(ref))
                    continue
                ctx.count(f"nonlifted:{'TypeError' if impl == ('err', 'type') else 'other'}")
                if (impl != ("err", "type")) != want_lifted or (name in BA.__dict__) != want_lifted:
                    ctx.disagree("block.nonlifted", {"section": "nonlifted", "op": name, "other": ok, "kind": kd}, show_impl(impl), "TypeError (operator not defined on BlockArray)" if not want_lifted else "lifted")
    # in-place operators: value of the binary operator, a new object, aliases untouched
    import operator as _o

    for iname, f, g in [("+=", _o.iadd, _o.add), ("-=", _o.isub, _o.sub), ("*=", _o.imul, _o.mul), ("/=", _o.itruediv, _o.truediv), ("**=", _o.ipow, _o.pow),
                        ("//=", _o.ifloordiv, _o.floordiv), ("%=", _o.imod, _o.mod), ("@=", _o.imatmul, _o.matmul)]:
        for ok, mk in [("scalar", lambda: 2.0), ("block", lambda: gen_block(env, rng, "c", "p")), ("array", lambda: gen_array(env, rng, (1,), "p"))]:
            x = gen_block(env, rng, "c", "p")
            if iname == "@=":
                x = BA([gen_array(env, rng, (3,), "p"), gen_array(env, rng, (3,), "p")])
                o = BA([gen_array(env, rng, (3,), "p"), gen_array(env, rng, (3,), "p")]) if ok == "block" else (gen_array(env, rng, (3,), "p") if ok == "array" else None)
                if o is None:
                    continue
            else:
                o = mk()
            alias = x
            before = [np.asarray(b).copy() for b in x.arrays]
            want = impl_call(lambda: g(x, o), [], {})
            got = impl_call(lambda: f(x, o), [], {})
            ctx.case({"section": "inplace", "op": iname, "other": ok}, ("inplace", iname, ok))
            ctx.count("inplace:cases")
            good = want[0] == got[0] and (want[0] == "err" or (same(want[1], got[1]) and got[1] is not alias))
            untouched = all(np.array_equal(np.asarray(b), c) for b, c in zip(alias.arrays, before)) and len(alias.arrays) == len(before)
            if not (good and untouched):
                fail = {"statement": f"y = x; x {iname} o", "other": ok, "x_after": show_impl(got), "x_op_o": show_impl(want),
                        "alias_y_unchanged": bool(untouched), "new_object": bool(got[0] == "ok" and got[1] is not alias)}
                ctx.disagree("block.inplace", {"section": "inplace", "op": iname, "other": ok}, fail["x_after"], fail["x_op_o"], oracle=lambda c, fail=fail: fail)


METHOD_ARGS = {
    "astype": [np.float32], "reshape": [-1], "clip": [-0.5, 0.5], "repeat": [2], "take": [0], "searchsorted": [0.0],
    "compress": [np.array([True])], "choose": None, "dot": [2.0], "swapaxes": None, "view": [np.int64], "to_device": None,
}
METHOD_SKIP = {"delete", "unsafe_buffer_pointer", "addressable_data", "to_device", "copy_to_host_async", "choose", "swapaxes", "item",
               "on_device_size_in_bytes", "block_until_ready", "clone"}


def section_methods(env, ctx, model):
    rng = ctx.rng
    B = env._blockarray
    # the lists the translator derived by the code's rule (and Lean re-derived: `attrs_ok`) are the running lists
    attrs = translate_lists.read_attr_tables()
    ctx.case({"section": "lifted-attributes"}, ("lifted-attributes",))
    ctx.extra["lifted_attributes"] = {"properties": len(attrs["props"]), "methods": len(attrs["methods"])}
    if attrs["props"] != list(B.da_props) or attrs["methods"] != list(B.da_methods):
        x0 = env.BlockArray([env.jnp.ones((2, 3)), env.jnp.ones(3)])
        diff = sorted(set(attrs["props"]) ^ set(B.da_props)) + sorted(set(attrs["methods"]) ^ set(B.da_methods))

        def attr_oracle(c, diff=diff, x0=x0):
            for nm in diff:
                try:
                    getattr(x0, nm)
                except AttributeError:
                    return {"attribute": nm, "on": "BlockArray", "outcome": "AttributeError", "expected": "lifted from the jax array type (per-block values)"}
            return None

        ctx.disagree("block.lifted-attributes", {"section": "lifted-attributes", "differ": diff}, {"props": list(B.da_props), "methods": list(B.da_methods)},
                     {"props": attrs["props"], "methods": attrs["methods"]}, oracle=attr_oracle)
    for st in (["b", "g"] if not ctx.thorough else ["a", "b", "c", "d", "e", "f", "g"]):
        for kd in ("x", "c") if ctx.thorough else ("x",):
            x = gen_block(env, rng, st, kd)
            n = len(x)
            for kind, names in (("meth", B.da_methods), ("prop", B.da_props)):
                for name in names:
                    if name in METHOD_SKIP:
                        ctx.count("methods:skipped")
                        continue
                    extra = METHOD_ARGS.get(name, []) if kind == "meth" else []
                    atoms = {f"s#{i}": x.arrays[i] for i in range(n)}
                    eterms = []
                    for j, e in enumerate(extra or []):
                        atoms[f"e{j}"] = e
                        eterms.append(A(f"e{j}"))
                    ev = Evaluator(atoms, env.resolve)
                    m = run2(model, "method", dict(name=f"{kind}:{name}", blocks=[A(f"s#{i}") for i in range(n)], args=eterms), ev)
                    if kind == "meth":
                        impl = impl_call(lambda: getattr(x, name)(*(extra or [])), [], {})
                    else:
                        impl = impl_call(lambda: getattr(x, name), [], {})
                    ctx.case({"section": "method", "name": name, "struct": st}, ("method", name, st, kd))
                    ctx.count(f"methods:{kind}")
                    if not compare(env, m, impl, ev):
                        def meth_oracle(c, impl=impl, x=x, name=name, kind=kind, extra=extra):
                            # documented: properties and methods map along the blocks, giving a BlockArray or a tuple as appropriate
                            try:
                                want = [getattr(b, name)(*(extra or [])) if kind == "meth" else getattr(b, name) for b in x.arrays]
                            except Exception:  # noqa: BLE001
                                return None
                            if impl[0] != "ok":
                                return {"attribute": name, "x": c["self"], "scico_result": show_impl(impl), "per_block_jax": be.describe(want)}
                            r = impl[1]
                            arrs = all(be.is_arr(w) for w in want)
                            okk = (isinstance(r, BA) if arrs else isinstance(r, tuple)) and len(r) == len(want) and all(same(w, (r.arrays if arrs else r)[i]) for i, w in enumerate(want))
                            return None if okk else {"attribute": name, "x": c["self"], "scico_result": show_impl(impl),
                                                     "expected": ("BlockArray" if arrs else "tuple") + " of the per-block values", "per_block_jax": be.describe(want)}

                        ctx.disagree("block.method", {"section": "method", "fn": f"{kind}:{name}", "self": jsonable(x), "args": jsonable(extra or [])},
                                     show_impl(impl), show(env, m, ev), oracle=meth_oracle)
    # x[k] for integer k (list indexing), len
    for n in range(0, 4):
        x = env.BlockArray([env.jnp.full((i + 1,), float(i)) for i in range(n)])
        for k in range(-n - 2, n + 2):
            try:
                mi = ("ok", model.call("getitem", n=n, k=k))
            except ModelErr as e:
                mi = ("err", e.kind)
            impl = impl_call(lambda: x[k], [], {})
            ctx.case({"section": "getitem", "n": n, "k": k}, None)
            good = (mi[0] == "err" and impl == ("err", mi[1])) or (mi[0] == "ok" and impl[0] == "ok" and same(impl[1], x.arrays[mi[1]]))
            if not good:
                ctx.disagree("block.getitem", {"n": n, "k": k}, show_impl(impl), mi)


def section_sequence(env, ctx, model):
    """a block array as a sequence: iteration (legacy protocol), `len`, `bool`, `reversed`, `tuple`, `zip`, unpacking; and
    lifted methods called WITH block-array arguments (every block's method receives the whole argument: `liftMethod`)"""
    rng = ctx.rng
    jnp, BA = env.jnp, env.BlockArray
    for n in range(0, 5):
        x = BA([jnp.full((i + 1,), float(i)) for i in range(n)])
        calls = {"n": 0}
        orig = BA.__getitem__

        checks = {
            "iter": lambda: list(iter(x)), "tuple": lambda: list(tuple(x)), "for": lambda: [b for b in x], "reversed": lambda: list(reversed(list(reversed(x)))),
            "zip": lambda: [a for a, _ in zip(x, x)], "unpack": lambda: (lambda *bs: list(bs))(*x), "len": lambda: len(x), "bool": lambda: bool(x),
        }
        for nm, f in checks.items():
            r = impl_call(f, [], {})
            want = n if nm == "len" else ((n > 0) if nm == "bool" else None)
            good = r[0] == "ok" and ((r[1] == want) if want is not None else (len(r[1]) == n and all(a is b for a, b in zip(r[1], x.arrays))))
            ctx.case({"section": "sequence", "op": nm, "n": n}, ("sequence", nm, n) if n >= 2 else None)
            ctx.count(f"sequence:{nm}")
            if not good:
                fail = {"expression": {"iter": "list(iter(x))", "tuple": "tuple(x)", "for": "[b for b in x]", "reversed": "reversed(reversed(x))", "zip": "zip(x, x)", "unpack": "f(*x)", "len": "len(x)", "bool": "bool(x)"}[nm],
                        "n_blocks": n, "scico_result": show_impl(r) if r[0] == "err" else (r[1] if want is not None else be.describe(r[1])), "expected": want if want is not None else "the blocks, in order"}
                ctx.disagree("block.sequence", {"section": "sequence", "op": nm, "n": n}, fail["scico_result"], fail["expected"], oracle=lambda c, fail=fail: fail)
        # the model's iteration: n + 1 reads
        if orig is not None:
            mi = model.call("iter", n=n)
            if mi != list(range(n)):
                ctx.disagree("block.iter-model", {"n": n}, list(range(n)), mi)
    # methods with block-array arguments: per block, with the same (whole) argument
    x = gen_block(env, rng, "c", "x")
    y = gen_block(env, rng, "c", "y")
    for name, args in [("dot", [y]), ("clip", [y, None]), ("__add__", [y]), ("reshape", [y]), ("take", [y]), ("astype", [y]), ("searchsorted", [y])]:
        if name not in env._blockarray.da_methods and not name.startswith("__"):
            continue
        impl = impl_call(lambda: getattr(x, name)(*args), [], {})
        per = [impl_call(lambda b=b: getattr(b, name)(*args), [], {}) for b in x.arrays]
        ctx.case({"section": "method-block-arg", "name": name}, ("method-block-arg", name))
        ctx.count(f"method-block-arg:{name}:{impl[0] if impl[0] == 'ok' else impl[1]}")
        if name == "__add__":
            continue  # lifted operator: block-wise (covered by the operator section); listed for the histogram only
        first_err = next((p for p in per if p[0] == "err"), None)
        good = (impl == first_err) if first_err is not None else (impl[0] == "ok" and isinstance(impl[1], (BA, tuple)) and all(same(p[1], (impl[1].arrays if isinstance(impl[1], BA) else impl[1])[i]) for i, p in enumerate(per)))
        if not good:
            ctx.disagree("block.method-block-arg", {"section": "method-block-arg", "name": name}, show_impl(impl), [show_impl(p) for p in per])


def section_slices(env, ctx, model):
    """`x[start:stop:step]` against the model (`getSlice`): exhaustive over n <= 4, start/stop in {None, -6..6}, step in
    {None, -3..3} in the thorough tier, a random sample of it in the quick tier"""
    rng = ctx.rng
    vals = [None] + list(range(-6, 7))
    steps = [None] + list(range(-3, 4))
    combos = [(n, a, b, st) for n in range(0, 5) for a in vals for b in vals for st in steps]
    if not ctx.thorough:
        combos = [combos[int(i)] for i in rng.permutation(len(combos))[:500]] + [(3, None, 2, None), (3, 1, None, None), (4, None, None, -1), (2, None, None, 0)]
    xs = {n: env.BlockArray([env.jnp.full((i + 1,), float(i)) for i in range(n)]) for n in range(0, 5)}
    for n, a, b, st in combos:
        req = {"n": n}
        for k, v in (("start", a), ("stop", b), ("step", st)):
            if v is not None:
                req[k] = v
        try:
            mi = ("ok", model.call("getslice", **req))
        except ModelErr as e:
            mi = ("err", e.kind)
        x = xs[n]
        impl = impl_call(lambda: x[slice(a, b, st)], [], {})
        ctx.case({"section": "slice", "n": n, "slice": f"{a}:{b}:{st}"}, ("slice", n, a, b, st) if n >= 2 else None)
        ctx.count(f"slice:model={'err:' + mi[1] if mi[0] == 'err' else 'ok/len=' + str(len(mi[1]))}")
        if mi[0] == "err":
            good = impl == ("err", mi[1])
        else:
            good = impl[0] == "ok" and isinstance(impl[1], env.BlockArray) and len(impl[1].arrays) == len(mi[1]) and all(r is x.arrays[i] for r, i in zip(impl[1].arrays, mi[1]))
        if not good:
            def slice_oracle(c, impl=impl, n=n, a=a, b=b, st=st, x=x):
                # a block array behaves as the tuple of its blocks: python's own slicing of the block list
                try:
                    want = list(x.arrays)[slice(a, b, st)]
                except Exception:  # noqa: BLE001
                    return None if impl[0] == "err" else {"expr": f"x[{a}:{b}:{st}]", "n_blocks": n, "scico_result": show_impl(impl), "expected": "error (as for a list)"}
                if impl[0] == "ok" and isinstance(impl[1], env.BlockArray) and len(impl[1].arrays) == len(want) and all(r is w for r, w in zip(impl[1].arrays, want)):
                    return None
                return {"expr": f"x[{a}:{b}:{st}]", "n_blocks": n, "scico_result": show_impl(impl), "expected_blocks": [int(w[0]) for w in want]}

            ctx.disagree("block.getslice", {"section": "slice", "n": n, "start": a, "stop": b, "step": st}, show_impl(impl), mi, oracle=slice_oracle)


def section_setslice(env, ctx, model):
    """`x[start:stop:step] = values` against the model (`setSlice`): n <= 3 blocks, start/stop in {None, -4..4}, step in
    {None, 1, 2, -1, -2, 0}, 0..3 values (arrays of the same / another dtype, a block array as right-hand side); plus the
    invariant on the real object"""
    rng = ctx.rng
    jnp, BA = env.jnp, env.BlockArray
    vals = [None] + list(range(-4, 5))
    combos = [(n, a, b, st, m) for n in range(0, 4) for a in vals for b in vals for st in (None, 1, 2, -1, -2, 0) for m in range(0, 4)]
    pick = combos if ctx.thorough else [combos[int(i)] for i in rng.permutation(len(combos))[:300]] + [(2, 0, 1, None, 3), (3, None, None, 2, 2), (3, None, None, -1, 3), (1, 0, 1, None, 1)]
    for n, a, b, st, m in pick:
        x = BA([jnp.full((i + 1,), float(i)) for i in range(n)])
        r = rng.random()
        other = r < 0.15 and m > 0
        rhs = [jnp.full((2,), 10.0 + j).astype(jnp.float32 if (other and j == m - 1) else jnp.float64) for j in range(m)]
        as_block = r > 0.7 and m > 0 and not other
        atoms = {f"s#{i}": x.arrays[i] for i in range(n)}
        atoms.update({f"v#{j}": rhs[j] for j in range(m)})
        ev = Evaluator(atoms, env.resolve)
        req = dict(blocks=[A(f"s#{i}") for i in range(n)], values=[A(f"v#{j}") for j in range(m)])
        for kname, v in (("start", a), ("stop", b), ("step", st)):
            if v is not None:
                req[kname] = v
        mres = run2(model, "setslice", req, ev)

        def do():
            x[slice(a, b, st)] = BA(rhs) if as_block else list(rhs)
            return x

        before = list(x.arrays)
        impl = impl_call(do, [], {})
        ctx.case({"section": "setslice", "n": n, "slice": f"{a}:{b}:{st}", "values": m}, ("setslice", n, a, b, st, m))
        if impl[0] == "err" and not (len(x.arrays) == len(before) and all(p is q for p, q in zip(x.arrays, before))):
            failh = {"statement": f"x[{a}:{b}:{st}] = {m} arrays  (rejected: {impl[1]})", "n_blocks": n,
                     "x_afterwards": [str(bk.shape) + ":" + str(bk.dtype) for bk in x.arrays], "expected": "x unchanged"}
            ctx.disagree("block.setslice-rejected-state", {"section": "setslice", "n": n, "start": a, "stop": b, "step": st, "values": m}, failh["x_afterwards"], "unchanged", oracle=lambda c, failh=failh: failh)
        ctx.count(f"setslice:model={'err:' + mres[1] if mres[0] == 'err' else 'ok/blocks=' + str(len(mres[1]['blk']))}")
        agree = (mres[0] == "err" and impl == ("err", mres[1])) or (mres[0] == "ok" and impl[0] == "ok" and len(impl[1].arrays) == len(mres[1]["blk"])
                                                                   and all(same_or_identical(ev.val(tm), impl[1].arrays[i]) for i, tm in enumerate(mres[1]["blk"])))
        broken = None
        if impl[0] == "ok":
            blocks = impl[1].arrays
            if not all(isinstance(bk, jnp.ndarray) for bk in blocks):
                broken = "a block is not an array"
            elif len({str(bk.dtype) for bk in blocks}) > 1:
                broken = "heterogeneous dtypes"
            else:
                # a block array behaves as the list of its blocks
                want = [jnp.full((i + 1,), float(i)) for i in range(n)]
                try:
                    want[slice(a, b, st)] = list(rhs)
                    if len(want) != len(blocks) or any(not same(w, g) for w, g in zip(want, blocks)):
                        broken = "differs from the same assignment on the list of the blocks"
                except Exception:  # noqa: BLE001
                    broken = "accepted although the same assignment on a list raises"
        if broken or not agree:
            fail = {"statement": f"x[{a}:{b}:{st}] = {m} arrays", "n_blocks": n, "violates": broken,
                    "result": [str(bk.shape) + ":" + str(bk.dtype) for bk in impl[1].arrays] if impl[0] == "ok" else {"err": impl[1]}}
            ctx.disagree("block.setslice", {"section": "setslice", "n": n, "start": a, "stop": b, "step": st, "values": m, "rhs_block": as_block, "other_dtype": other},
                         fail["result"], show(env, mres, ev) if mres[0] == "ok" else {"err": mres[1]}, oracle=(lambda c, fail=fail: fail) if broken else None)


def section_wrappers(env, ctx, model):
    """the wrappers applied to an arbitrary python function with random positional / keyword mixes"""
    rng = ctx.rng
    jnp = env.jnp
    BA = env.BlockArray

    def rec(*args, **kwargs):
        # an arbitrary function: position-weighted sum of 0-d arguments (records who got what)
        tot = jnp.zeros((), dtype=jnp.float64)
        for i, a in enumerate(args):
            tot = tot + (i + 1) * jnp.sum(jnp.asarray(a, dtype=jnp.float64))
        for j, (k, v) in enumerate(sorted(kwargs.items())):
            tot = tot + 100.0 * (j + 1) * jnp.sum(jnp.asarray(v, dtype=jnp.float64))
        return tot

    env.py["rec"] = rec
    env.py["rec:wrapped"] = env._wrappers.map_func_over_blocks(rec)
    n_cases = ctx.n(150, 1500)
    for it in range(n_cases):
        n0 = int(rng.integers(1, 6))
        npos, nkw = int(rng.integers(0, 4)), int(rng.integers(0, 4))

        def pickv():
            r = rng.random()
            if r < 0.45:
                ln = n0 if rng.random() < 0.8 else int(rng.integers(0, 5))
                return BA([jnp.array(float(rng.integers(-8, 9))) for _ in range(ln)]) if ln > 0 or rng.random() < 0.5 else BA([])
            if r < 0.8:
                return jnp.array(float(rng.integers(-8, 9)))
            return float(rng.integers(-8, 9))

        args = [pickv() for _ in range(npos)]
        kwargs = {f"k{j}": pickv() for j in rng.permutation(nkw)}
        lens = [len(a) for a in args + list(kwargs.values()) if isinstance(a, BA)]
        tag = f"{npos}p{nkw}k/lens={lens}"
        run_call(env, ctx, model, "wrapper", "map", "py:rec", rec, env.py["rec:wrapped"], args, kwargs, tag)
        ctx.count(f"wrapper:distinct-lens={len(set(lens))}")
        # the void wrapper makes the same calls in the same order (C13_map_void): record them
        if it % 3 == 0:
            atoms_v, jargs_v, jkw_v = args_atoms(args, kwargs)
            ev_v = Evaluator(atoms_v, env.resolve)
            mv = run2(model, "map", dict(fn="py:rec", args=jargs_v, kwargs=jkw_v), ev_v)
            seen = []

            def recv(*a, **k):
                seen.append(float(rec(*a, **k)))

            implv = impl_call(env._wrappers.map_void_func_over_blocks(recv), args, kwargs)
            ctx.case({"section": "wrapper-void", "tag": tag}, ("wrapper-void", tag, it))
            ctx.count("wrapper:void-order")
            if mv[0] == "err":
                goodv = implv[0] == "err" and implv[1] == mv[1]
                want_seq = None
            else:
                terms = mv[1]["blk"] if "blk" in mv[1] else [mv[1]["one"]]
                want_seq = [float(ev_v.val(t)) for t in terms]
                goodv = implv[0] == "ok" and implv[1] is None and seen == want_seq
            if not goodv:
                ctx.disagree("block.mapvoid-order", {"section": "wrapper-void", "args": [jsonable(a) for a in args], "kwargs": {k: jsonable(v) for k, v in kwargs.items()}},
                             {"calls": seen, "outcome": implv[0] if implv[0] == "ok" else implv[1]}, {"calls": want_seq} if want_seq is not None else {"err": mv[1]},
                             oracle=lambda c, seen=list(seen), want_seq=want_seq: ({"wrapper": "map_void_func_over_blocks", "per_block_calls_made": seen, "documented": "one call per block, block 0 first", "expected_calls": want_seq}
                                                                                  if (want_seq is not None and seen != want_seq) else None))
        # the block count is the first block argument's (positional before keyword)
        atoms, jargs, jkw = args_atoms(args, kwargs)
        nbm = model.call("numblocks", args=jargs, kwargs=jkw)
        nbi = env._wrappers._num_blocks_in_args(*args, **kwargs)
        if nbm != nbi:
            ctx.disagree("block.numblocks", {"section": "wrapper", "args": [jsonable(a) for a in args], "kwargs": {k: jsonable(v) for k, v in kwargs.items()}}, nbi, nbm)


def section_wrappers_exhaustive(env, ctx, model):
    """exhaustive small scope of `map_func_over_blocks`: every way of passing <= 2 positional and <= 2 keyword arguments, each
    one of {block array of 0 / 1 / 2 / 3 blocks, array, python scalar} (1 849 calls in the thorough tier,
    250 sampled in quick): search order, `num_blocks == 0`, length check, projection of every argument"""
    rng = ctx.rng
    jnp, BA = env.jnp, env.BlockArray
    if "rec" not in env.py:
        return
    kinds = ["B0", "B1", "B2", "B3", "arr", "num"]
    combos = []
    for npos in range(0, 3):
        for nkw in range(0, 3):
            for vals in itertools.product(kinds, repeat=npos + nkw):
                combos.append((npos, nkw, vals))
    if not ctx.thorough:
        combos = [combos[int(i)] for i in rng.permutation(len(combos))[:250]]
    counter = [0]

    def mk(kind):
        counter[0] += 1
        c = float(counter[0] % 7 + 1)
        if kind.startswith("B"):
            return BA([jnp.array(c + j) for j in range(int(kind[1]))])
        return jnp.array(c) if kind == "arr" else c

    for npos, nkw, vals in combos:
        args = [mk(k) for k in vals[:npos]]
        kwargs = {f"k{j}": mk(k) for j, k in enumerate(vals[npos:])}
        run_call(env, ctx, model, "wrapper-exhaustive", "map", "py:rec", env.py["rec"], env.py["rec:wrapped"], args, kwargs, f"{npos}p{nkw}k/{'-'.join(vals)}")


def section_pytree(env, ctx, model):
    rng = ctx.rng
    jax, jnp, snp, BA = env.jax, env.jnp, env.snp, env.BlockArray
    # constructor: conversion and dtype homogeneity
    cands = [
        ("f64,f64", [jnp.ones(2), jnp.zeros((2, 2))]),
        ("f64,f32", [jnp.ones(2), jnp.zeros(3, dtype=jnp.float32)]),
        ("f64,int", [jnp.ones(2), jnp.arange(3)]),
        ("list,list", [[1.0, 2.0], [[3.0]]]),
        ("list-int,array-f64", [[1, 2], jnp.ones(2)]),
        ("numpy,jax", [np.ones(2), jnp.ones(3)]),
        ("c128,f64", [jnp.ones(2) * 1j, jnp.ones(2)]),
        ("empty", []),
        ("ragged", [[[1.0, 2.0], [3.0]], jnp.ones(2)]),
        ("bool,bool", [jnp.array([True]), jnp.array(False)]),
    ]
    for tag, inputs in cands:
        atoms = {f"i{j}": v for j, v in enumerate(inputs)}
        for op, f in (("mk", lambda: BA(inputs)), ("unflatten", lambda: jax.tree_util.tree_unflatten(jax.tree_util.tree_structure(BA([jnp.zeros(1)] * len(inputs))), inputs) if inputs else BA([]))):
            ev = Evaluator(atoms, env.resolve)
            m = run2(model, op, dict(inputs=[A(f"i{j}") for j in range(len(inputs))]), ev)
            impl = impl_call(f, [], {})
            ctx.case({"section": "constructor", "op": op, "inputs": tag}, ("constructor", op, tag))
            if not compare(env, m, impl, ev):
                def dtype_oracle(c, impl=impl, inputs=inputs, op=op):
                    # the property itself: a block array carries one homogeneous dtype
                    if impl[0] == "ok" and isinstance(impl[1], BA) and len({str(b.dtype) for b in impl[1].arrays}) > 1:
                        return {"constructed_by": "BlockArray(inputs)" if op == "mk" else "tree_unflatten(treedef, inputs)",
                                "inputs": [be.describe(v) for v in inputs], "block_dtypes": [str(b.dtype) for b in impl[1].arrays]}
                    return None

                ctx.disagree("block.constructor", {"section": "constructor", "fn": op, "inputs": tag}, show_impl(impl), show(env, m, ev), oracle=dtype_oracle)
    # pytree round trips, jit, grad, tree_map
    for st in [k for k in STRUCTS if not k.startswith("s")]:
        for kd in ("x", "c", "i"):
            x = gen_block(env, rng, st, kd)
            leaves, treedef = jax.tree_util.tree_flatten(x)
            y = jax.tree_util.tree_unflatten(treedef, leaves)
            ctx.case({"section": "pytree", "struct": st, "kind": kd}, ("pytree", st, kd) if len(x) >= 2 else None)
            ctx.count("pytree:cases")
            good = len(leaves) == len(x) and all(same(a, b) for a, b in zip(leaves, x.arrays)) and same(x, y) and isinstance(y, BA)
            z = jax.tree_util.tree_map(lambda a: a * 2, x)
            good = good and same(z, x * 2) and isinstance(z, BA)

            def g(u):
                return snp.sum(snp.abs(u * u + 1) * 2)

            good = good and same(jax.jit(lambda u: u * 2 + snp.abs(u))(x), x * 2 + snp.abs(x), exact=False)
            good = good and same(jax.jit(g)(x), g(x), exact=False)
            if kd == "x":
                gr = jax.grad(lambda u: snp.sum(u * u))(x)
                good = good and isinstance(gr, BA) and same(gr, 2 * x)
                gr2 = jax.grad(lambda u: snp.linalg.norm(u) ** 2)(x + 1)
                good = good and isinstance(gr2, BA) and same(gr2, 2 * (x + 1), exact=False)
            # tracing modes: every kind of lifted operation gives the same block array under jit as eagerly
            y2 = gen_block(env, rng, st, kd)
            ops = {
                "neg": lambda u, v: -u, "add-block": lambda u, v: u + v, "rmul-scalar": lambda u, v: 3 * u,
                "cmp": lambda u, v: u > v, "real": lambda u, v: u.real, "imag": lambda u, v: u.imag, "T": lambda u, v: u.T,
                "conj": lambda u, v: u.conj(), "ravel": lambda u, v: u.ravel(), "sum-method": lambda u, v: u.sum(),
                "reshape": lambda u, v: u.reshape(-1), "astype": lambda u, v: u.astype(jnp.complex64),
                "map-pos": lambda u, v: snp.multiply(u, v), "map-kw": lambda u, v: snp.where(u == v, x=u, y=v),
                "reduce": lambda u, v: snp.sum(u), "reduce-axis": lambda u, v: snp.sum(snp.atleast_1d(u), axis=0),
                "norm": lambda u, v: snp.linalg.norm(u), "zeros-like-shape": lambda u, v: snp.zeros(u.shape, u.dtype) + u,
            }
            for nm, fop in (ops.items() if (ctx.thorough or st in ("a", "d")) else ()):
                try:
                    e = ("ok", fop(x, y2))
                except Exception as exc:  # noqa: BLE001
                    e = ("err", common.err_kind(exc))
                try:
                    jt = ("ok", jax.jit(fop)(x, y2))
                except Exception as exc:  # noqa: BLE001
                    jt = ("err", common.err_kind(exc))
                ctx.count("pytree:jit-vs-eager")
                okj = (e[0] == jt[0]) and (e[0] == "err" or (type(e[1]) is type(jt[1]) or not isinstance(e[1], BA)) and same(e[1], jt[1], exact=False))
                if not okj:
                    ctx.disagree("block.jit", {"section": "pytree", "op": nm, "struct": st, "kind": kd, "x": jsonable(x)},
                                 show_impl(jt), show_impl(e), oracle=lambda c, e=e, jt=jt, nm=nm: {"operation": nm, "x": c["x"], "eager": show_impl(e), "under_jit": show_impl(jt)})
            good = good and x.dtype == x.arrays[0].dtype and all(b.dtype == x.dtype for b in x.arrays)
            if not good:
                ctx.disagree("block.pytree", {"section": "pytree", "struct": st, "kind": kd, "x": jsonable(x)}, "round trip / jit / grad mismatch", "identity")


# ---------------------------------------------------------------------------------------------
# round 2: scico.random wrappers, assignment of blocks, transparency to jax transformations


RANDOM_REQUIRED = {
    "d": 3, "p": 0.5, "a": 2.0, "b": 3.0, "n": 2, "axis": -1, "df": 3.0, "loc": 0.0, "scale": 1.5, "dfnum": 3.0, "dfden": 4.0,
    "sigma": 1.0, "lam": 2.0, "minval": 0, "maxval": 5, "left": 0.0, "mode": 0.5, "right": 1.0, "lower": -1.0, "upper": 1.0,
    "concentration": 1.5, "replace": True, "method": "cholesky",
}


def _random_values(env, name, params):
    """values for the parameters of jax.random.<name> other than key / shape / dtype"""
    jnp = env.jnp
    vals = dict(RANDOM_REQUIRED)
    if name == "binomial":
        vals["n"] = 5.0
    if name == "categorical":
        vals["logits"] = jnp.array([0.5, 0.25, 0.25])
    if name == "dirichlet":
        vals["alpha"] = jnp.array([1.0, 2.0])
    if name == "multivariate_normal":
        vals["mean"], vals["cov"] = jnp.zeros(2), jnp.eye(2)
    if name == "choice":
        vals["a"] = 5
    if name in ("randint",):
        vals["minval"], vals["maxval"] = 0, 5
    if name == "uniform":
        vals["minval"], vals["maxval"] = 0.0, 1.0
    out = {}
    for p in params:
        if p.name in ("key", "shape", "dtype"):
            continue
        if p.name in vals:
            out[p.name] = vals[p.name]
        elif p.default is not inspect.Parameter.empty:
            out[p.name] = p.default
        else:
            return None
    return out


def _rval(v, name, atoms):
    """python value -> request form of the model's `RVal` (+ atoms)"""
    if v is None:
        return {"none": True}
    if isinstance(v, (tuple, list)) and not isinstance(v, bool) and all(isinstance(s, (int, tuple, list)) for s in v):
        return {"shape": be.shape_tree(v)}
    atoms[name] = v
    return {"o": A(name)}


def section_random(env, ctx, model):
    """`scico.random.<name>` = `_add_seed(map_func_over_tuple_of_tuples(jax.random.<name>))` against the model:
    where key and seed are read from, key xor seed, default seed 0, every block drawn with the effective key,
    returned key = split(key)[0]"""
    rng = ctx.rng
    jax, sr = env.jax, env.srandom
    env.py["split0"] = lambda k: jax.random.split(k, 2)[0]
    names = list(sr.wrappable_func_names)
    ctx.extra["random_wrapped_names"] = len(names)
    always = [n for n in ("normal", "uniform", "randint", "gamma") if n in names]
    if ctx.thorough:
        chosen = names
    else:
        rest = [n for n in names if n not in always]
        chosen = always + [rest[int(i)] for i in rng.permutation(len(rest))[:5]]
    key1, key2 = jax.random.PRNGKey(3), jax.random.PRNGKey(11)
    shapes = [((2,), (3,)), ((2,), (2,)), (2,), ((2, 1), (), (3,))] if ctx.thorough else [((2,), (2,)), (3,), ((1, 2), (3,))]
    for name in chosen:
        raw = getattr(jax.random, name)
        params = list(inspect.signature(raw).parameters.values())
        pnames = [p.name for p in params]
        vals = _random_values(env, name, params)
        if vals is None or pnames[0] != "key" or "shape" not in pnames:
            ctx.count("random:skipped-no-values")
            continue
        fn = getattr(sr, name)
        for sh in shapes:
            def full_pos(upto=None):
                """positional values for params[1:] (up to and including `upto`)"""
                out = []
                for p in params[1:]:
                    if p.name == "shape":
                        out.append(sh)
                    elif p.name == "dtype":
                        out.append(p.default)
                    else:
                        out.append(vals[p.name])
                    if p.name == upto:
                        break
                return out

            kwv = dict(vals)
            forms = [
                ("allkw+key", [], dict(kwv, shape=sh, key=key1)),
                ("pos-to-shape+key", full_pos("shape"), {"key": key1}),
                ("allpos+key-pos", full_pos() + [key1], {}),
                ("allpos+key-pos+seed-none", full_pos() + [key1, None], {}),
                ("allpos+none+seed-pos", full_pos() + [None, 7], {}),
                ("no-key", [], dict(kwv, shape=sh)),
                ("seed-kw", [], dict(kwv, shape=sh, seed=5)),
                ("key+seed", [], dict(kwv, shape=sh, key=key1, seed=5)),
                ("key-pos+seed-kw", full_pos() + [key1], {"seed": 2}),
                ("key-pos+key-kw", full_pos() + [key1], {"key": key2}),
                ("key-none-kw+seed", [], dict(kwv, shape=sh, key=None, seed=4)),
                ("too-many-positional", full_pos() + [key1, None, 99], {}),
            ]
            if not ctx.thorough:
                keep = {0, 2, 5, 7, int(rng.integers(1, len(forms)))}
                forms = [f for i, f in enumerate(forms) if i in keep]
            for tag, a, k in forms:
                k_full = dict(k)
                k = dict(k)
                atoms = {"None": None, "int0": 0}
                jargs = [_rval(v, f"p{i}", atoms) for i, v in enumerate(a)]
                kwkey = _rval(k.pop("key", None), "kwkey", atoms)
                kwseed = _rval(k.pop("seed", None), "kwseed", atoms)
                jkw = [[kk, _rval(v, f"k_{kk}", atoms)] for kk, v in k.items()]
                ev = Evaluator(atoms, env.resolve)
                m = run2(model, "random", dict(fn="jr:" + name, params=pnames, args=jargs, kwkey=kwkey, kwseed=kwseed, kwargs=jkw), ev)
                with warnings.catch_warnings():
                    warnings.simplefilter("ignore")
                    impl = impl_call(fn, a, k_full)
                nested = isinstance(sh[0], tuple) if len(sh) else False
                ctx.case({"section": "random", "fn": name, "form": tag, "shape": str(sh)}, ("random", name, tag, str(sh)) if nested else None)
                ctx.count("random:cases")
                ctx.count(f"random:model={'err:' + m[1] if m[0] == 'err' else 'ok'}")
                if m[0] == "err":
                    good = impl[0] == "err" and impl[1] == m[1]
                elif impl[0] == "err":
                    good = False
                else:
                    try:
                        r, newkey = impl[1]
                        good = compare(env, ("ok", m[1]["val"]), ("ok", r), ev) and same(ev.val(m[1]["key"]), newkey)
                    except Exception:  # noqa: BLE001
                        good = False
                if not good:
                    def rnd_oracle(c, impl=impl, name=name, a=a, k=k, atoms=atoms, sh=sh, raw=raw, vals=vals):
                        # the documented behaviour written directly: key xor seed, default seed 0, one jax draw per (inner) shape
                        # with the effective key, returned key = split(key)[0]
                        kk = atoms.get("kwkey")
                        ss = atoms.get("kwseed")
                        npar = len(pnames)
                        if len(a) >= npar:
                            kk = a[npar - 1]
                        if len(a) > npar:
                            ss = a[npar]
                        if kk is not None and ss is not None:
                            want = ("err", "value")
                        else:
                            eff = kk if kk is not None else jax.random.PRNGKey(0 if ss is None else ss)
                            try:
                                bound = inspect.signature(raw).bind(eff, *a[: npar - 1], **k).arguments
                                shp = bound.get("shape")
                                from scico.numpy import util

                                if shp is not None and util.is_nested(shp):
                                    want = ("ok", [raw(**dict(bound, shape=s)) for s in shp], jax.random.split(eff, 2)[0])
                                else:
                                    want = ("ok", raw(**bound), jax.random.split(eff, 2)[0])
                            except Exception as e:  # noqa: BLE001
                                want = ("err", common.err_kind(e))
                        if want[0] == "err":
                            bad = impl[0] != "err"
                        elif impl[0] == "err":
                            bad = True
                        else:
                            r, nk = impl[1]
                            bad = not (same(nk, want[2]) and (same(r, env.BlockArray(want[1])) if isinstance(want[1], list) else same(r, want[1])))
                        if bad:
                            return {"call": f"scico.random.{name}", "args": [jsonable(x) for x in a], "kwargs": {q: jsonable(v) for q, v in k.items()},
                                    "key": str(kk), "seed": str(ss), "scico_result": show_impl(impl) if impl[0] == "err" else be.describe(impl[1]),
                                    "documented": {"err": want[1]} if want[0] == "err" else be.describe(list(want[1:]))}
                        return None

                    ctx.disagree("block.random", {"section": "random", "fn": name, "form": tag, "shape": str(sh)}, show_impl(impl) if impl[0] == "err" else be.describe(impl[1]),
                                 show(env, ("ok", m[1]["val"]), ev) if m[0] == "ok" else {"err": m[1]}, oracle=rnd_oracle)




def section_setitem(env, ctx, model):
    """`x[k] = v` against the model; the property itself (one homogeneous dtype, blocks are arrays) is evaluated on
    the result"""
    rng = ctx.rng
    jnp, BA = env.jnp, env.BlockArray
    dts = [jnp.float64, jnp.float32, jnp.int64, jnp.complex128]
    # a block array with ONE block may legitimately change its dtype by assignment: x.dtype must follow
    forced = [(1, d0, kk, d1) for d0 in dts for d1 in dts if d1 is not d0 for kk in (0, -1)]
    if not ctx.thorough:
        forced = [forced[int(i)] for i in rng.permutation(len(forced))[:8]]
    for it in range(len(forced) + ctx.n(30, 200)):
        n = int(rng.integers(1, 5))
        d0 = dts[int(rng.integers(0, 4))]
        k = int(rng.integers(-n - 1, n + 1))
        r = rng.random()
        if it < len(forced):
            n, d0, k, d1 = forced[it]
            r = 2.0
        x = BA([jnp.arange(i + 1).astype(d0) for i in range(n)])
        if r == 2.0:
            v, vtag = jnp.ones(3).astype(d1), "single-block-other-dtype"
        elif r < 0.4:
            v, vtag = jnp.ones(2).astype(d0), "same-dtype"
        elif r < 0.7:
            v, vtag = jnp.ones(2).astype(dts[(dts.index(d0) + 1 + int(rng.integers(0, 3))) % 4]), "other-dtype"
        elif r < 0.85:
            v, vtag = [1.0, 2.0], "list"
        else:
            v, vtag = np.ones(3, dtype=np.dtype(d0)), "numpy-same-dtype"
        atoms = {f"s#{i}": x.arrays[i] for i in range(n)}
        atoms["v"] = v
        ev = Evaluator(atoms, env.resolve)
        m = run2(model, "setitem", dict(blocks=[A(f"s#{i}") for i in range(n)], k=k, v=A("v")), ev)

        def do():
            x[k] = v
            return x

        if it % 2 == 0:
            x.dtype, x.shape, x.size  # attributes read before the assignment must not be remembered
        before = list(x.arrays)
        impl = impl_call(do, [], {})
        ctx.case({"section": "setitem", "n": n, "k": k, "value": vtag}, ("setitem", n, k, vtag))
        if impl[0] == "err" and not (len(x.arrays) == len(before) and all(a is b for a, b in zip(x.arrays, before))):
            # history: a rejected assignment must leave the block array as it was
            failh = {"statement": f"x[{k}] = v  (rejected: {impl[1]})", "n_blocks": n, "value": vtag,
                     "x_afterwards": [type(b).__name__ + ":" + str(getattr(b, "dtype", "-")) for b in x.arrays], "expected": "x unchanged"}
            ctx.disagree("block.setitem-rejected-state", {"section": "setitem", "n": n, "k": k, "value": vtag}, failh["x_afterwards"], "unchanged", oracle=lambda c, failh=failh: failh)
        ctx.count(f"setitem:{vtag}")
        ctx.count(f"setitem:model={'err:' + m[1] if m[0] == 'err' else 'ok'}")
        # the property on the real object
        broken = None
        if impl[0] == "ok":
            blocks = impl[1].arrays
            if not all(isinstance(b, jnp.ndarray) for b in blocks):
                broken = "a block is not an array"
            elif len({str(b.dtype) for b in blocks}) > 1:
                broken = "heterogeneous dtypes"
            elif str(impl[1].dtype) != str(blocks[0].dtype):
                broken = f"x.dtype is {impl[1].dtype} although the blocks have dtype {blocks[0].dtype}"
            else:
                # an array that is accepted must be stored as it is (not cast to the dtype of the other blocks)
                j = k if k >= 0 else k + n
                if isinstance(v, jnp.ndarray) and 0 <= j < n and not same(blocks[j], v):
                    broken = f"the assigned block ({v.dtype}) was changed on assignment (stored {blocks[j].dtype})"
        agree = (m[0] == "err" and impl == ("err", m[1])) or (m[0] == "ok" and impl[0] == "ok" and len(impl[1].arrays) == len(m[1]["blk"])
                                                             and all(same_or_identical(ev.val(t), impl[1].arrays[i]) for i, t in enumerate(m[1]["blk"])))
        if broken or not agree:
            fail = {"statement": f"x[{k}] = v", "x_dtype_before": str(np.dtype(d0)), "v_dtype": str(getattr(v, "dtype", type(v).__name__)), "n_blocks": n, "value": vtag,
                "x_dtype_after": str(impl[1].dtype) if impl[0] == "ok" else None,
                    "result_blocks": [type(b).__name__ + ":" + str(getattr(b, "dtype", "-")) for b in impl[1].arrays] if impl[0] == "ok" else {"err": impl[1]},
                    "violates": broken}
            ctx.disagree("block.setitem", {"section": "setitem", "n": n, "k": k, "value": vtag, "dtype": str(np.dtype(d0))},
                         fail["result_blocks"], show(env, m, ev) if m[0] == "ok" else {"err": m[1]},
                         oracle=(lambda c, fail=fail: fail) if broken else None)


def section_history(env, ctx, model):
    """history / aliasing streams on the real object (the model is a pure function of the block list, so a block array must
    behave as one): (a) attributes read BEFORE an assignment that replaces every block by another dtype / shape must be
    current afterwards; (b) the list a block array was built from and the block array do not share state"""
    rng = ctx.rng
    jnp, BA, snp = env.jnp, env.BlockArray, env.snp
    dts = [jnp.float64, jnp.float32, jnp.int64, jnp.complex128]
    readers = {"dtype": lambda x: x.dtype, "shape": lambda x: x.shape, "size": lambda x: x.size, "ndim": lambda x: x.ndim,
               "len": lambda x: len(x), "op": lambda x: (x + 0).dtype, "sum": lambda x: snp.sum(x), "repr": lambda x: repr(x)}

    def facts(x):
        return {"dtype": str(x.dtype), "shape": x.shape, "size": x.size, "ndim": x.ndim, "len": len(x), "op": str((x * 1).dtype)}

    def want_facts(blocks):
        return {"dtype": str(blocks[0].dtype), "shape": tuple(b.shape for b in blocks), "size": tuple(b.size for b in blocks),
                "ndim": tuple(b.ndim for b in blocks), "len": len(blocks), "op": str((blocks[0] * 1).dtype)}

    # (a) read first, then replace all blocks
    for it in range(ctx.n(40, 300)):
        n = int(rng.integers(1, 4))
        d0, d1 = [dts[int(i)] for i in rng.permutation(4)[:2]]
        x = BA([jnp.arange(i + 2).astype(d0) for i in range(n)])
        reads = [k for k in readers if rng.random() < 0.5]
        if it % 4 == 0:
            reads = ["dtype"] if it % 8 == 0 else ["shape", "size", "dtype"]
        for k in reads:
            readers[k](x)
        m = n if rng.random() < 0.6 else int(rng.integers(1, 4))
        new = [jnp.ones((j + 1, 2)).astype(d1) for j in range(m)]
        how = ["slice-list", "slice-block", "one-by-one"][int(rng.integers(0, 3))]
        if how == "one-by-one" and n != 1:
            how = "slice-list"
        try:
            if how == "slice-list":
                x[:] = list(new)
            elif how == "slice-block":
                x[:] = BA(new)
            else:
                new = new[:1]
                x[0] = new[0]
            got, outcome = facts(x), "ok"
        except Exception as e:  # noqa: BLE001
            got, outcome = None, common.err_kind(e)
        ctx.case({"section": "history", "stream": "read-then-replace", "reads": reads, "how": how, "n": n}, ("history", tuple(reads), how, n, str(np.dtype(d0)), str(np.dtype(d1))))
        ctx.count(f"history:read-then-replace:{how}:{outcome}")
        want = want_facts(new)
        if got != want:
            fail = {"history": [f"x = BlockArray({n} blocks of {np.dtype(d0)})"] + [f"read x.{k}" if k in ("dtype", "shape", "size", "ndim") else f"evaluate {k}(x)" for k in reads]
                    + [{"slice-list": "x[:] = [new arrays]", "slice-block": "x[:] = BlockArray(new arrays)", "one-by-one": "x[0] = new array"}[how] + f" ({len(new)} blocks of {np.dtype(d1)})"],
                    "then": got if got is not None else {"err": outcome}, "expected (from the blocks)": want}
            ctx.disagree("block.history", {"section": "history", "stream": "read-then-replace", "reads": reads, "how": how, "n": n, "d0": str(np.dtype(d0)), "d1": str(np.dtype(d1))},
                         fail["then"], want, oracle=lambda c, fail=fail: fail)
    # (b) argument aliasing
    for it in range(ctx.n(30, 200)):
        n = int(rng.integers(1, 4))
        d0 = dts[int(rng.integers(0, 4))]
        src = [jnp.arange(i + 1).astype(d0) for i in range(n)]
        ctor = ["BlockArray(list)", "snp.blockarray(list)", "BlockArray(tuple)"][int(rng.integers(0, 3))]
        arg = tuple(src) if ctor.endswith("(tuple)") else src
        x = snp.blockarray(arg) if ctor.startswith("snp") else BA(arg)
        snap = list(x.arrays)
        mut = ["replace-other-dtype", "append", "clear", "delete", "reverse", "assign-through-x", "slice-assign-through-x"][int(rng.integers(0, 7))]
        src_before = list(src)
        problem = None
        try:
            if mut == "replace-other-dtype":
                src[0] = jnp.ones(5).astype(dts[(dts.index(d0) + 1) % 4])
            elif mut == "append":
                src.append(jnp.ones(2).astype(d0))
            elif mut == "clear":
                src.clear()
            elif mut == "delete":
                del src[-1]
            elif mut == "reverse":
                src.reverse()
            elif mut == "assign-through-x":
                x[0] = jnp.full((3,), 7).astype(d0)
                snap = list(x.arrays)
            else:
                x[:] = [jnp.full((3,), 7).astype(d0)]
                snap = list(x.arrays)
            if mut.endswith("through-x"):
                if len(src) != len(src_before) or any(a is not b for a, b in zip(src, src_before)):
                    problem = "the caller's list was changed by assigning through the block array"
            else:
                if len(x.arrays) != len(snap) or any(a is not b for a, b in zip(x.arrays, snap)):
                    problem = "the block array changed when the caller's list was mutated"
                elif facts(x) != want_facts(snap):
                    problem = "attributes of the block array no longer describe its blocks"
        except Exception as e:  # noqa: BLE001
            problem = f"raised {type(e).__name__}"
        ctx.case({"section": "history", "stream": "argument-aliasing", "ctor": ctor, "mutation": mut, "n": n}, ("history-alias", ctor, mut, n, str(np.dtype(d0))))
        ctx.count(f"history:argument-aliasing:{mut}:{'ok' if problem is None else 'shared'}")
        if problem:
            fail = {"history": [f"L = {n} jax arrays of {np.dtype(d0)}", f"x = {ctor.replace('list', 'L').replace('tuple', 'tuple(L)')}", f"mutation: {mut}"], "violates": problem,
                    "blocks_of_x": [str(b.shape) + ":" + str(b.dtype) for b in x.arrays], "caller_list": [str(b.shape) + ":" + str(b.dtype) for b in src]}
            ctx.disagree("block.history", {"section": "history", "stream": "argument-aliasing", "ctor": ctor, "mutation": mut, "n": n}, fail["blocks_of_x"], "independent of the caller's list",
                         oracle=lambda c, fail=fail: fail)


def same_or_identical(a, b):
    if a is b:
        return True
    try:
        return same(a, b)
    except Exception:  # noqa: BLE001
        return False


def transparency_probes(env):
    """[(name, thunk -> (got, want))]: jax transformations applied to functions of a block array against the same
    transformation applied block by block / to the tuple of the blocks"""
    jax, jnp, snp, BA = env.jax, env.jnp, env.snp, env.BlockArray
    x = BA([jnp.array([[1.0, 2.0], [3.0, 4.0]]), jnp.array([0.5, -1.5, 2.0])])
    xb = BA([jnp.ones((4, 3)), jnp.arange(4.0)])
    f = lambda v: snp.sum(v * v * v)  # noqa: E731
    ft = lambda t: sum(jnp.sum(b * b * b) for b in t)  # noqa: E731
    tup = tuple(x.arrays)

    def blocks_of(r):
        return jax.tree_util.tree_leaves(r)

    probes = [
        ("placeholder-object", lambda: (jax.tree_util.tree_leaves(jax.tree_util.tree_unflatten(jax.tree_util.tree_structure(x), ["p", "q"]), is_leaf=lambda z: isinstance(z, str)), ["p", "q"])),
        ("placeholder-none", lambda: (jax.tree_util.tree_map(lambda a: None, x).arrays, [None, None])),
        ("tree_map-shape", lambda: (jax.tree_util.tree_map(lambda a: a.shape, x).arrays, [(2, 2), (3,)])),
        ("eval_shape", lambda: ([(s.shape, str(s.dtype)) for s in jax.eval_shape(lambda v: v * 2, x).arrays], [((2, 2), "float64"), ((3,), "float64")])),
        ("vmap", lambda: (blocks_of(jax.vmap(lambda v: v * 2)(xb)), [b * 2 for b in xb.arrays])),
        ("hessian", lambda: (blocks_of(jax.hessian(f)(x)), blocks_of(jax.hessian(ft)(tup)))),
        ("jacfwd", lambda: (blocks_of(jax.jacfwd(lambda v: v * 2)(x)), blocks_of(jax.jacfwd(lambda t: tuple(b * 2 for b in t))(tup)))),
        ("jacrev", lambda: (blocks_of(jax.jacrev(lambda v: v * 2)(x)), blocks_of(jax.jacrev(lambda t: tuple(b * 2 for b in t))(tup)))),
        ("jit-lower", lambda: (blocks_of(jax.jit(lambda v: v * 2).lower(x).compile()(x)), [b * 2 for b in x.arrays])),
        ("pure_callback", lambda: (blocks_of(jax.pure_callback(lambda v: v, x, x)), list(x.arrays))),
        # transformations that only unflatten with arrays / tracers
        ("jit", lambda: (blocks_of(jax.jit(lambda v: v * 2)(x)), [b * 2 for b in x.arrays])),
        ("grad", lambda: (blocks_of(jax.grad(f)(x)), blocks_of(jax.grad(ft)(tup)))),
        ("jvp", lambda: (blocks_of(jax.jvp(f, (x,), (x,))), blocks_of(jax.jvp(ft, (tup,), (tup,))))),
        ("vjp", lambda: (blocks_of(jax.vjp(lambda v: v * 2, x)[1](x)), [b * 2 for b in x.arrays])),
        ("linearize", lambda: (blocks_of(jax.linearize(lambda v: v * 2, x)[1](x)), [b * 2 for b in x.arrays])),
        ("scan-carry", lambda: (blocks_of(jax.lax.scan(lambda c, _: (c * 2, None), x, None, length=3)[0]), [b * 8 for b in x.arrays])),
        ("cond", lambda: (blocks_of(jax.lax.cond(True, lambda v: v * 2, lambda v: v, x)), [b * 2 for b in x.arrays])),
        ("while_loop", lambda: (blocks_of(jax.lax.while_loop(lambda c: c[1] < 3, lambda c: (c[0] * 2, c[1] + 1), (x, 0))[0]), [b * 8 for b in x.arrays])),
        ("checkpoint-grad", lambda: (blocks_of(jax.grad(jax.checkpoint(f))(x)), blocks_of(jax.grad(ft)(tup)))),
        ("nested-dict-jit", lambda: (blocks_of(jax.jit(lambda d: {"a": d["a"] * 2, "b": (d["b"][0] + 1,)})({"a": x, "b": (x,)})), [b * 2 for b in x.arrays] + [b + 1 for b in x.arrays])),
        ("nested-grad", lambda: (blocks_of(jax.grad(lambda d: snp.sum(d["a"] * d["a"]) + snp.sum(d["b"][0]))({"a": x, "b": (x,)})), [2 * b for b in x.arrays] + [jnp.ones_like(b) for b in x.arrays])),
        ("flatten_with_path", lambda: ([v for _, v in jax.tree_util.tree_flatten_with_path(x)[0]], list(x.arrays))),
        ("tree_map-two", lambda: (blocks_of(jax.tree_util.tree_map(lambda a, b: a + b, x, x)), [b + b for b in x.arrays])),
    ]
    return probes


def section_transparency(env, ctx, model):
    """the property itself on the real code: a block array goes through jax transformations like the tuple of its blocks"""
    for name, thunk in transparency_probes(env):
        with warnings.catch_warnings():
            warnings.simplefilter("ignore")
            try:
                got, want = thunk()
                okk = len(got) == len(want) and all(same(g, w, exact=False) for g, w in zip(got, want))
                res = "ok" if okk else "differs"
            except Exception as e:  # noqa: BLE001
                res = f"raised {type(e).__name__}"
                okk = False
                got = want = None
        ctx.case({"section": "transparency", "probe": name}, ("transparency", name))
        ctx.count(f"transparency:{name}={res}")
        if not okk:
            fail = {"transformation": name, "on": "BlockArray([2x2, (3,)])", "outcome": res,
                    "got": be.describe(got) if got is not None else None, "expected (tuple of the blocks)": be.describe(want) if want is not None else None}
            ctx.disagree("block.transparency", {"section": "transparency", "probe": name}, res, "as for the tuple of the blocks",
                         oracle=lambda c, fail=fail: fail)
    # the registered unflatten against the model, with placeholder leaves
    jax, jnp, BA = env.jax, env.jnp, env.BlockArray
    cands = [
        ("object,object", [object(), object()]),
        ("None,None", [None, None]),
        ("array,None", [jnp.ones(2), None]),
        ("ShapeDtypeStruct", [jax.ShapeDtypeStruct((2,), jnp.float64), jax.ShapeDtypeStruct((3,), jnp.float64)]),
        ("int,int", [0, 0]),
        ("str", ["a"]),
        ("tuple-shapes", [(2, 3), (3,)]),
        ("bool,bool", [True, False]),
        ("f64,f32", [jnp.ones(2), jnp.zeros(3, dtype=jnp.float32)]),
        ("f64,f64", [jnp.ones(2), jnp.zeros((2, 2))]),
    ]
    for tag, inputs in cands:
        atoms = {f"i{j}": v for j, v in enumerate(inputs)}
        ev = Evaluator(atoms, env.resolve)
        m = run2(model, "unflatten", dict(inputs=[A(f"i{j}") for j in range(len(inputs))]), ev)
        td = jax.tree_util.tree_structure(BA([jnp.zeros(1)] * len(inputs)))
        with warnings.catch_warnings():
            warnings.simplefilter("ignore")
            impl = impl_call(lambda: jax.tree_util.tree_unflatten(td, inputs), [], {})
        ctx.case({"section": "unflatten-placeholders", "inputs": tag}, ("unflatten", tag))
        ctx.count(f"unflatten:{tag}:model={'err:' + m[1] if m[0] == 'err' else 'ok'}")
        if m[0] == "err":
            agree = impl[0] == "err" and impl[1] == m[1]
        else:
            agree = impl[0] == "ok" and isinstance(impl[1], BA) and len(impl[1].arrays) == len(m[1]["blk"]) and all(
                same_or_identical(ev.val(t), impl[1].arrays[i]) for i, t in enumerate(m[1]["blk"]))
        # jax's contract for registered nodes: the leaves come back as they are
        all_arrays = all(isinstance(v, jnp.ndarray) for v in inputs)
        transparent = impl[0] == "ok" and all(a is b for a, b in zip(impl[1].arrays, inputs))
        if not agree:
            bad = (not all_arrays) and not transparent
            failu = {"call": "jax.tree_util.tree_unflatten(treedef of a BlockArray, leaves)", "leaves": tag,
                     "outcome": {"err": impl[1]} if impl[0] == "err" else [type(b).__name__ for b in impl[1].arrays], "expected": "the leaves, untouched"}
            ctx.disagree("block.unflatten", {"section": "unflatten-placeholders", "inputs": tag}, show_impl(impl) if impl[0] == "err" else [type(b).__name__ for b in impl[1].arrays],
                         show(env, m, ev) if m[0] == "ok" else {"err": m[1]}, oracle=(lambda c, failu=failu: failu) if bad else None)
        elif not all_arrays and not transparent:
            fail = {"call": "jax.tree_util.tree_unflatten(treedef of a BlockArray, leaves)", "leaves": tag,
                    "outcome": {"err": impl[1]} if impl[0] == "err" else [type(b).__name__ for b in impl[1].arrays], "expected": "the leaves, untouched"}
            ctx.disagree("block.unflatten", {"section": "unflatten-placeholders", "inputs": tag}, fail["outcome"], "leaves untouched", oracle=lambda c, fail=fail: fail)


def section_trees(env, ctx, model):
    """block arrays nested inside tuples / dicts: `jax.tree_util.tree_unflatten(treedef, leaves)` against the model's
    recursion (`unflat`) for array leaves, placeholder leaves, a block of mixed dtypes, too few / too many leaves"""
    rng = ctx.rng
    jax, jnp, BA = env.jax, env.jnp, env.BlockArray
    structs = [
        {"tup": [{"blk": 2}, {"leaf": True}]},
        {"tup": [{"leaf": True}, {"tup": [{"blk": 1}, {"blk": 3}]}, {"leaf": True}]},
        {"blk": 2},
        {"tup": [{"tup": []}, {"blk": 2}, {"tup": [{"tup": [{"blk": 2}]}]}]},
        {"tup": [{"blk": 0}, {"leaf": True}]},
        # blocks that are pytrees themselves (what jax.hessian / jacfwd of a function of a block array return)
        {"blk": [{"blk": 2}, {"blk": 1}]},
        {"blk": [{"leaf": True}, {"tup": [{"leaf": True}, {"leaf": True}]}]},
        {"tup": [{"blk": [{"blk": [{"leaf": True}]}, {"leaf": True}]}, {"leaf": True}]},
    ]
    counter = [0]

    def build(sj, as_dict):
        """real pytree with fresh float64 arrays as leaves"""
        if "leaf" in sj:
            counter[0] += 1
            return jnp.full((2,), float(counter[0]))
        if "blk" in sj and isinstance(sj["blk"], list):
            ba = object.__new__(BA)  # the constructor only takes arrays: build the node as jax's unflatten does
            ba.arrays = [build(c, as_dict) for c in sj["blk"]]
            return ba
        if "blk" in sj:
            out = []
            for _ in range(sj["blk"]):
                counter[0] += 1
                out.append(jnp.full((counter[0] % 3 + 1,), float(counter[0])))
            return BA(out)
        kids = [build(c, not as_dict) for c in sj["tup"]]
        return {f"k{i}": c for i, c in enumerate(kids)} if as_dict else tuple(kids)

    def matches(mj, real, ev):
        if "leaf" in mj:
            return same_or_identical(ev.val(mj["leaf"]), real)
        if "blk" in mj:
            return isinstance(real, BA) and len(real.arrays) == len(mj["blk"]) and all(matches(t, real.arrays[i], ev) for i, t in enumerate(mj["blk"]))
        vals = list(real.values()) if isinstance(real, dict) else (list(real) if isinstance(real, tuple) else None)
        return vals is not None and len(vals) == len(mj["tup"]) and all(matches(c, v, ev) for c, v in zip(mj["tup"], vals))

    for si, sj in enumerate(structs):
        for as_dict in (False, True):
            t0 = build(sj, as_dict)
            leaves0, treedef = jax.tree_util.tree_flatten(t0)
            n = len(leaves0)
            variants = [("same", list(leaves0)), ("doubled", [a * 2 for a in leaves0]), ("objects", [object() for _ in range(n)]),
                        ("sds", [jax.ShapeDtypeStruct(a.shape, a.dtype) for a in leaves0]), ("ints", list(range(n))),
                        ("too-few", list(leaves0[:-1]) if n else None), ("too-many", list(leaves0) + [jnp.zeros(1)])]
            if n >= 2:
                mixed = list(leaves0)
                j = int(rng.integers(0, n))
                mixed[j] = mixed[j].astype(jnp.float32)
                variants.append(("one-float32", mixed))
                ph = list(leaves0)
                ph[int(rng.integers(0, n))] = "placeholder"
                variants.append(("one-placeholder", ph))
            for tag, leaves in variants:
                if leaves is None:
                    continue
                atoms = {f"l{i}": v for i, v in enumerate(leaves)}
                ev = Evaluator(atoms, env.resolve)
                m = run2(model, "tree_unflatten", dict(struct=sj, leaves=[A(f"l{i}") for i in range(len(leaves))]), ev)
                with warnings.catch_warnings():
                    warnings.simplefilter("ignore")
                    impl = impl_call(lambda: jax.tree_util.tree_unflatten(treedef, leaves), [], {})
                ctx.case({"section": "trees", "struct": si, "dict": as_dict, "leaves": tag}, ("trees", si, as_dict, tag))
                ctx.count(f"trees:{tag}:model={'err:' + m[1] if m[0] == 'err' else 'ok'}")
                good = (m[0] == "err" and impl == ("err", m[1])) or (m[0] == "ok" and impl[0] == "ok" and matches(m[1], impl[1], ev))
                if not good:
                    def tree_oracle(c, impl=impl, leaves=leaves, n=n, tag=tag):
                        # the property itself: the leaves come back from tree_leaves unchanged and in order
                        if impl[0] != "ok":
                            arrays_mixed = tag == "one-float32"
                            return None if (len(leaves) != n or arrays_mixed) else {"call": "tree_unflatten(treedef, leaves)", "leaves": tag, "outcome": {"err": impl[1]}, "expected": "the tree with these leaves"}
                        back = jax.tree_util.tree_leaves(impl[1], is_leaf=lambda z: z is None or isinstance(z, str))
                        if len(back) != len(leaves) or any(not same_or_identical(a, b) for a, b in zip(back, leaves)):
                            return {"call": "tree_leaves(tree_unflatten(treedef, leaves))", "leaves": tag, "returned": be.describe(back), "expected": "the leaves, unchanged and in order"}
                        return None

                    ctx.disagree("block.trees", {"section": "trees", "struct": sj, "dict": as_dict, "leaves": tag}, show_impl(impl) if impl[0] == "err" else be.describe(jax.tree_util.tree_leaves(impl[1])),
                                 m[1] if m[0] == "err" else "model tree", oracle=tree_oracle)


MODE_F32, ENGINE_F32 = "block", "block"

def section_default_precision(env, ctx, model):
    """DEFAULT-PRECISION stream (round 6): a subprocess WITHOUT jax_enable_x64 evaluates the property itself on the real code in the
    library's default mode (float32 / complex64 / int32, dtype arguments omitted, weakly typed Python scalars); every record
    that is not ok is a failing input of the property (the record IS the oracle's evaluation), never a model disagreement"""
    import os
    import subprocess
    import sys

    envv = {k: v for k, v in os.environ.items() if k != "JAX_ENABLE_X64"}
    p = subprocess.run([sys.executable, str(common.VERIF / "harness" / "block_f32_worker.py")], input=json.dumps({"repo": str(common.REPO), "mode": MODE_F32, "seed": ctx.seed}),
                       capture_output=True, text=True, env=envv, timeout=900)
    try:
        results = json.loads(p.stdout)["results"]
    except Exception:  # noqa: BLE001
        # the worker died: with the code under test in the traceback it is the implementation's failure, otherwise ours
        if str(common.REPO) in p.stderr:
            ctx.disagree(f"{ENGINE_F32}.default-precision", {"section": "default-precision", "worker": "died"}, p.stderr[-400:], "runs",
                         oracle=lambda c: {"default_precision_worker": "died inside the code under test", "stderr_tail": p.stderr[-600:]})
            return
        raise common.Infra("default-precision worker failed: " + p.stderr[-500:])
    for r in results:
        ctx.case({"section": "default-precision", "case": r["case"]}, ("default-precision", r["case"]))
        ctx.count(f"default-precision:{r['case'].split('/')[0]}:{'ok' if r['ok'] else 'FAILS'}")
        if not r["ok"]:
            fail = {"mode": "default precision (jax_enable_x64 off)", "case": r["case"], "detail": r["detail"]}
            ctx.disagree(f"{ENGINE_F32}.default-precision", {"section": "default-precision", "case": r["case"]}, r["detail"], "per-block jax / scipy on the flattened problem in the same mode",
                         oracle=lambda c, fail=fail: fail)


def correspond(ctx, model):
    import time

    env = Env()
    timing = {}
    # the sections that evaluate the property itself on small objects come first: at most 5 violations are written out
    for sec in (run_corpus, section_history, section_default_precision, section_setitem, section_transparency, section_trees, section_names, section_reductions, section_creation,
                section_operators, section_nonlifted, section_methods, section_sequence, section_slices, section_setslice, section_wrappers, section_wrappers_exhaustive, section_pytree, section_random):
        t0 = time.time()
        try:
            sec(env, ctx, model)
        except (common.Infra, ModelErr):
            raise
        except Exception as e:  # noqa: BLE001
            # an exception escaping from the code under test is its failure, not the harness's
            import traceback

            frames = [f for f in traceback.extract_tb(e.__traceback__) if str(common.REPO) in f.filename]
            if not frames and not ctx.disagreements:
                raise
            if not frames:
                # no scico frame, but the implementation already disagreed in this run: a consequence (e.g. jax rejecting a wrong
                # result of scico), reported as such and never as an infrastructure failure
                frames = traceback.extract_tb(e.__traceback__)[-1:]
            ctx.disagree("%s.%s" % ("block", sec.__name__), {"section": sec.__name__, "exception": repr(e)[:300], "raised_in": f"{frames[-1].filename}:{frames[-1].lineno}"},
                         "raised", "no exception")
        timing[sec.__name__] = round(time.time() - t0, 1)
    ctx.extra["section_wall_s"] = timing


def run_corpus(env, ctx, model):
    d = common.CORPUS_DIR / PROP
    if not d.exists():
        return
    for f in sorted(d.glob("*.json")):
        case = json.loads(f.read_text())
        ctx.count("corpus")
        replay_case(env, ctx, model, case, from_corpus=f.name)


def replay_case(env, ctx, model, case, from_corpus=None):
    c = case.get("case", case)
    kind = c.get("kind")
    if kind in ("map", "reduce", "create", "void"):
        args = [unjson(env, a) for a in c.get("args", [])]
        kwargs = {k: unjson(env, v) for k, v in c.get("kwargs", {}).items()}
        fn_id = c["fn"]
        if fn_id.startswith("py:"):
            return None
        raw, snp_fn = env.resolve(fn_id), snp_of(env, fn_id)
        return run_call(env, ctx, model, c.get("section", "corpus"), kind, fn_id, raw, snp_fn, args, kwargs,
                        f"corpus:{from_corpus or 'replay'}", known_id=c.get("known_id"), key=c.get("key", "shape"))
    if kind == "binop":
        x, o = unjson(env, c["self"]), unjson(env, c["other"])
        name = c["fn"]
        atoms = {f"s#{i}": x.arrays[i] for i in range(len(x))}
        if isinstance(o, env.BlockArray):
            oj = {"b": [A(f"o#{i}") for i in range(len(o))]}
            atoms.update({f"o#{i}": o.arrays[i] for i in range(len(o))})
            impl = impl_call(lambda: getattr(x, name)(o), [], {}) if hasattr(x, name) else ("err", "other")
            if impl[0] == "ok" and impl[1] is NotImplemented:
                impl = ("err", "type")
        else:
            oj = {"o": A("o")}
            atoms["o"] = o
            impl = impl_call(lambda: PYOPS[name](x, o), [], {})
        ev = Evaluator(atoms, env.resolve)
        m = run2(model, "binop", dict(name="op:" + name, blocks=[A(f"s#{i}") for i in range(len(x))], other=oj), ev)
        ctx.case({"section": "corpus", "op": name}, ("corpus", from_corpus or "replay"))
        good = compare(env, m, impl, ev, op=None if isinstance(o, env.BlockArray) else name)
        if not good:
            ctx.disagree("block.binop", dict(c, kind="binop"), show_impl(impl), show(env, m, ev), oracle=make_oracle(env), known_id=c.get("known_id"))
        return good
    return None


def findings(ctx, model):
    env = Env()
    if ctx.is_known(KNOWN_TUPLE):
        x = env.BlockArray([env.jnp.array([[2.0, 1.0], [0.0, 3.0]]), 2.0 * env.jnp.eye(3)])
        try:
            r = env.snp.linalg.eig(x)
            still = not (isinstance(r, tuple) and len(r) == 2 and all(isinstance(t, env.BlockArray) for t in r))
        except Exception:  # noqa: BLE001
            still = True
        ctx.known_finding(KNOWN_TUPLE, still)
    if ctx.is_known(KNOWN_RMOD):
        x = env.BlockArray([env.jnp.array([5.0, 7.0]), env.jnp.array(9.0)])
        try:
            r = 4 % x
            still = not (isinstance(r, env.BlockArray) and same(r.arrays[0], 4 % x.arrays[0]))
        except TypeError:
            still = True
        ctx.known_finding(KNOWN_RMOD, still)


# which sections exercise which transcribed function (targeted panel after a broken source obligation)
PANELS = {
    "BlockArray.__init__": ["section_history", "section_pytree", "section_setitem"],
    "BlockArray.dtype": ["section_history", "section_setitem"],
    "BlockArray.__len__": ["section_sequence", "section_wrappers"],
    "BlockArray.__getitem__": ["section_sequence", "section_slices", "section_methods"],
    "BlockArray.__setitem__": ["section_history", "section_setitem", "section_setslice"],
    "_unflatten": ["section_transparency", "section_trees", "section_pytree"],
    "@call:jax.tree_util.register_pytree_node": ["section_transparency", "section_trees", "section_pytree"],
    "_unary_op_wrapper": ["section_operators"],
    "_binary_op_wrapper": ["section_operators", "section_nonlifted"],
    "_da_prop_wrapper": ["section_methods"],
    "_da_method_wrapper.method_ba": ["section_methods", "section_sequence"],
    "map_func_over_tuple_of_tuples": ["section_creation", "section_random"],
    "_num_blocks_in_args": ["section_wrappers", "section_wrappers_exhaustive", "section_reductions"],
    "_block_args_kwargs": ["section_wrappers", "section_wrappers_exhaustive"],
    "map_func_over_blocks": ["section_wrappers", "section_wrappers_exhaustive", "section_reductions"],
    "map_void_func_over_blocks": ["section_wrappers"],
    "add_full_reduction": ["section_reductions"],
    "is_nested": ["section_creation"],
    "shape_to_size": ["section_creation"],
    "_add_seed.fun_alt": ["section_random"],
    "_wrap": ["section_random"],
    "_is_wrappable": ["section_random"],
}


def targeted_search(ctx, model, env):
    """run the sections that exercise the functions whose normalised body differs from the pinned one, collecting only what the
    property oracles report on the implementation; -> (changed rows, first failing input or None)"""
    import block_translate

    rows = block_translate.changed_rows("block")
    secs = []
    for r in rows:
        for sname in PANELS.get(r.split(":", 1)[1], []):
            if sname not in secs:
                secs.append(sname)
    sub = common.Ctx(PROP, "quick", ctx.seed)
    sub.known = dict(getattr(ctx, "known", {}))
    found = []

    def collect(op, case, impl, mdl, oracle=None, known_id=None, note=""):
        if known_id is not None and sub.is_known(known_id):
            return
        if oracle is not None:
            try:
                r = oracle(case)
            except Exception:  # noqa: BLE001
                r = None
            if r is not None:
                found.append(dict(r, op=op))

    sub.disagree = collect
    for sname in secs:
        try:
            globals()[sname](env, sub, model)
        except (common.Infra, ModelErr):
            raise
        except Exception as e:  # noqa: BLE001  (the changed function raising inside a section is itself a finding)
            found.append({"section": sname, "raised": repr(e)[:300]})
        if found:
            break
    return rows, (found[0] if found else None)


def search(ctx, model, why):
    """failing-input search on the implementation alone: documented block-wise behaviour, no model"""
    env = Env()
    if why is not None and "BlockSource" in str(why.get("module", "")):
        rows, hit = targeted_search(ctx, model, env)
        ctx.extra["changed_source_rows"] = rows
        if hit is not None:
            return dict(hit, changed_functions=rows)
        return None
    oracle = make_oracle(env)
    rng = ctx.rng
    t = env.tables
    names = list(dict.fromkeys(t["mathematical_functions"]))
    reductions = set(t["reduction_functions"])
    budget = 300 if why is None else 600
    if why is not None:
        # a structural obligation on the tables broke: try the documented reduction / creation behaviour directly
        jnp, snp, BA = env.jnp, env.snp, env.BlockArray
        x = BA([jnp.array([[1.0, 2.0], [3.0, 4.0]]), jnp.array([5.0, 6.0, 7.0])])
        # lifted attributes: the promised ones and every public attribute of the jax array type the rule selects
        try:
            attrs = translate_lists.read_attr_tables()
            promised = ["shape", "size", "ndim", "T", "real", "imag", "ravel", "reshape", "conj", "conjugate", "astype", "sum", "flatten", "copy", "transpose"]
            for nm in promised + [k for k, p, c in attrs["members"] if (p or c) and k not in ("at",)]:
                try:
                    getattr(x, nm)
                except AttributeError:
                    return {"attribute": nm, "on": "BlockArray([2x2, (3,)])", "outcome": "AttributeError",
                            "expected": "lifted from the jax array type: the tuple / block array of the per-block values", "per_block_jax": be.describe([getattr(b, nm) for b in x.arrays]) if nm in ("shape", "size", "ndim") else "…"}
                except Exception:  # noqa: BLE001
                    pass
        except common.Infra:
            pass
        for name in t["reduction_functions"]:
            raw, f = be.getpath(jnp, name), be.getpath(snp, name)
            for kw in ({}, {"axis": 0}):
                impl = impl_call(f, [x], kw)
                try:
                    want = raw(jnp.concatenate([jnp.ravel(b) for b in x.arrays])) if not kw else [raw(b, **kw) for b in x.arrays]
                except Exception:  # noqa: BLE001
                    continue
                good = impl[0] == "ok" and (same(impl[1], want) if not kw else (isinstance(impl[1], BA) and all(same(w, impl[1].arrays[i]) for i, w in enumerate(want))))
                if not good:
                    return {"call": f"snp.{name}(x{', axis=0' if kw else ''})", "x": jsonable(x), "scico_result": show_impl(impl),
                            "documented": "reduction of the concatenation of the ravelled blocks" if not kw else "per block", "expected": be.describe(want)}
        for name in t["creation_routines"]:
            raw, f = be.getpath(jnp, name), be.getpath(snp, name)
            extra = [1.5] if name == "full" else []
            impl = impl_call(f, [((2, 3), (4,))] + extra, {})
            want = [raw(s, *extra) for s in ((2, 3), (4,))]
            if not (impl[0] == "ok" and isinstance(impl[1], BA) and all(same(w, impl[1].arrays[i]) for i, w in enumerate(want))):
                return {"call": f"snp.{name}(((2, 3), (4,)))", "scico_result": show_impl(impl), "expected": be.describe(want)}
    for it in range(budget):
        name = names[int(rng.integers(0, len(names)))]
        if name in SKIP_NAMES or name in reductions:
            continue
        fn_id = "jnp:" + name
        raw = env.resolve(fn_id)
        fams = [SPECIAL[name]] if name in SPECIAL else [(f, {}) for f in FAMILIES]
        for tmpl, kwt in fams:
            st = ["a", "b", "c", "d", "f"][int(rng.integers(0, 5))]
            args = instantiate(env, rng, tmpl, st)
            if not per_block_ok(env, raw, args, kwt):
                continue
            case = {"section": "search", "kind": "map", "fn": fn_id, "args": [jsonable(a) for a in args], "kwargs": {k: jsonable(v) for k, v in kwt.items()}}
            r = oracle(case)
            if r is not None:
                multi = False
                nb = max([len(x) for x in args if isinstance(x, env.BlockArray)] + [0])
                for bi in range(nb):
                    ab = [x.arrays[bi] if isinstance(x, env.BlockArray) else x for x in args]
                    try:
                        multi = multi or isinstance(raw(*ab, **kwt), (tuple, list))
                    except Exception:  # noqa: BLE001
                        pass
                if multi and ctx.is_known(KNOWN_TUPLE):
                    ctx.known_finding(KNOWN_TUPLE, True)  # several outputs per block: recorded finding
                    ctx.count("search:multi-output-function (known finding)")
                    break
                return r
            break
    return None


def replay(ctx, model, case):
    env = Env()
    c = case.get("case", case)
    oracle = make_oracle(env)
    r = oracle(c) if isinstance(c, dict) and "fn" in c else None
    print("replay:", "property FAILS on implementation:" if r else "no failure at this input", json.dumps(r, default=str)[:600] if r else "")
    if r:
        ctx.violation({"kind": "failing-input", "case": c, "failing": r}, True, "replay")
    else:
        replay_case(env, ctx, model, c)
