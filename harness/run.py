"""Generic check runner:  python harness/run.py <Cxx> <quick|thorough> [--replay file]

Per-property adapter modules (harness/cNN.py) declare

    PROP            "C15"
    PROP_MODULES    Lean modules that hold ONLY the property theorems  (["Scico.Props.C15"])
    EXTRA_TARGETS   further Lean modules to build (models used by the driver)
    DRIVER          name of Drv/<DRIVER>.lean or None
    FILES           anchored source files of /repo (fingerprinted into the evidence)
    RULE            how cases are generated and what makes one distinct / non-trivial
    ASSUMPTIONS     list of strings
    generate(ctx)         optional - regenerate Scico/Generated/*.lean from the working tree;
                          returns [(module, description)] of generated obligation modules
    correspond(ctx, model)   corpus + generated cases, calls ctx.case / disagree(...)
    findings(ctx, model)     replays the witnesses of known_findings.txt
    search(ctx, model, why)  optional - failing-input search on the implementation (returns dict|None)
    replay(ctx, model, case) optional - re-run one replay file

Steps follow DESIGN.md §2.
"""

from __future__ import annotations

import importlib
import json
import os
import sys
import time
import traceback
from pathlib import Path

sys.path.insert(0, str(Path(__file__).resolve().parent))
import common  # noqa: E402
from common import Ctx, Infra, Model  # noqa: E402

MAX_VIOLATIONS = 5


def disagree(ctx, op, case, impl, model, oracle=None, known_id=None, note=""):
    """Record a disagreement between implementation and model (or a failed finite obligation).

    `oracle(case)` evaluates the *property itself* on the implementation at/around the case and
    returns a dict describing a failing input, or None.  `known_id` is the slug of the known
    finding this case is an instance of (classified by the adapter), if any."""
    if known_id is not None and ctx.is_known(known_id):
        ctx.suppressed += 1
        ctx.known_finding(known_id, True)
        return
    rec = {"op": op, "case": case, "impl": impl, "model": model, "note": note}
    ctx.disagreements.append(rec)
    if len(ctx.violations) >= MAX_VIOLATIONS:
        return
    failing = None
    if oracle is not None:
        try:
            failing = oracle(case)
        except Exception as e:  # the oracle crashing on the implementation is itself information
            failing = None
            rec["oracle_error"] = repr(e)
    if failing is not None:
        ctx.violation({"kind": "failing-input", "op": op, "case": case, "failing": failing, "impl": impl, "model": model},
                      True, f"{op}: property fails on the implementation")
    else:
        ctx.violation({"kind": "correspondence-broken", "no_longer_checks": f"correspondence {op}", "op": op,
                       "case": case, "impl": impl, "model": model, "note": note},
                      False, f"{op}: model and implementation differ")


common.Ctx.disagree = lambda self, *a, **k: disagree(self, *a, **k)


def main(argv):
    if len(argv) < 3:
        print(__doc__)
        return 2
    prop, tier = argv[1], argv[2]
    replay_file = None
    if "--replay" in argv:
        replay_file = argv[argv.index("--replay") + 1]
    if tier not in ("quick", "thorough"):
        tier = os.environ.get("VERIF_TIER", "quick")
    seed = int(os.environ.get("VERIF_SEED", "0"))
    ctx = Ctx(prop, tier, seed)
    mod = importlib.import_module(prop.lower())
    ctx.rule = getattr(mod, "RULE", "")
    ctx.assumptions = list(getattr(mod, "ASSUMPTIONS", []))
    files = list(getattr(mod, "FILES", []))
    model = None
    rc = 0
    try:
        # 1. translators + build ------------------------------------------------
        generated = []
        if hasattr(mod, "generate"):
            generated = list(mod.generate(ctx) or [])
        targets = list(mod.PROP_MODULES) + list(getattr(mod, "EXTRA_TARGETS", []))
        ok, log = common.lake_build(targets)
        if not ok:
            print(log[-4000:])
            raise Infra("hand-written Lean targets failed to build")
        broken = []
        for gmod, desc in generated:
            ctx.obligations += 1
            ok, log = common.lake_build([gmod])
            if ok:
                ctx.discharged += 1
                ctx.obligation_notes.append(f"generated {gmod}: {desc}: ok")
            else:
                ctx.obligation_notes.append(f"generated {gmod}: {desc}: FAILED")
                broken.append((gmod, desc, log[-3000:]))
        # 2. audit ----------------------------------------------------------------
        hits = common.forbidden_tokens(list(mod.PROP_MODULES) + [g for g, _ in generated])
        if hits:
            print("\n".join(hits))
            raise Infra("forbidden construct in Lean sources")
        axioms, out = common.axioms_audit(list(mod.PROP_MODULES))
        for name, ax in axioms.items():
            ctx.obligations += 1
            if ax is None:
                print(out[-3000:])
                raise Infra(f"axiom audit could not resolve theorem {name}")
            extra = set(ax) - common.ALLOWED_AXIOMS
            if extra:
                raise Infra(f"theorem {name} depends on non-standard axioms {sorted(extra)}")
            ctx.discharged += 1
            ctx.theorems[name] = ax
        if not axioms:
            raise Infra("no property theorem found")
        ctx.checker_cmd = (
            "cd lean && lake build " + " ".join(targets) + " && lake env lean .lake/audit/Audit_*.lean  (#print axioms on every theorem of "
            + ",".join(mod.PROP_MODULES) + ")"
        )
        # 3. correspondence -------------------------------------------------------------
        if getattr(mod, "DRIVER", None):
            model = Model(mod.DRIVER)
        if replay_file:
            case = json.loads(Path(replay_file).read_text())
            if hasattr(mod, "replay"):
                mod.replay(ctx, model, case)
            else:
                raise Infra("adapter has no replay()")
        else:
            mod.correspond(ctx, model)
            # 4. known findings ---------------------------------------------------------
            if hasattr(mod, "findings"):
                mod.findings(ctx, model)
            # 5. broken generated obligations -> failing input search ---------------------
            for gmod, desc, log in broken:
                failing = None
                if hasattr(mod, "search"):
                    failing = mod.search(ctx, model, {"module": gmod, "desc": desc, "log": log})
                if failing is not None:
                    ctx.violation({"kind": "failing-input", "obligation": gmod, "desc": desc, "failing": failing}, True,
                                  f"generated obligation {gmod} no longer checks and the property fails on the implementation")
                else:
                    ctx.violation({"kind": "obligation-broken", "no_longer_checks": f"generated obligation {gmod} ({desc})",
                                   "log": log}, False, f"generated obligation {gmod} no longer checks")
            # 6. thorough: unconditional search + leanchecker ------------------------------
            if ctx.thorough:
                if hasattr(mod, "search") and not ctx.violations:
                    failing = mod.search(ctx, model, None)
                    if failing is not None:
                        ctx.violation({"kind": "failing-input", "failing": failing}, True, "oracle search")
                if os.environ.get("VERIF_NO_LEANCHECKER") != "1":
                    t = time.time()
                    rcc, out = common._run(["lake", "env", "leanchecker", *mod.PROP_MODULES], cwd=common.LEAN_DIR, timeout=3600)
                    ctx.extra["leanchecker"] = {"rc": rcc, "wall_s": round(time.time() - t, 1), "tail": out[-300:]}
                    if rcc != 0:
                        print(out[-3000:])
                        raise Infra("leanchecker rejected the compiled property modules")
    except Infra as e:
        print(f"INFRA: {e}", flush=True)
        rc = 2
    except Exception:
        traceback.print_exc()
        print("INFRA: harness exception", flush=True)
        rc = 2
    finally:
        if model is not None:
            model.close()
    if rc == 0 and ctx.violations:
        rc = 1
    if rc != 2 and not replay_file:
        ctx.write_evidence(files)
    print(
        f"[{prop} {tier} seed={seed}] obligations={ctx.obligations} discharged={ctx.discharged} "
        f"evaluations={ctx.evaluations} distinct_nontrivial={len(ctx.nontrivial_keys)} disagreements={len(ctx.disagreements)} "
        f"known={len(ctx.known_hits)} violations={len(ctx.violations)} wall={time.time()-ctx.t0:.1f}s rc={rc}",
        flush=True,
    )
    return rc


if __name__ == "__main__":
    sys.exit(main(sys.argv))
