"""Dense-matrix machinery of the Adjoint engine (property C01).

Every scico LinearOperator (array or BlockArray spaces, real or complex dtypes) is *realified*: a complex
space of size n is viewed as the real space R^{2n} (real parts first, then imaginary parts) and the operator's
`eval` / `adj` closures are evaluated on every real basis vector.  For linear eval/adj (C06) the identity

      Re<A x, y> = Re<x, B y>      for all x, y            (*)

holds iff it holds on all pairs of real basis vectors (Lean: `C01_basis`), i.e. iff
`realmat(B) == realmat(A).T`.  For a C-linear A with C-linear B (*) is equivalent to the complex identity
<Ax,y> = <x,By> (Lean: `C01_re_to_complex`); C-linearity is visible in the realified matrix as the block
structure [[P,-Q],[Q,P]] and is checked here as well.

Nothing in this module knows about the Lean model; it is the implementation-side half of the tie and the oracle.
"""

from __future__ import annotations

import numpy as np

import common

TOL64 = 1e-9
TOL32 = 2e-4


# ----------------------------------------------------------------------------------------------------------
# shapes / flattening


def is_nested(shape):
    return isinstance(shape, (tuple, list)) and len(shape) > 0 and isinstance(shape[0], (tuple, list))


def norm_shape(shape):
    """canonical tuple form (ints may come as numpy ints; MatrixOperator passes a bare int)"""
    if isinstance(shape, (int, np.integer)):
        return (int(shape),)
    if is_nested(shape):
        return tuple(norm_shape(s) for s in shape)
    return tuple(int(s) for s in shape)


def flat_size(shape):
    shape = norm_shape(shape)
    if is_nested(shape):
        return sum(flat_size(s) for s in shape)
    return int(np.prod(shape, dtype=np.int64)) if len(shape) else 1


def is_complex(dt):
    return np.dtype(dt).kind == "c"


def unflatten(vec, shape, dtype):
    """flat numpy vector (complex or real) -> jax array / BlockArray of the given (possibly nested) shape"""
    import jax.numpy as jnp
    import scico.numpy as snp

    shape = norm_shape(shape)
    if is_nested(shape):
        out, k = [], 0
        for s in shape:
            n = flat_size(s)
            out.append(jnp.asarray(np.asarray(vec[k : k + n]).reshape(s), dtype=dtype))
            k += n
        return snp.blockarray(out)
    return jnp.asarray(np.asarray(vec).reshape(shape), dtype=dtype)


def flatten(val):
    """jax array / BlockArray / tuple of arrays -> flat numpy vector"""
    import scico.numpy as snp

    if isinstance(val, snp.BlockArray) or isinstance(val, (tuple, list)):
        return np.concatenate([np.asarray(b).ravel() for b in val]) if len(val) else np.zeros(0)
    return np.asarray(val).ravel()


def shape_of(val):
    import scico.numpy as snp

    if isinstance(val, snp.BlockArray):
        return tuple(tuple(int(d) for d in b.shape) for b in val)
    return tuple(int(d) for d in np.shape(val))


def dtype_of(val):
    import scico.numpy as snp

    if isinstance(val, snp.BlockArray):
        dts = {np.dtype(b.dtype) for b in val}
        return np.dtype(val[0].dtype) if len(dts) == 1 else tuple(sorted(str(d) for d in dts))
    return np.dtype(val.dtype)


# ----------------------------------------------------------------------------------------------------------
# realified matrices


class Dense:
    """result of evaluating one closure on all real basis vectors of its input space"""

    def __init__(self, R, n_in, c_in, n_out, c_out, out_dtype, out_shape):
        self.R = R  # real matrix  (n_out*(2 if c_out) , n_in*(2 if c_in))
        self.n_in, self.c_in, self.n_out, self.c_out = n_in, c_in, n_out, c_out
        self.out_dtype = out_dtype
        self.out_shape = out_shape

    def clinear_defect(self):
        """max deviation from the [[P,-Q],[Q,P]] structure (0 for real->anything)"""
        if not self.c_in:
            return 0.0
        n, m = self.n_in, self.n_out
        if not self.c_out:
            # a map from a complex into a real space (the adjoint of a real->complex operator) can only be
            # real-linear; nothing to check here
            return 0.0
        P, Q = self.R[:m, :n], self.R[m:, :n]
        P2, Q2 = self.R[m:, n:], -self.R[:m, n:]
        return float(max(np.max(np.abs(P - P2), initial=0.0), np.max(np.abs(Q - Q2), initial=0.0)))

    def cmat(self):
        """complex matrix of the map restricted to the (real) basis vectors e_j: out = M @ x for C-linear maps,
        and for real inputs.  shape (n_out, n_in)"""
        n, m = self.n_in, self.n_out
        if self.c_out:
            return self.R[:m, :n] + 1j * self.R[m:, :n]
        return self.R[:m, :n].astype(np.float64)


def dense(fn, in_shape, in_dtype):
    """realified matrix of the closure `fn` on the space (in_shape, in_dtype)"""
    n = flat_size(in_shape)
    c_in = is_complex(in_dtype)
    cols = []
    out_dtype = None
    out_shape = None
    c_out = False
    parts = [1.0, 1j] if c_in else [1.0]
    raw = []
    for ph in parts:
        for j in range(n):
            e = np.zeros(n, dtype=np.complex128 if c_in else np.float64)
            e[j] = ph
            v = fn(unflatten(e, in_shape, in_dtype))
            if out_dtype is None:
                out_dtype = dtype_of(v)
                out_shape = shape_of(v)
            f = flatten(v)
            if np.iscomplexobj(f):
                c_out = True
            raw.append(f)
    m = raw[0].size if raw else 0
    for f in raw:
        if f.size != m:
            raise ValueError("shape: closure returned outputs of different sizes")
    for f in raw:
        if c_out:
            f = f.astype(np.complex128)
            cols.append(np.concatenate([f.real, f.imag]))
        else:
            cols.append(f.astype(np.float64))
    R = np.stack(cols, axis=1) if cols else np.zeros((0, 0))
    return Dense(R, n, c_in, m, c_out, out_dtype, out_shape)


def tol_for(*dtypes):
    t = TOL64
    for d in dtypes:
        if d is None or isinstance(d, tuple):
            continue
        if np.dtype(d) in (np.dtype(np.float32), np.dtype(np.complex64)):
            t = TOL32
    return t


def mat_close(A, B, tol):
    A = np.asarray(A)
    B = np.asarray(B)
    if A.shape != B.shape:
        return False
    if A.size == 0:
        return True
    scale = 1.0 + max(float(np.max(np.abs(A))), float(np.max(np.abs(B))))
    k = max(A.shape)
    return bool(np.max(np.abs(A - B)) <= tol * k * scale)


def realify_like(R_adj, n_rows_real, c_rows):
    return R_adj


# ----------------------------------------------------------------------------------------------------------
# the adjoint check of one operator object


def random_vec(rng, shape, dtype):
    n = flat_size(shape)
    v = common.dyadic(rng, (n,), bits=4, scale=2.0)
    if is_complex(dtype):
        v = v + 1j * common.dyadic(rng, (n,), bits=4, scale=2.0)
    return v


def check_operator(A, rng=None, want_views=False):
    """Evaluate the C01 obligations of the operator object A on the real code.

    Returns a dict:
       ok            True iff every obligation holds
       fails         list of (tag, detail) obligations that failed
       M             complex (or real) matrix of eval on basis vectors     (n_out x n_in)
       N             matrix of adj on basis vectors                        (n_in x n_out)
       meta          declared shapes / dtypes, observed dtypes
    Obligations (all on the implementation):
       adj-accepts      A.adj(y) does not raise for y of the declared output shape and dtype
       adj-accepts-out  A.adj(A(x)) does not raise (the dtype eval really returns is accepted)
       eval-clinear     eval is C-linear when the input dtype is complex
       adjoint          realmat(adj) == realmat(eval)^T   (Re<Ax,y> = Re<x,A^H y> on all basis pairs)
       adj-clinear      adj is C-linear when both spaces are complex
       out-size         outputs have the declared sizes
       eval-faithful    A(x) has the declared output dtype and shape      (hypothesis `Faithful` of C01_adj_total)
       adj-faithful     A.adj(y) has the declared input dtype and shape
    """
    in_shape, out_shape = norm_shape(A.input_shape), norm_shape(A.output_shape)
    in_dt, out_dt = np.dtype(A.input_dtype), np.dtype(A.output_dtype)
    tol = tol_for(in_dt, out_dt)
    tol_decl = tol
    fails = []
    meta = {
        "class": type(A).__name__,
        "input_shape": in_shape,
        "output_shape": out_shape,
        "input_dtype": str(in_dt),
        "output_dtype": str(out_dt),
    }
    res = {"ok": False, "fails": fails, "meta": meta, "M": None, "N": None, "tol": tol}
    if flat_size(in_shape) == 0 or flat_size(out_shape) == 0:
        # an empty space has no basis vectors: the identity is vacuous (both sides are empty sums)
        meta["empty_space"] = True
        res["ok"] = True
        return res
    try:
        DA = dense(A, in_shape, in_dt)
    except Exception as e:  # noqa: BLE001
        fails.append(("eval-raises", f"{common.err_kind(e)}: {str(e)[:200]}"))
        return res
    meta["eval_returns_dtype"] = str(DA.out_dtype)
    # arithmetic precision is that of the values actually returned (x64 promotes float32 inputs in several classes)
    tol = tol_for(DA.out_dtype)
    meta["eval_returns_shape"] = DA.out_shape
    res["M"] = DA.cmat()
    if DA.n_out != flat_size(out_shape):
        fails.append(("out-size", f"eval returned {DA.n_out} entries, declared output_shape {out_shape}"))
        return res
    # hypothesis `Faithful` of theorem C01_adj_total, eval half: the declared output dtype and shape are returned
    if isinstance(DA.out_dtype, tuple) or np.dtype(DA.out_dtype) != out_dt or norm_shape(DA.out_shape) != out_shape:
        fails.append(("eval-faithful", f"eval returns {DA.out_dtype} {DA.out_shape}, declared {out_dt} {out_shape}"))
    if DA.clinear_defect() > tol * (1 + np.max(np.abs(DA.R), initial=0.0)):
        fails.append(("eval-clinear", f"defect {DA.clinear_defect():.3e}"))
    # adj on conforming inputs: declared output dtype and shape
    try:
        DB = dense(A.adj, out_shape, out_dt)
    except Exception as e:  # noqa: BLE001
        fails.append(("adj-accepts", f"{common.err_kind(e)}: {str(e)[:200]}"))
        return res
    meta["adj_returns_dtype"] = str(DB.out_dtype)
    tol = max(tol, tol_for(DB.out_dtype))
    res["tol"] = tol
    meta["adj_returns_shape"] = DB.out_shape
    res["N"] = DB.cmat()
    if DB.n_out != flat_size(in_shape):
        fails.append(("out-size", f"adj returned {DB.n_out} entries, declared input_shape {in_shape}"))
        return res
    # `Faithful`, adj half: adj returns an array of the declared input dtype and shape
    if isinstance(DB.out_dtype, tuple) or np.dtype(DB.out_dtype) != in_dt or norm_shape(DB.out_shape) != in_shape:
        fails.append(("adj-faithful", f"adj returns {DB.out_dtype} {DB.out_shape}, declared input {in_dt} {in_shape}"))
    # the dtype eval really returns must be accepted too (G.adj(G(x)))
    if rng is not None:
        try:
            x = unflatten(random_vec(rng, in_shape, in_dt), in_shape, in_dt)
            A.adj(A(x))
        except Exception as e:  # noqa: BLE001
            fails.append(("adj-accepts-out", f"{common.err_kind(e)}: {str(e)[:200]}"))
    # realified adjoint identity on all basis pairs
    RA = DA.R  # (mo , ni)    mo = n_out*(2 if DA.c_out), ni = n_in*(2 if c_in)
    RB = DB.R  # (ni', mo')
    n, m = DA.n_in, DA.n_out
    # bring both to the realification determined by the *declared* complexness of the two spaces
    cin, cout = is_complex(in_dt), is_complex(out_dt)
    RAf = _fit(RA, m, DA.c_out, cout, n, DA.c_in)
    RBf = _fit(RB, n, DB.c_out, cin, m, DB.c_in)
    if RAf is None:
        fails.append(("eval-dtype", f"eval returns complex values for a declared real output ({DA.out_dtype})"))
        return res
    if RBf is None:
        # adj returns complex although the input space is real: only the real part enters Re<x, adj y>
        RBf = RB[:n, :]
        meta["adj_returns_complex_for_real_space"] = True
    if not mat_close(RBf, RAf.T, tol):
        d = np.abs(RBf - RAf.T)
        i, j = np.unravel_index(int(np.argmax(d)), d.shape)
        fails.append(("adjoint", f"max |realmat(adj) - realmat(eval)^T| = {d.max():.3e} at real basis pair (x:{int(i)}, y:{int(j)})"))
    if cin and cout and DB.clinear_defect() > tol * (1 + np.max(np.abs(DB.R), initial=0.0)):
        fails.append(("adj-clinear", f"defect {DB.clinear_defect():.3e}"))
    res["RA"], res["RB"] = RAf, RBf
    res["ok"] = not fails
    return res


def _fit(R, rows, c_rows_obs, c_rows_decl, cols, c_cols):
    """pad the observed realification (rows) to the declared one: a real-valued output in a declared complex
    space gets zero imaginary rows; a complex-valued output in a declared real space -> None"""
    if c_rows_obs == c_rows_decl:
        return R
    if c_rows_decl and not c_rows_obs:
        return np.concatenate([R, np.zeros_like(R)], axis=0)
    # observed complex, declared real
    if np.max(np.abs(R[rows:, :]), initial=0.0) == 0.0:
        return R[:rows, :]
    return None


def identity_on_random(A, rng, k=3):
    """the property oracle proper: Re<Ax,y> vs Re<x, A.adj y> on random dyadic x, y.  Returns failing dict|None"""
    in_shape, out_shape = norm_shape(A.input_shape), norm_shape(A.output_shape)
    in_dt, out_dt = np.dtype(A.input_dtype), np.dtype(A.output_dtype)
    tol = tol_for(in_dt, out_dt)
    for _ in range(k):
        xv = random_vec(rng, in_shape, in_dt)
        yv = random_vec(rng, out_shape, out_dt)
        try:
            Ax = flatten(A(unflatten(xv, in_shape, in_dt)))
        except Exception as e:  # noqa: BLE001
            return {"x": _js(xv), "eval_raised": repr(e)[:300]}
        try:
            By = flatten(A.adj(unflatten(yv, out_shape, out_dt)))
        except Exception as e:  # noqa: BLE001
            return {"y": _js(yv), "y_dtype": str(out_dt), "adj_raised": repr(e)[:300]}
        if Ax.size != yv.size or By.size != xv.size:
            return {"x": _js(xv), "y": _js(yv), "Ax_size": int(Ax.size), "adj_y_size": int(By.size),
                    "declared": [list(map(str, (in_shape, out_shape)))]}
        lhs = np.sum(Ax * np.conj(yv))
        rhs = np.sum(xv * np.conj(By))
        if is_complex(in_dt) and is_complex(out_dt):
            bad = abs(lhs - rhs) > tol * max(xv.size, yv.size) * (1 + abs(lhs) + abs(rhs))
        else:
            bad = abs(lhs.real - rhs.real) > tol * max(xv.size, yv.size) * (1 + abs(lhs) + abs(rhs))
        if bad:
            return {"x": _js(xv), "y": _js(yv), "<Ax,y>": _jc(lhs), "<x,A^H y>": _jc(rhs)}
    return None


def _jc(z):
    z = complex(z)
    return [z.real, z.imag]


def _js(v):
    v = np.asarray(v)
    if np.iscomplexobj(v):
        return [[float(a.real), float(a.imag)] for a in v]
    return [float(a) for a in v]
