"""Translator of the OpAlg engine (C05 / C12): tables read from the scico sources with `ast` (nothing is imported or
executed) -> lean/Scico/Generated/OpAlgTables.lean.

1. OVERRIDE TABLE.  For each operator class of the model (Operator, LinearOperator, ComposedLinearOperator, Diagonal,
   ScaledIdentity, Identity, MatrixOperator, Convolve, CircularConvolve, the three linop stacks): its base classes and,
   for every arithmetic / view method it defines in its own body, the decorator it is wrapped with.
2. DISPATCH LADDERS.  The wrappers `_wrap_add_sub`, `_wrap_mul_div_scalar`, `_wrap_add_sub_matrix`: the pre-order list of
   their tests (`if` conditions) and leaves (`return` / `raise` statements), ast-normalised source text.
3. CONSTRUCTOR ARGUMENTS.  For every derived constructor call (`return LinearOperator(...)`, `super().__init__(...)`, ...)
   inside those methods: the expressions passed as input_shape / output_shape / input_dtype / output_dtype, as terms of a
   small expression language (attribute of self / other, result_type, names; anything else as normalised text).

The generated module states ONE obligation `src = Scico.OpAlg.Tables.model` closed by `decide +kernel`; the hand-written
module Scico/Model/OpAlgTables.lean holds `model` and derives the dispatch data of the model from it
(Scico/Proofs/OpAlgTables.lean: `Cls.arith`, `Cls.isSub`, the metadata rules of the generic constructors).
"""

from __future__ import annotations

import ast

import common

OUT = common.LEAN_DIR / "Scico" / "Generated" / "OpAlgTables.lean"

# (model tag, file, class)
CLASSES = [
    ("op", "scico/operator/_operator.py", "Operator"),
    ("linop", "scico/linop/_linop.py", "LinearOperator"),
    ("composed", "scico/linop/_linop.py", "ComposedLinearOperator"),
    ("diag", "scico/linop/_diag.py", "Diagonal"),
    ("scaledId", "scico/linop/_diag.py", "ScaledIdentity"),
    ("ident", "scico/linop/_diag.py", "Identity"),
    ("matrix", "scico/linop/_matrix.py", "MatrixOperator"),
    ("convolve", "scico/linop/_convolve.py", "Convolve"),
    ("circconv", "scico/linop/_circconv.py", "CircularConvolve"),
    ("vstack", "scico/linop/_stack.py", "VerticalStack"),
    ("dstack", "scico/linop/_stack.py", "DiagonalStack"),
    ("drep", "scico/linop/_stack.py", "DiagonalReplicated"),
    ("opvstack", "scico/operator/_stack.py", "VerticalStack"),
    ("opdstack", "scico/operator/_stack.py", "DiagonalStack"),
    ("opdrep", "scico/operator/_stack.py", "DiagonalReplicated"),
]
METHODS = ["__call__", "__add__", "__sub__", "__radd__", "__rsub__", "__neg__", "__mul__", "__rmul__", "__truediv__", "__rtruediv__",
           "__matmul__", "__rmatmul__", "adj", "T", "H", "conj", "gram_op", "_adj", "_eval", "__init__", "freeze"]
WRAPPERS = [("scico/linop/_linop.py", "_wrap_add_sub"), ("scico/operator/_operator.py", "_wrap_mul_div_scalar"),
            ("scico/linop/_matrix.py", "_wrap_add_sub_matrix")]
# methods whose derived-constructor calls are tabulated
CTOR_METHODS = {
    "op": ["__call__", "__add__", "__sub__", "__mul__", "__rmul__", "__truediv__", "freeze"],
    "linop": ["__add__", "__sub__", "__mul__", "__truediv__", "T", "H", "conj", "gram_op"],
    "composed": ["__init__"],
    "diag": ["__init__", "T", "conj", "H", "gram_op", "__add__", "__sub__", "__mul__", "__truediv__", "__matmul__"],
    "scaledId": ["__init__", "conj", "gram_op", "__add__", "__sub__", "__mul__", "__truediv__", "__matmul__"],
    "ident": ["__init__"],
    "matrix": ["__init__", "__call__"],
    "convolve": ["__init__", "__add__", "__sub__", "__mul__", "__truediv__"],
    "circconv": ["__add__", "__sub__", "__mul__", "__truediv__"],
    "opvstack": ["__init__"],
    "opdstack": ["__init__"],
    "opdrep": ["__init__"],
}
CTOR_KEYS = ["input_shape", "output_shape", "input_dtype", "output_dtype"]


class Untranslatable(common.Infra):
    pass


def _parse(rel):
    p = common.REPO / rel
    try:
        return ast.parse(p.read_text())
    except (OSError, SyntaxError) as ex:
        raise Untranslatable(f"{rel}: {ex}")


def _unparse(n):
    return ast.unparse(n).replace("\n", " ")


def _decorator(fn):
    """normalised decorator of a method: '' | 'property' | '_wrap_add_sub' | 'partial(_wrap_add_sub_matrix,op=operator.add)'"""
    out = []
    for d in fn.decorator_list:
        out.append(_unparse(d).replace(" ", ""))
    return "+".join(out)


def override_table():
    rows = []
    trees = {}
    for tag, rel, cname in CLASSES:
        tree = trees.setdefault(rel, _parse(rel))
        cls = next((n for n in tree.body if isinstance(n, ast.ClassDef) and n.name == cname), None)
        if cls is None:
            raise Untranslatable(f"class {cname} not found in {rel}")
        bases = [_unparse(b) for b in cls.bases]
        defs = []
        for n in cls.body:
            if isinstance(n, ast.FunctionDef) and n.name in METHODS:
                defs.append((n.name, _decorator(n)))
        defs.sort(key=lambda d: METHODS.index(d[0]))
        rows.append((tag, cname, bases, defs))
    return rows, trees


def _ladder(stmts, out):
    """pre-order list of tests and leaves of a statement list"""
    for s in stmts:
        if isinstance(s, ast.If):
            out.append("if " + _unparse(s.test))
            _ladder(s.body, out)
            if s.orelse:
                out.append("else")
                _ladder(s.orelse, out)
            out.append("end")
        elif isinstance(s, ast.Return):
            out.append("return " + (_unparse(s.value) if s.value is not None else ""))
        elif isinstance(s, ast.Raise):
            exc = s.exc
            name = _unparse(exc.func) if isinstance(exc, ast.Call) else _unparse(exc)
            out.append("raise " + name)
        elif isinstance(s, ast.Assign):
            out.append(_unparse(s))
        elif isinstance(s, ast.Expr) and isinstance(s.value, ast.Constant):
            continue  # docstring
        else:
            out.append(_unparse(s))


def ladders(trees):
    res = []
    for rel, fname in WRAPPERS:
        tree = trees.setdefault(rel, _parse(rel))
        fn = next((n for n in tree.body if isinstance(n, ast.FunctionDef) and n.name == fname), None)
        if fn is None:
            raise Untranslatable(f"{fname} not found in {rel}")
        inner = next((n for n in fn.body if isinstance(n, ast.FunctionDef) and n.name == "wrapper"), None)
        if inner is None:
            raise Untranslatable(f"{fname}: no inner wrapper")
        out = []
        _ladder(inner.body, out)
        res.append((fname, out))
    return res


def _se(n):
    """expression -> term of the small expression language (Lean `SE`)"""
    if n is None:
        return ("absent",)
    if isinstance(n, ast.Attribute) and isinstance(n.value, ast.Name):
        return ("attr", n.value.id, n.attr)
    if isinstance(n, ast.Attribute) and isinstance(n.value, ast.Attribute) and isinstance(n.value.value, ast.Name):
        return ("attr", n.value.value.id + "." + n.value.attr, n.attr)
    if isinstance(n, ast.Name):
        return ("name", n.id)
    if isinstance(n, ast.Constant) and n.value is None:
        return ("none",)
    if isinstance(n, ast.Call) and isinstance(n.func, ast.Name) and n.func.id == "result_type" and len(n.args) == 2 and not n.keywords:
        return ("rt", _se(n.args[0]), _se(n.args[1]))
    return ("raw", _unparse(n))


def ctor_table(trees):
    """every derived-constructor call of the tabulated methods, in source order"""
    rows = []
    for tag, rel, cname in CLASSES:
        if tag not in CTOR_METHODS:
            continue
        tree = trees.setdefault(rel, _parse(rel))
        cls = next(n for n in tree.body if isinstance(n, ast.ClassDef) and n.name == cname)
        for mname in CTOR_METHODS[tag]:
            fn = next((n for n in cls.body if isinstance(n, ast.FunctionDef) and n.name == mname), None)
            if fn is None:
                continue
            idx = 0
            calls = [c for c in ast.walk(fn) if isinstance(c, ast.Call)]
            calls.sort(key=lambda c: (c.lineno, c.col_offset))
            for c in calls:
                f = c.func
                ctor = None
                if isinstance(f, ast.Name) and f.id in ("Operator", "LinearOperator", "ComposedLinearOperator", "Diagonal", "ScaledIdentity",
                                                        "Identity", "MatrixOperator", "Convolve", "CircularConvolve"):
                    ctor = f.id
                elif isinstance(f, ast.Attribute) and f.attr == "__init__" and isinstance(f.value, ast.Call) and _unparse(f.value.func) == "super":
                    ctor = "super().__init__"
                if ctor is None:
                    continue
                kw = {k.arg: k.value for k in c.keywords if k.arg}
                if not (set(kw) & set(CTOR_KEYS)) and ctor not in ("MatrixOperator", "ComposedLinearOperator"):
                    # positional forms of the generic constructors do not occur in the tabulated methods
                    if ctor in ("Operator", "LinearOperator"):
                        raise Untranslatable(f"{cname}.{mname}: positional constructor call {_unparse(c)}")
                extra = {}
                if ctor in ("Diagonal", "ScaledIdentity", "MatrixOperator", "Convolve", "CircularConvolve"):
                    for k in ("diagonal", "scalar", "A", "h", "input_cols", "ndims", "mode"):
                        if k in kw:
                            extra[k] = _unparse(kw[k])
                    if ctor == "MatrixOperator" and c.args:
                        extra["A"] = _unparse(c.args[0])
                if ctor == "ComposedLinearOperator":
                    extra["args"] = ", ".join(_unparse(a) for a in c.args)
                rows.append((tag, cname, mname, idx, ctor, [_se(kw.get(k)) for k in CTOR_KEYS], sorted(extra.items())))
                idx += 1
    return rows


# ----------------------------------------------------------------------------- Lean emission


def _s(x):
    return '"' + x.replace("\\", "\\\\").replace('"', '\\"') + '"'


def _lean_se(t):
    k = t[0]
    if k == "absent":
        return ".absent"
    if k == "none":
        return ".none"
    if k == "attr":
        return f"(.attr {_s(t[1])} {_s(t[2])})"
    if k == "name":
        return f"(.name {_s(t[1])})"
    if k == "rt":
        return f"(.rt {_lean_se(t[1])} {_lean_se(t[2])})"
    return f"(.raw {_s(t[1])})"


def tables():
    ov, trees = override_table()
    return ov, ladders(trees), ctor_table(trees)


def lean_tables(name="src"):
    ov, lad, ct = tables()
    L = []
    L.append(f"def {name} : Tables :=")
    L.append("  { classes := [")
    L.append(",\n".join(
        f"      ⟨{_s(tag)}, {_s(cn)}, [{', '.join(_s(b) for b in bases)}], [{', '.join('(' + _s(m) + ', ' + _s(d) + ')' for m, d in defs)}]⟩"
        for tag, cn, bases, defs in ov))
    L.append("    ],")
    L.append("    ladders := [")
    L.append(",\n".join(f"      ({_s(fn)}, [{', '.join(_s(x) for x in out)}])" for fn, out in lad))
    L.append("    ],")
    L.append("    ctors := [")
    L.append(",\n".join(
        f"      ⟨{_s(tag)}, {_s(mn)}, {idx}, {_s(ctor)}, {_lean_se(se[0])}, {_lean_se(se[1])}, {_lean_se(se[2])}, {_lean_se(se[3])}, "
        f"[{', '.join('(' + _s(k) + ', ' + _s(v) + ')' for k, v in extra)}]⟩"
        for tag, cn, mn, idx, ctor, se, extra in ct))
    L.append("    ] }")
    return "\n".join(L)


def generate():
    body = lean_tables("src")
    txt = (
        "/- GENERATED by harness/opalg_translate.py from scico/operator/_operator.py, scico/operator/_stack.py, scico/linop/_linop.py,\n"
        "   _diag.py, _matrix.py, _convolve.py, _circconv.py, _stack.py — rewritten on every run, do not edit. -/\n"
        "import Scico.Model.OpAlgTables\n\n"
        "namespace Scico.Generated.OpAlgTables\nopen Scico.OpAlg.Tables\n\n" + body + "\n\n"
        "/-- the override table, the dispatch ladders of the three wrappers and the shape / dtype arguments of every derived\n"
        "    constructor, as read from the source, are the tables the model is written against (`Scico.OpAlg.Tables.model`),\n"
        "    from which `Cls.arith`, `Cls.isSub` and the metadata rules of the generic constructors are derived\n"
        "    (Scico/Proofs/OpAlgTables.lean) -/\n"
        "theorem tables_ok : src = model := by decide +kernel\n\n"
        "end Scico.Generated.OpAlgTables\n"
    )
    OUT.parent.mkdir(parents=True, exist_ok=True)
    if not OUT.exists() or OUT.read_text() != txt:
        OUT.write_text(txt)
    return txt


def diff_against_model():
    """lines of the tables read from the working tree that differ from `Scico.OpAlg.Tables.model` (for the report)"""
    model_file = common.LEAN_DIR / "Scico" / "Model" / "OpAlgTables.lean"
    have = set(l.strip().rstrip(",") for l in model_file.read_text().splitlines())
    out = []
    for l in lean_tables("model").splitlines():
        t = l.strip().rstrip(",")
        if t and t not in have:
            out.append(t[:400])
    return out


def adapter_generate(ctx):
    generate()
    d = diff_against_model()
    ctx.extra["source_tables"] = {"classes": len(CLASSES), "wrappers": [w for _, w in WRAPPERS], "rows_differing_from_model": d}
    if d:
        print("opalg_translate: the source tables differ from the model's tables in:", flush=True)
        for l in d[:12]:
            print("   ", l, flush=True)
    return [("Scico.Generated.OpAlgTables",
             "override table (which class defines which arithmetic / view method, with which decorator), decision ladders of "
             "_wrap_add_sub / _wrap_mul_div_scalar / _wrap_add_sub_matrix, and the shape / dtype arguments of every derived "
             "constructor equal the tables the model's dispatch and metadata rules are derived from")]


if __name__ == "__main__":
    print(lean_tables("model"))
