"""C06 - everything presented as a linear operator is linear  (engine Jaxpr, DESIGN §5.6).

Tie = TRANSLATION.  `generate()` regenerates, from the working tree of the code under test, the JAX-traced program of
every linear operator's forward map, adjoint, Gram map and T / H / conj views into `lean/Scico/Generated/Jaxprs_*.lean`;
Lean re-checks the decidable obligation `check prog = linC|antiC|linR` on each; the theorem `C06_check_sound`
(proved once, `lean/Scico/Props/C06.lean`) lifts it to "linear for all inputs and all scalars".

`correspond()` is the sanity stream of that tie:
  1. corpus (regression inputs: negative entries, large magnitudes, offsets) on the real operators,
  2. the Python mirror of the checker (which picks the emitted tags) against the Lean checker on every program,
  3. direct numerical probes A(a x + b y) = a A(x) + b A(y), A(0) = 0 on every enumerated operator view (dyadic data,
     complex scalars for operators over C), followed by the same evaluations on ONE NumPy buffer that is reused and
     overwritten in place between the calls (object-identity reuse: an operator that remembers an earlier argument
     object returns stale values), compared with fresh arrays,
  4. random scalar programs executed by the Lean semantics `run` versus an independent Python evaluation, and the
     checker's verdict against the numerical behaviour of those programs (soundness seen at run time),
  5. random JAX functions (linear and non-linear building blocks) traced, translated and judged by the Lean checker
     versus their numerical linearity (the trusted primitive table exercised in both directions),
  6. the trusted primitive table entry by entry (harness/jaxpr_table.py): the class fact of every primitive instance
     (static parameters, shapes, constant index / predicate operands) is tested on the JAX primitive itself - hand-made
     coverage functions with adversarial parameters, the instances of the operator programs of this run (in situ), and
     falsified entries as negative controls,
  7. translator fidelity: translated programs executed equation by equation with the real JAX primitives
     (`jaxpr_table.ir_eval`) against the operator they were translated from - inlining, constant folding, unrolling of
     scan / while / cond, pmap boundaries are exercised, not trusted,
  8. family tie: for the structural primitives (add, sub, neg, slice, pad, concatenate, reduce_sum, cumsum, rev,
     broadcast_in_dim, transpose, reshape, squeeze, select_n, dynamic_slice, ...) the JAX primitive instance equals,
     exactly on dyadic operands, the Lean sparse-matrix map `applyDescG rows` that is PROVED linear
     (Proofs/JaxprArray.lean), with `rows` computed from the static parameters (harness/jaxpr_family.py),
  9. whole programs under the proved family (round 3): Lean's `run` with the interpretation `famDen` - sparse matrices,
     sparse bilinear forms (mul / dot_general / conv), quotients, real parts, conjugation; sound at C for EVERY table
     (Proofs/JaxprFamily.lean) - executed at complex floats must reproduce the operator; the evidence reports how many
     translated programs consist of family instances only ("proved outright") versus "proved given the primitive table".
`search()` looks for a concrete failing (x, y, a, b) on the real operator of a broken obligation.
"""

from __future__ import annotations

import hashlib
import json

import numpy as np

import common
import jaxpr_ir as ir
import jaxpr_ops as ops
import translate_jaxpr as tr

PROP = "C06"
CLAIMED = True
ENGINE = "Jaxpr"
DESIGN_REF = "DESIGN.md §5.6"
TECHNIQUE = (
    "Lean 4 proof of soundness of a structural linearity checker over traced JAX programs (induction over the equation "
    "list) + translator that regenerates every operator's traced forward/adjoint/Gram/T/H programs each run and has "
    "Lean decide the structural obligation on them"
)
LEVEL_TEXT = (
    "Lean theorem C06_check_sound: for every interpretation of the JAX primitives satisfying the stated per-class facts "
    "(jointly linear / bilinear / linear in the numerator / real-linear / conjugate-linear), any traced program of any "
    "length that the checker tags linC (linR, antiC) denotes a map with f(a x + b y) = a f x + b f y for all inputs and "
    "all complex (real) scalars and f 0 = 0. The programs are regenerated from /repo on every run and the checker is "
    "evaluated on them inside Lean (decide). Corollaries: a linear map on K^n is determined by the basis, is a matrix."
)
LEVEL_NOTE = (
    "Trusted: Lean kernel + Mathlib (propext, Classical.choice, Quot.sound); the per-primitive class table of "
    "harness/jaxpr_ir.py (= hypotheses Interp.Sound); jax.make_jaxpr renders what the operator computes; the translator's "
    "numerical evaluation of input-independent sub-terms (decides isZero of literals). The theorem is per traced program: "
    "shapes/configurations are sampled (quick) or the whole grid of harness/opgrid.py (thorough). Floating-point rounding "
    "is outside. astra/svmbir back-ends are not installed and not covered."
)
PROP_MODULES = ["Scico.Props.C06"]
EXTRA_TARGETS = ["Drv.Jaxpr"]
DRIVER = "Jaxpr"
FILES = [
    "scico/linop/_linop.py", "scico/_autograd.py", "scico/linop/_func.py", "scico/linop/_diff.py", "scico/linop/_circconv.py",
    "scico/linop/_convolve.py", "scico/linop/_dft.py", "scico/linop/_diag.py", "scico/linop/_matrix.py", "scico/linop/_stack.py",
    "scico/operator/_stack.py", "scico/linop/_grad.py", "scico/linop/_util.py", "scico/linop/abel.py", "scico/linop/optics.py",
    "scico/linop/xray/_xray.py", "scico/functional/_tvnorm.py",
]
RULE = (
    "operator views: every class of harness/opgrid.py + derived/Jacobian/TVNorm-auxiliary/generic operators "
    "(harness/jaxpr_ops.py); quick = seeded sample of configurations per class (every class) with eval, adj and one more "
    "seeded view, thorough = whole grid with eval, adj, gram, T, H, conj, gram_op, T.adj, H.adj. One case = one numerical probe "
    "of one view; distinct by (class, view, configuration); non-trivial when the view's output on the probe is not "
    "identically zero. Synthetic programs / functions: distinct by their IR; non-trivial when input-dependent."
)
ASSUMPTIONS = [
    "per-primitive class table (harness/jaxpr_ir.py): add/sub/neg/concatenate/pad/slice/reshape/broadcast/transpose/rev/"
    "reduce_sum/cumsum/fft/convert_element_type/copy and gather/scatter(-add)/dynamic_slice/select_n with input-independent "
    "indices/predicate are jointly linear in their data operands; mul/dot_general/conv_general_dilated are bilinear; div is "
    "linear in the numerator; real/imag are R-linear; conj is conjugate-linear",
    "jax.make_jaxpr returns the program the operator executes (tracing with zeros of the declared shape and dtype)",
    "input-independent sub-terms are evaluated numerically by the translator to decide which literals are zero",
]

PER_CLASS_QUICK = 4
FIDELITY_SHARE_QUICK = 0.06  # share of the (distinct) translated programs executed through the IR in the quick tier
FIDELITY_SHARE_THOROUGH = 0.1
NBUCKETS_QUICK = 8
NBUCKETS_THOROUGH = 16

_STATE = {}

KNOWN_CROP = "crop-adj-not-traceable"
KNOWN_PAD = "pad-nonlinear-options"
KNOWN_JAC = "jacobian-include-eval-affine"
KNOWN_SUM = ops.KNOWN_SUM_INITIAL
KNOWN_CCRO = ops.KNOWN_CIRCCONV_REAL_OUT


# ---------------------------------------------------------------------------------------------------------------
# numerical probes on the real operators


def _tol(dt):
    return 2e-4 if np.dtype(dt).itemsize <= (8 if np.issubdtype(np.dtype(dt), np.complexfloating) else 4) else 1e-9


def _wide(dt):
    dt = np.dtype(dt)
    return dt.itemsize >= (16 if np.issubdtype(dt, np.complexfloating) else 8)


def _rand_leaf(rng, shape, dt, mode):
    cplx = np.issubdtype(np.dtype(dt), np.complexfloating)
    a = common.dyadic(rng, shape, bits=3, scale=4.0)
    if cplx:
        a = a + 1j * common.dyadic(rng, shape, bits=3, scale=4.0)
    if mode == "negative":
        a = -np.abs(a.real) - (1j * np.abs(a.imag) if cplx else 0) - 0.125
    elif mode == "large":
        a = a * 1024.0
    elif mode == "tiny":  # magnitudes far below any plausible threshold ("flush small values", eps-regularised divisions)
        a = a * (2.0 ** -120 if _wide(dt) else 2.0 ** -60)  # (single precision: stay clear of denormals)
    elif mode == "small":
        a = a * (2.0 ** -60 if _wide(dt) else 2.0 ** -30)
    elif mode == "basis":
        b = np.zeros(int(np.prod(shape)) if len(shape) else 1, dtype=a.dtype)
        if b.size:
            b[int(rng.integers(0, b.size))] = -2.0
        a = b.reshape(shape)
    elif mode == "ones":
        a = np.ones(shape, dtype=a.dtype)
    elif mode == "nan":
        b = a.ravel().copy()
        if b.size:
            b[int(rng.integers(0, b.size))] = np.nan
        a = b.reshape(shape)
    return a.astype(dt)


def _scalar(rng, cplx):
    s = float(common.dyadic(rng, (), bits=2, scale=3.0))
    if s == 0.0:
        s = -1.5
    if cplx:
        t = float(common.dyadic(rng, (), bits=2, scale=3.0))
        return complex(s, t if t != 0.0 else 0.75)
    return s


def _apply(fn, shp, leaves):
    import jax.numpy as jnp

    return ops.unpack(fn(ops.pack(shp, [jnp.asarray(l) for l in leaves])))


def _lin_defect(lhs, rhs, nan_ok=False, relative=False):
    """max over leaves of |lhs-rhs| / (1 + max|lhs|,|rhs|)   (relative=True: / max|lhs|,|rhs| - for tiny magnitudes)"""
    worst = 0.0
    for l, r in zip(lhs, rhs):
        l = np.asarray(l)
        r = np.asarray(r)
        if l.shape != r.shape:
            return float("inf")
        if l.size == 0:
            continue
        if nan_ok:
            # NaN probe: both sides must be non-finite at the same places and agree elsewhere
            fl, fr = np.isfinite(l), np.isfinite(r)
            if not np.array_equal(fl, fr):
                return float("inf")
            l, r = np.where(fl, l, 0), np.where(fr, r, 0)
        sc = max(float(np.max(np.abs(l))), float(np.max(np.abs(r))))
        if relative and sc == 0.0:
            continue
        sc = sc if relative else 1.0 + sc
        d = float(np.max(np.abs(l.astype(np.complex128) - r.astype(np.complex128)))) / sc
        if not np.isfinite(d):
            return float("inf")
        worst = max(worst, d)
    return worst


def _inplace_sequence(fn, shp, dt, x, y, a, b, tol, fresh_results=None):
    """History probe with object-identity reuse: ONE NumPy buffer per leaf is handed to the operator again and again
    and overwritten IN PLACE between the calls (x, y, a x + b y, 0, then x and 2 x); every result must equal the result
    on a fresh array with the same values, and the buffer results must satisfy the property themselves.  An operator
    that remembers the argument object of an earlier call (memoisation keyed on identity, a kept reference to the input)
    returns stale values here although every single call on fresh / immutable arrays is correct.
    -> (failing dict | None, status)"""
    shapes = ops.leaf_shapes(shp)
    z = [(a * xi + b * yi).astype(dt) for xi, yi in zip(x, y)]
    zero = [np.zeros(s, dtype=dt) for s in shapes]
    two_x = [(2 * xi).astype(dt) for xi in x]
    buf = [np.array(xi, dtype=dt, copy=True) for xi in x]
    nested = ops.is_nested(shp)  # a BlockArray copies its blocks into jax arrays: repacked per call (no identity reuse)

    def call():
        return [np.array(r, copy=True) for r in ops.unpack(fn(ops.pack(shp, buf) if nested else buf[0]))]  # buf[0]: the very same object every time

    def refill(vals, scale=None):
        if scale is not None:
            for b_ in buf:
                b_ *= scale
            return
        for b_, v in zip(buf, vals):
            b_[...] = v

    try:
        got = {}
        got["x"] = call()
        refill(y)
        got["y"] = call()
        refill(z)
        got["a x + b y"] = call()
        refill(zero)
        got["0"] = call()
        refill(x)
        got["x again"] = call()
        refill(None, scale=2)
        got["2 x (buffer scaled in place)"] = call()
    except Exception as e:  # noqa: BLE001  (the operator does not take NumPy arrays: nothing to observe)
        return None, "numpy-argument-raises:" + type(e).__name__
    fresh = {"x": x, "y": y, "a x + b y": z, "0": zero, "x again": x, "2 x (buffer scaled in place)": two_x}

    def enc(ls):
        return [{"shape": list(np.shape(l)), "re": np.real(l).ravel().tolist(), "im": (np.imag(l).ravel().tolist() if np.iscomplexobj(l) else None)} for l in ls]

    have = dict(fresh_results or {})  # evaluations on fresh arrays already taken by the caller (x, y, a x + b y, 0)
    if "x" in have:
        have["x again"] = have["x"]
    for step, vals in fresh.items():
        ref = have[step] if step in have else _apply(fn, shp, vals)
        d = _lin_defect(got[step], ref)
        if d > 8 * tol:
            return {"what": f"A(reused buffer holding {step}) != A(fresh array with the same values)", "step": step, "defect": d, "tol": tol, "mode": "inplace",
                    "a": [float(np.real(a)), float(np.imag(a))], "b": [float(np.real(b)), float(np.imag(b))], "x": enc(x), "y": enc(y),
                    "lhs": enc(got[step]), "rhs": enc(ref)}, "stale"
    rhs = [a * p + b * q for p, q in zip(got["x"], got["y"])]
    if _lin_defect(got["a x + b y"], rhs) > 8 * tol or any(np.any(np.asarray(p) != 0) for p in got["0"]):
        return {"what": "the property fails on a reused buffer", "mode": "inplace", "a": [float(np.real(a)), float(np.imag(a))], "b": [float(np.real(b)), float(np.imag(b))],
                "x": enc(x), "y": enc(y), "lhs": enc(got["a x + b y"]), "rhs": enc(rhs)}, "stale"
    return None, "ok" if not nested else "ok-blockarray-repacked"


LONG_HISTORY_CLASSES = {"NoJit", "XRayTransform3D", "AbelTransform", "OutsideLinop"}  # operators whose Python code runs at every call
LONG_HISTORY_CALLS = 14


def _long_history(fn, shp, dt, rng, x, y, a, b, tol, fresh_results=None):
    """Longer call histories for operators whose Python code runs at every call: a seeded schedule of
    LONG_HISTORY_CALLS calls over TWO reused NumPy buffers and fresh jax arrays, holding one of six values
    (x, y, a x + b y, 0, 2 x, -y), buffers overwritten in place, values revisited (the same value in another object, the
    same object with another value, the same object and value twice in a row); every call is compared with the
    evaluation of that value on a fresh array taken BEFORE the schedule.  -> failing dict | None"""
    import jax.numpy as jnp

    if ops.is_nested(shp):
        return None
    vals = {"x": x[0], "y": y[0], "a x + b y": (a * x[0] + b * y[0]).astype(dt), "0": np.zeros_like(x[0]), "2 x": (2 * x[0]).astype(dt), "-y": (-y[0]).astype(dt)}
    have = fresh_results or {}
    ref = {k: (have[k][0] if k in have else _apply(fn, shp, [v])[0]) for k, v in vals.items()}
    bufs = {"A": np.array(x[0], copy=True), "B": np.array(y[0], copy=True)}
    names = list(vals)
    trail = []
    last = None
    for step in range(LONG_HISTORY_CALLS):
        which = ("A", "B", "fresh")[int(rng.integers(0, 3))]
        if last is not None and rng.random() < 0.2:
            which, vn = last  # the same object holding the same value again
        else:
            vn = names[int(rng.integers(0, len(names)))]
        if which == "fresh":
            arg = jnp.asarray(vals[vn])
        else:
            bufs[which][...] = vals[vn]
            arg = bufs[which]
        last = (which, vn)
        trail.append(f"{which}:{vn}")
        got = np.array(ops.unpack(fn(arg))[0], copy=True)
        d = _lin_defect([got], [ref[vn]])
        if d > 8 * tol:
            def enc(ls):
                return [{"shape": list(np.shape(l)), "re": np.real(l).ravel().tolist(), "im": (np.imag(l).ravel().tolist() if np.iscomplexobj(l) else None)} for l in ls]

            return {"what": f"call {step + 1} of a history (object {which} holding {vn}) != the value on a fresh array", "history": trail, "defect": d, "tol": tol, "mode": "history",
                    "a": [float(np.real(a)), float(np.imag(a))], "b": [float(np.real(b)), float(np.imag(b))], "x": enc(x), "y": enc(y), "lhs": enc([got]), "rhs": enc([ref[vn]])}
    return None


def probe(fn, shp, dt, rng, field, mode="random", info=None, long_history=False):
    """one probe of additivity + homogeneity and of A(0) = 0.  -> (failing dict | None, nontrivial: bool)"""
    cplx_scalars = field == "C"
    shapes = ops.leaf_shapes(shp)
    x = [_rand_leaf(rng, s, dt, mode) for s in shapes]
    y = [_rand_leaf(rng, s, dt, "random" if mode != "cancel" else mode) for s in shapes]
    if mode == "cancel":
        y = [-xi for xi in x]
        a = b = 1.0
    elif mode in ("tiny", "small"):
        # homogeneity across 18 orders of magnitude: x, y below a hidden threshold, a x + b y above it
        y = [_rand_leaf(rng, s, dt, mode) for s in shapes]
        up = (60 if mode == "tiny" else 50) if _wide(dt) else (40 if mode == "tiny" else 25)
        a, b = 2.0 ** up * _scalar(rng, cplx_scalars), _scalar(rng, cplx_scalars)
    else:
        a, b = _scalar(rng, cplx_scalars), _scalar(rng, cplx_scalars)
    z = [(a * xi + b * yi).astype(dt) for xi, yi in zip(x, y)]
    Ax, Ay, Az = _apply(fn, shp, x), _apply(fn, shp, y), _apply(fn, shp, z)
    rhs = [a * p + b * q for p, q in zip(Ax, Ay)]
    tol = max(_tol(dt), _tol(Ax[0].dtype) if Ax and Ax[0].size else 0.0)
    d = _lin_defect(Az, rhs, nan_ok=(mode == "nan"), relative=(mode in ("tiny", "small")))
    nontrivial = any(np.any(np.asarray(p) != 0) for p in Ax)

    def enc(ls):
        return [{"shape": list(np.shape(l)), "re": np.real(l).ravel().tolist(), "im": (np.imag(l).ravel().tolist() if np.iscomplexobj(l) else None)} for l in ls]

    if d > tol * 8:
        return {"what": "A(a x + b y) != a A(x) + b A(y)", "defect": d, "tol": tol, "a": [float(np.real(a)), float(np.imag(a))], "b": [float(np.real(b)), float(np.imag(b))],
                "x": enc(x), "y": enc(y), "lhs": enc(Az), "rhs": enc(rhs), "mode": mode}, nontrivial
    A0 = _apply(fn, shp, [np.zeros(s, dtype=dt) for s in shapes])
    if any(np.any(np.asarray(p) != 0) for p in A0):
        return {"what": "A(0) != 0", "A0": enc(A0), "mode": "zero"}, nontrivial
    if mode in ("random", "inplace"):
        bad, status = _inplace_sequence(fn, shp, dt, x, y, a, b, tol, {"x": Ax, "y": Ay, "a x + b y": Az, "0": A0})
        if info is not None:
            info["inplace"] = status
        if bad is not None:
            return bad, nontrivial
        if long_history and status.startswith("ok"):
            bad = _long_history(fn, shp, dt, rng, x, y, a, b, tol, {"x": Ax, "y": Ay, "a x + b y": Az, "0": A0})
            if info is not None:
                info["history"] = "stale" if bad else "ok"
            if bad is not None:
                return bad, nontrivial
    return None, nontrivial


class _no_jit:
    """build operators without `LinearOperator.jit()` (which derives the adjoint at construction): lets the search
    evaluate the forward map of an operator whose adjoint can no longer be derived because the map stopped being linear"""

    def __enter__(self):
        from scico.linop import LinearOperator

        self.cls, self.old = LinearOperator, LinearOperator.jit
        LinearOperator.jit = lambda self_: None
        return self

    def __exit__(self, *a):
        self.cls.jit = self.old


def _view_fn(cls, cfg, view):
    try:
        A = ops.build(cls, cfg)
    except Exception:  # noqa: BLE001
        if view != "eval":
            raise
        with _no_jit():
            A = ops.build(cls, cfg)
    for v, fn, shp, dt in ops.views(A, [view]):
        if isinstance(fn, Exception):
            raise fn
        return A, fn, shp, dt
    raise common.Infra(f"no view {view}")


def oracle_for(rng):
    """property oracle on the implementation for one operator view: random and adversarial probes"""

    def oracle(case):
        A, fn, shp, dt = _view_fn(case["cls"], case["config"], case["view"])
        fld = tr.field_of(A)
        for mode in ("random", "negative", "large", "basis", "cancel", "ones", "tiny", "small", "random", "random", "nan"):
            try:
                bad, _ = probe(fn, shp, dt, rng, fld, mode, long_history=case["cls"] in LONG_HISTORY_CLASSES)
            except Exception as e:  # noqa: BLE001
                return {"cls": case["cls"], "config": case["config"], "view": case["view"], "raised": repr(e)[:300]}
            if bad is not None:
                bad.update(cls=case["cls"], config=case["config"], view=case["view"], field=fld)
                return bad
        return None

    return oracle


# ---------------------------------------------------------------------------------------------------------------
# generation (translator)


def generate(ctx):
    common.setup_scico()
    per_class = PER_CLASS_QUICK
    nb = NBUCKETS_THOROUGH if ctx.thorough else NBUCKETS_QUICK
    known = {KNOWN_CROP} if ctx.is_known(KNOWN_CROP) else set()
    ops.KNOWN_IDS = {k for k in (KNOWN_SUM, KNOWN_CCRO) if ctx.is_known(k)}
    probe_time = [0.0]

    def on_view(rec, A, fn, shp, dt, phase="after"):
        """numerical probe of this view on the real operator, while the operator is alive and BEFORE it is traced (results
        are reported by correspond()).  thorough tier: every eval view of the whole grid, half of the adj views, an eighth
        of the rest - and, after translation, every view whose program was not accepted."""
        import time

        if phase == "before":
            if ctx.thorough:
                keep = 1.0 if rec["view"] == "eval" else 0.5 if rec["view"] == "adj" else 0.125
                if ctx.rng.random() > keep:
                    rec["probe"] = None
                    return
        elif rec.get("probe") is not None or rec.get("ok", False):
            return  # probed already, or left out by the thorough sampling and the program was accepted
        t = time.time()
        try:
            info = {}
            bad, nontrivial = probe(fn, shp, dt, ctx.rng, tr.field_of(A), "random", info, long_history=rec["cls"] in LONG_HISTORY_CLASSES)
            rec["probe"] = {"bad": bad, "nontrivial": nontrivial, "dtype": np.dtype(dt).name, "nested": ops.is_nested(shp), "inplace": info.get("inplace", "not-reached"),
                            "history": info.get("history")}
        except Exception as e:  # noqa: BLE001
            rec["probe"] = {"raised": repr(e)[:200]}
        probe_time[0] += time.time() - t

    instances = {}
    cache = tr.TranslationCache(FILES_ALL_SCICO, ctx.thorough)
    # decisions and inputs that exist only for freshly traced programs come from a generator of their own (seeded by
    # VERIF_SEED), so that the main stream - configurations, views, probe data - is the same whatever the cache holds
    aux = np.random.Generator(np.random.PCG64([int(getattr(ctx, "seed", 0)), 7919]))
    fid_time = [0.0]
    fid_seen = set()
    fam_of = {}
    fam_runs = _STATE["fam_runs"] = []

    def on_program(rec, prog, fn, shp, dt):
        """translator fidelity: the emitted IR, executed equation by equation with the real JAX primitives
        (jaxpr_table.ir_eval), must compute what the operator computes.  Every program that went through unrolled
        control flow / a pmap / a baked gather, the first user of a seeded share of the other programs."""
        import time

        import jaxpr_table as tb

        import jaxpr_family as fam

        if prog.exec is None:  # translation taken from the cross-run cache: nothing to execute (the re-traced share is)
            if rec.get("in_family") is None:
                rec["in_family"] = fam_of.get(prog.key())
            return
        special = prog.unrolled > 0 or any(p.split("#")[0] in (ir.PMAP_IN, ir.PMAP_OUT, "gather[fill]", ir.SCAN_INDEX) for p in prog.prims)
        key = prog.key()
        if key in fid_seen:
            rec["in_family"] = fam_of.get(key)
            cache.annotate(rec["cls"], rec["config"], rec["view"], in_family=fam_of.get(key))
            return
        # is every equation an instance of the family whose class facts are PROVED (Proofs/JaxprFamily.lean)?
        fam_of[key] = rec["in_family"] = fam.program_in_family(prog)
        cache.annotate(rec["cls"], rec["config"], rec["view"], in_family=fam_of[key])
        if not fam_of[key]:
            for ex in prog.exec:
                if ex[0] != "lit" and not fam.supported(ex[1]):
                    ctx.count("outside-proved-family:" + ex[1]["name"].split("#")[0])
        share = FIDELITY_SHARE_THOROUGH if ctx.thorough else FIDELITY_SHARE_QUICK
        if rec.get("cache") == "retraced":  # warm cache: only the re-traced share can be executed - keep the overall share
            share = min(1.0, share / (RETRACE_SHARE_THOROUGH if ctx.thorough else RETRACE_SHARE_QUICK))
        if not special and aux.random() > share:
            return
        fid_seen.add(key)
        t = time.time()
        try:
            x = [_rand_leaf(aux, s, dt, "random") for s in ops.leaf_shapes(shp)]
            ref = _apply(fn, shp, x)
            got = [np.asarray(v) for v in tb.ir_eval(prog, x)]
            d = _lin_defect(got, ref)
            if rec.get("ok") and d == d:
                # an accepted program evaluated at 0 with the real primitives must give exactly 0 (checks the zero flags
                # of the literals, which only the translator decides)
                z0 = tb.ir_eval(prog, [np.zeros(s, dt) for s in ops.leaf_shapes(shp)])
                if any(np.any(np.asarray(v) != 0) for v in z0):
                    d = float("inf")
            tol = max(_tol(dt), _tol(ref[0].dtype) if ref and ref[0].size else 0.0)
            if fam_of.get(key):
                # keep what the whole-program run under the proved family needs (stream 9, executed in correspond())
                fam_runs.append({"rec": rec, "prog": prog, "exec": list(prog.exec), "x": x, "ref": ref, "tol": tol})
            rec["fidelity"] = {"defect": d, "tol": tol, "neqns": len(prog.eqns), "special": special, "folded": prog.folded, "inlined": prog.inlined,
                               "unrolled": prog.unrolled, "nontrivial": any(np.any(np.asarray(p) != 0) for p in ref)}
        except Exception as e:  # noqa: BLE001
            rec["fidelity"] = {"raised": repr(e)[:300]}
        fid_time[0] += time.time() - t

    records, programs, mods, index, stats = tr.generate(ctx.rng, ctx.thorough, per_class, nb, ctx.hist, known, on_view, instances, on_program, cache,
                                                        retrace=lambda: aux.random() < (RETRACE_SHARE_THOROUGH if ctx.thorough else RETRACE_SHARE_QUICK))
    stats["translation_cache"] = cache.stats()
    stats["fidelity_s"] = round(fid_time[0], 1)
    stats["primitive_instances"] = len(instances)
    _STATE["instances"] = instances
    stats["probe_s"] = round(probe_time[0], 1)
    stats["trace_s"] = round(stats["trace_s"] - probe_time[0] - fid_time[0], 1)
    _STATE.update(records=records, programs=programs, mods=mods, index=index)
    ctx.extra["translator"] = stats
    ctx.extra["primitive_table"] = {k: v for k, v in sorted(ir.prim_table().items(), key=lambda kv: kv[1]) if any(k in e["prog"].prims for e in programs.values())}
    have = {}
    for r in records:
        if r.get("status") == "ok":
            have.setdefault(r["cls"], set()).add(r["view"])
    ctx.extra["classes"] = {c: sorted(v) for c, v in have.items()}
    # thorough: every configuration of the grid is traced (eval, adj); quick: a seeded sample of every class
    ctx.exhaustive = bool(ctx.thorough)
    ctx.extra["scope"] = (
        "whole configuration grid of harness/opgrid.py + harness/jaxpr_ops.py extras: eval and adj of every configuration, "
        "all nine views of a seeded quarter" if ctx.thorough else
        f"{PER_CLASS_QUICK} seeded configurations per class (+ 'must' configurations and the complete hand-made grids), eval, adj and one seeded view"
    )
    # source-derived class table (round 4): every LinearOperator subclass of the package is enumerated or pinned
    import jaxpr_translate as jt

    cmod, src, missing, stale = jt.emit(common.REPO, ops.all_classes(), ops.CALCULUS_LEFT)
    ctx.extra["linear_operator_classes"] = {"in_source": len(src), "not_enumerated_and_not_pinned": missing, "stale_pins_or_claims": stale, "pinned": sorted(jt.EXCLUDED)}
    mods = list(mods) + [(cmod, f"{len(src)} LinearOperator classes of the source: enumerated or pinned" + (f"; MISSING {missing} STALE {stale}" if missing or stale else ""))]
    return mods


# ---------------------------------------------------------------------------------------------------------------
# correspondence


def _key(rec):
    h = hashlib.sha1(json.dumps(rec["config"], sort_keys=True, default=str).encode()).hexdigest()[:10]
    return (rec["cls"], rec["view"], h)


def _corpus(ctx, oracle):
    d = common.CORPUS_DIR / "C06"
    if not d.exists():
        return
    for f in sorted(d.glob("*.json")):
        case = json.loads(f.read_text())
        kind = case.get("kind", "linear")
        ctx.count(f"corpus:{kind}")
        try:
            bad = oracle(case)
        except Exception as e:  # noqa: BLE001
            if kind == "rejected-or-linear":
                ctx.count(f"corpus-rejected:{type(e).__name__}")
                ctx.case({"corpus": f.name, "rejected": type(e).__name__}, ("corpus", f.name))
                continue
            if kind == "nonlinear-known":  # e.g. the constructor now rejects the option: the witness no longer exists
                ctx.count(f"corpus-known-no-longer-fails:{f.name}")
                ctx.case({"corpus": f.name, "rejected": type(e).__name__}, None)
                continue
            raise common.Infra(f"corpus case {f.name}: {e!r}") from e
        ctx.case({"corpus": f.name, "cls": case["cls"], "view": case["view"]}, ("corpus", f.name))
        if kind in ("linear", "rejected-or-linear") and bad is not None:
            if case.get("known_id") and ctx.is_known(case["known_id"]) and "raised" not in bad:
                ctx.known_finding(case["known_id"], True, detail=f"corpus/C06/{f.name}: {bad.get('what')}")
            else:
                ctx.disagree("linearity.corpus", case, bad.get("what"), "linear", oracle=lambda c, _b=bad: _b)
        if kind == "nonlinear-known":
            if bad is None or "raised" in bad:
                ctx.count(f"corpus-known-no-longer-fails:{f.name}")
            elif ctx.is_known(case.get("known_id")):
                ctx.known_finding(case["known_id"], True, detail=f"corpus/C06/{f.name}: {bad.get('what')}")
            else:
                ctx.disagree("linearity.corpus", case, bad.get("what"), "recorded as repaired", oracle=lambda c, _b=bad: _b)


def _mirror_vs_lean(ctx, model):
    programs = _STATE.get("programs", {})
    n = 0
    for ent in programs.values():
        got = model.call("check", **ir.json_prog(ent["prog"]))
        n += 1
        if got["fast"] != got["tag"]:
            raise common.Infra(f"checkFast {got['fast']} != check {got['tag']} on program {ent['hash'][:10]}")
        if got["tag"] != ir.tag_str(ent["tag"]):
            raise common.Infra(f"Python mirror of the checker says {ir.tag_str(ent['tag'])}, Lean says {got['tag']} on program {ent['hash'][:10]}")
    ctx.count("mirror-vs-lean-programs", n)


def _probes(ctx, oracle_rng):
    """report the numerical probes taken (during generation) on every enumerated operator view"""
    for r in _STATE.get("records", []):
        if "probe" not in r:
            continue
        pr = r["probe"]
        case = {"cls": r["cls"], "config": r["config"], "view": r["view"]}
        if pr is None:
            ctx.count("probe-skipped-by-thorough-sampling")
            continue
        if "raised" in pr:
            ctx.count(f"probe-raised:{r['cls']}.{r['view']}")
            ctx.case(case, None)
            continue
        ctx.case({"cls": r["cls"], "view": r["view"], "config": json.dumps(r["config"], default=str)[:200], "tag": r.get("tag")},
                 _key(r) if pr["nontrivial"] else None, sample_every=97)
        ctx.count(f"probe:{r['view']}")
        ctx.count(f"probe-dtype:{pr['dtype']}")
        ctx.count("probe-blockarray" if pr["nested"] else "probe-array")
        ctx.count("probe-inplace-buffer:" + str(pr.get("inplace", "n/a")))
        if pr.get("history"):
            ctx.count(f"probe-long-history({LONG_HISTORY_CALLS} calls):" + pr["history"])
        bad = pr["bad"]
        if bad is not None:
            bad.update(case)
            verdict = r.get("tag", r.get("status"))
            ctx.disagree(f"linearity.{r['view']}", case, bad["what"], f"checker verdict: {verdict}", oracle=lambda c, _b=bad: _b)


# --- synthetic scalar programs: Lean semantics `run` vs Python, verdict vs behaviour --------------------------

_SC_PRIMS = [("linAll", 0, 2), ("linAll", 0, 3), ("linAll", 1, 1), ("linAll", 2, 1), ("linAll", 4, 2), ("bilinear", 0, 2), ("divLike", 0, 2),
             ("realPart", 0, 1), ("conj", 0, 1), ("nonlin", 0, 1), ("nonlin", 1, 2), ("nonlin", 2, 1), ("linAll", 3, 1)]


def _rand_scalar_prog(rng, nin, neq, nonlin_ok):
    prog = ir.Prog(nin)
    consts = []
    nvars = nin
    for _ in range(neq):
        if rng.random() < 0.25:
            if rng.random() < 0.3:
                prog.emit("lit1", "lit", [], [])
            else:
                consts.append(float(common.dyadic(rng, (), bits=2, scale=3.0)) or 0.5)
                prog.eqns.append(("lit0", "__const%d" % (len(consts) - 1), [], []))
            nvars += 1
            continue
        while True:
            cls, prim, ar = _SC_PRIMS[int(rng.integers(0, len(_SC_PRIMS)))]
            if cls != "nonlin" or nonlin_ok:
                break
        args = [int(rng.integers(0, nvars)) for _ in range(ar)]
        params = [int(rng.integers(0, nvars))] if (cls, prim) == ("linAll", 3) else []
        prog.eqns.append((cls, "__p%d" % prim, params, args))
        nvars += 1
    prog.outs = [int(rng.integers(max(0, nvars - 3), nvars)) for _ in range(int(rng.integers(1, 3)))]
    return prog, consts


def _sc_json(prog):
    eq = []
    for c, p, a, b in prog.eqns:
        pid = int(p[7:]) if p.startswith("__const") else (int(p[3:]) if p.startswith("__p") else 0)
        eq.append([c, pid, list(a), list(b)])
    return {"nin": prog.nin, "eqns": eq, "outs": list(prog.outs)}


def _sc_eval(prog, consts, x):
    env = list(x)
    for c, p, ps, as_ in prog.eqns:
        v = [env[i] for i in as_]
        a = v[0] if v else 0.0
        b = v[1] if len(v) > 1 else 0.0
        pid = int(p[7:]) if p.startswith("__const") else (int(p[3:]) if p.startswith("__p") else 0)
        with np.errstate(all="ignore"):
            if c == "lit1":
                r = 0.0
            elif c == "lit0":
                r = consts[pid]
            elif c == "linAll":
                pv = env[ps[0]] if ps else 0.0
                r = {0: lambda: _fsum(v), 1: lambda: -a, 2: lambda: a, 3: lambda: a if (pv < 0 or pv > 0) else 0.0, 4: lambda: a - b}[pid]()
            elif c == "bilinear":
                r = a * b
            elif c == "divLike":
                r = float(np.float64(a) / np.float64(b))
            elif c in ("realPart", "conj"):
                r = a
            else:
                r = {0: abs(a), 1: (b if a < b else a), 2: a * a}.get(pid, a * abs(a))
        env.append(float(r))
    return [env[i] for i in prog.outs]


def _fsum(v):
    s = 0.0
    for t in v:
        s = s + t
    return s


def _synthetic_scalar(ctx, model):
    n = ctx.n(150, 1500)
    rng = ctx.rng
    accepted = rejected_nonlinear = rejected_linear = 0
    for k in range(n):
        nin = int(rng.integers(1, 3))
        prog, consts = _rand_scalar_prog(rng, nin, int(rng.integers(1, 9)), nonlin_ok=(k % 3 != 0))
        jp = _sc_json(prog)
        # mirror tags need class names only
        mt = ir.check(prog)
        got = model.call("check", **jp)
        if got["tag"] != ir.tag_str(mt):
            raise common.Infra(f"mirror {ir.tag_str(mt)} vs Lean {got['tag']} on synthetic program {jp}")
        xs = [[float(v) for v in common.dyadic(rng, (nin,), bits=2, scale=3.0)] for _ in range(2)]
        a, b = float(common.dyadic(rng, (), bits=1, scale=2.0)), float(common.dyadic(rng, (), bits=1, scale=2.0))
        z = [a * p + b * q for p, q in zip(*xs)]
        outs = []
        for inp in (xs[0], xs[1], z, [0.0] * nin):
            lean = common.b2fs(model.call("run", consts=common.fs2b(consts), x=common.fs2b(inp), **jp))
            py = _sc_eval(prog, consts, inp)
            same = all((np.isnan(p) and np.isnan(q)) or p == q for p, q in zip(lean, py)) and len(lean) == len(py)
            if not same:
                ctx.disagree("jaxpr.run", {"prog": jp, "consts": consts, "x": inp}, py, lean, note="Lean semantics vs Python evaluation of the IR")
            outs.append(lean)
        fx, fy, fz, f0 = outs
        finite = all(np.isfinite(v) for o in outs for v in o)
        lin = finite and all(abs(p - (a * q + b * r)) <= 1e-9 * (1 + abs(p)) for p, q, r in zip(fz, fx, fy)) and all(v == 0 for v in f0)
        tag = got["tag"]
        dep = tag not in ("const(zero)", "const(nonzero)")
        ctx.case({"synthetic_scalar": jp["eqns"][:4], "tag": tag}, ("sc", json.dumps(jp, sort_keys=True)) if dep else None, sample_every=211)
        ctx.count(f"synthetic-scalar:{tag}")
        if tag in ("linC", "antiC", "linR", "const(zero)"):
            accepted += 1
            if finite and not lin:
                ctx.disagree("jaxpr.check.sound", {"prog": jp, "consts": consts, "x": xs[0], "y": xs[1], "a": a, "b": b}, [fx, fy, fz, f0], tag,
                             note="checker accepts a program whose Lean denotation is not linear at this point")
        elif tag == "bad":
            if finite and lin:
                rejected_linear += 1
            else:
                rejected_nonlinear += 1
    ctx.count("synthetic-scalar-accepted", accepted)
    ctx.count("synthetic-scalar-rejected-and-nonlinear-at-probe", rejected_nonlinear)
    ctx.count("synthetic-scalar-rejected-but-linear-at-probe", rejected_linear)


# --- synthetic JAX functions ---------------------------------------------------------------------------------


def _jax_blocks():
    import jax
    import jax.numpy as jnp

    c3 = jnp.asarray(np.array([0.5, -1.0, 2.0, 0.25, -0.75, 1.5]))
    idx = jnp.asarray(np.array([4, 0, 2, 2, 5, 1]))
    mask = jnp.asarray(np.array([True, False, True, True, False, True]))

    # call-like primitives the translator inlines: custom_jvp / custom_vjp (primal function), remat, nested jit
    @jax.custom_jvp
    def cj_lin(x):
        return 2.0 * x - jnp.roll(x, 1)

    cj_lin.defjvp(lambda p, t: (cj_lin(p[0]), cj_lin(t[0])))

    @jax.custom_vjp
    def cv_lin(x):
        return 3.0 * x[::-1]

    cv_lin.defvjp(lambda x: (3.0 * x[::-1], None), lambda _, g: (3.0 * g[::-1],))

    @jax.custom_jvp
    def cj_affine(x):  # the primal function is affine although its declared tangent map is linear
        return x + 0.5

    cj_affine.defjvp(lambda p, t: (cj_affine(p[0]), t[0]))

    lin = {
        "custom_jvp": cj_lin,
        "custom_vjp": cv_lin,
        "remat": jax.checkpoint(lambda x: x - 0.5 * jnp.roll(x, -1)),
        "nested_jit": jax.jit(lambda x: jax.jit(lambda v: v[::-1] + v)(x) * 0.5),
        "neg": lambda x: -x,
        "scale": lambda x: 2.5 * x,
        "cmul": lambda x: c3.astype(x.dtype) * x,
        "roll": lambda x: jnp.roll(x, 2),
        "flip": lambda x: x[::-1],
        "diff_pad": lambda x: jnp.pad(jnp.diff(x), (0, 1)),
        "cumsum": lambda x: jnp.cumsum(x),
        "gather": lambda x: x[idx],
        "where": lambda x: jnp.where(mask, x, 0),
        "scatter": lambda x: jnp.zeros(6, x.dtype).at[idx].add(x),
        "fftifft": lambda x: jnp.fft.ifft(c3 * jnp.fft.fft(x)).astype(x.dtype) if jnp.iscomplexobj(x) else jnp.fft.ifft(c3 * jnp.fft.fft(x)).real,
        "sum_bcast": lambda x: x + jnp.sum(x),
        "div": lambda x: x / 4.0,
        "matmul": lambda x: jnp.outer(c3, c3).astype(x.dtype) @ x,
        "conv": lambda x: jnp.convolve(x, c3[:3].astype(x.dtype), mode="same"),
        "dynslice": lambda x: jnp.pad(jax.lax.dynamic_slice(x, (jnp.asarray(1),), (4,)), (1, 1)),
        "conj2": lambda x: jnp.conj(jnp.conj(x)),
        "setzero": lambda x: x.at[2].set(0.0),
        "rfft_irfft": lambda x: x if jnp.iscomplexobj(x) else jnp.fft.irfft(c3[:4] * jnp.fft.rfft(x), n=6),
        "take_dup": lambda x: jnp.take(x, idx[::-1]) - x,
        "tril_matmul": lambda x: jnp.tril(jnp.ones((6, 6), x.dtype)) @ x,
        "take_inbounds": lambda x: jnp.take(x, idx) + x.at[idx].get(mode="fill", fill_value=1.0),
        "fori": lambda x: jax.lax.fori_loop(0, 3, lambda i, v: v - jnp.roll(v, 1) * (i + 1.0), x),
        "while_const": lambda x: jax.lax.fori_loop(0, jnp.asarray(2), lambda i, v: v + v[::-1], x),
        "scan": lambda x: jax.lax.scan(lambda c, xi: (c + 2 * xi, c - xi), jnp.zeros((), x.dtype), x)[1],
        "cond_const": lambda x: jax.lax.cond(c3[0] > 0, lambda v: 2 * v, lambda v: v + 1, x),
    }
    nonlin = {
        "custom_jvp_affine": cj_affine,
        "relu_custom_jvp": lambda x: jax.nn.relu(x.real).astype(x.dtype),
        "remat_abs": jax.checkpoint(lambda x: jnp.abs(x).astype(x.dtype)),
        "abs": lambda x: jnp.abs(x).astype(x.dtype),
        "clip": lambda x: jnp.maximum(x.real, 0.0).astype(x.dtype),
        "offset": lambda x: x + 1.0,
        "square": lambda x: x * x,
        "argidx": lambda x: x[jnp.argsort(x.real)],
        "recip": lambda x: 1.0 / (x + 3.0),
        "setone": lambda x: x.at[2].set(1.0),
        "wheredata": lambda x: jnp.where(x.real > 0, x, 0),
        "conj": lambda x: jnp.conj(x),
        "real": lambda x: x.real.astype(x.dtype),
        "irfft_of_complex": lambda x: jnp.fft.irfft(x[:4], n=6).astype(x.dtype),
        "sortidx": lambda x: jnp.sort(x.real).astype(x.dtype),
        "max_reduce": lambda x: x - jnp.max(x.real),
        "sign_mul": lambda x: jnp.sign(x.real) * x,
        "take_oob_nan": lambda x: jnp.take(x, idx + 3),  # out-of-bounds entries are filled with NaN: A(0) != 0
        "get_fill_one": lambda x: x.at[idx + 3].get(mode="fill", fill_value=1.0),
        "cond_const_affine": lambda x: jax.lax.cond(c3[0] < 0, lambda v: 2 * v, lambda v: v + 1, x),
        "cond_data": lambda x: jax.lax.cond(x[0].real > 0, lambda v: 2 * v, lambda v: 3 * v, x),
        "fori_affine": lambda x: jax.lax.fori_loop(0, 3, lambda i, v: v + i, x),
        "div_zero_const": lambda x: x / (c3 - 0.5),  # a zero in the constant denominator: 0 / 0 = NaN at x = 0
    }
    return lin, nonlin


def _synthetic_jax(ctx, model):
    import jax.numpy as jnp

    lin, nonlin = _jax_blocks()
    rng = ctx.rng
    n = ctx.n(28, 250)
    for k in range(n):
        cplx = bool(rng.integers(0, 2))
        dt = np.complex128 if cplx else np.float64
        names = [list(lin)[int(i)] for i in rng.integers(0, len(lin), size=int(rng.integers(1, 5)))]
        if k % 2 == 1:
            pos = int(rng.integers(0, len(names) + 1))
            names.insert(pos, list(nonlin)[int(rng.integers(0, len(nonlin)))])
        fns = [lin.get(nm) or nonlin[nm] for nm in names]

        def f(x, _fns=fns):
            for g in _fns:
                x = g(x)
            return x

        try:
            prog = ir.translate(ir.trace(f, [jnp.zeros((6,), dt)]), keep=True)
        except ir.NotTranslatable as e:
            ctx.count(f"synthetic-jax-not-translatable:{e.prim}")
            ctx.case({"synthetic_jax": names, "complex": cplx}, None)
            continue
        got = model.call("check", **ir.json_prog(prog))
        if got["tag"] != ir.tag_str(ir.check(prog)):
            raise common.Infra(f"mirror vs Lean on synthetic jax function {names}")
        tag = got["tag"]
        fld = "C" if cplx else "R"
        # fidelity of the translation: the IR executed with the real primitives computes f
        import jaxpr_table as tb

        xr = _rand_leaf(rng, (6,), dt, "random")
        with np.errstate(all="ignore"):
            try:
                dfid = _lin_defect([np.asarray(v) for v in tb.ir_eval(prog, [xr])], [np.asarray(f(jnp.asarray(xr)))], nan_ok=True)
            except Exception as e:  # noqa: BLE001
                dfid = float("nan")
                ctx.count("synthetic-jax-fidelity-raised:" + type(e).__name__)
        ctx.count("synthetic-jax-fidelity-checked")
        if not dfid <= 1e-9:
            ctx.disagree("jaxpr.translate.fidelity", {"blocks": names, "complex": cplx, "x": [complex(v).__repr__() for v in xr]}, f"defect {dfid}", "IR == function",
                         note="the translated synthetic function does not compute what the function computes")
        prog.exec = None
        worst = None
        for mode in ("random", "negative", "basis"):
            bad, _ = probe(f, (6,), dt, rng, fld, mode)
            if bad is not None:
                worst = bad
                break
        ok_tag = tag == "linC" if cplx else tag in ("linC", "antiC", "linR")
        ctx.case({"synthetic_jax": names, "complex": cplx, "tag": tag}, ("sj", tuple(names), cplx), sample_every=53)
        ctx.count(f"synthetic-jax:{'accepted' if ok_tag else 'rejected'}:{'linear' if worst is None else 'nonlinear'}-at-probe")
        if ok_tag and worst is not None:
            ctx.disagree("jaxpr.table.sound", {"blocks": names, "complex": cplx}, worst["what"], tag,
                         note="the checker accepts a traced JAX function that is not linear: the primitive class table is wrong")
        if (not ok_tag) and worst is None and not any(nm in nonlin for nm in names):
            ctx.disagree("jaxpr.table.complete", {"blocks": names, "complex": cplx}, "numerically linear", tag,
                         note="a composition of linear building blocks is rejected by the checker")


def _fidelity(ctx):
    """7. translator fidelity (measured during generation): IR executed with the real primitives == the operator"""
    for r in _STATE.get("records", []):
        f = r.get("fidelity")
        if f is None:
            continue
        case = {"cls": r["cls"], "config": r["config"], "view": r["view"]}
        if "raised" in f:
            ctx.count("fidelity-raised")
            ctx.disagree("jaxpr.translate.fidelity", case, f["raised"], "IR not executable", note="the translated program could not be executed with the recorded primitive instances")
            continue
        ctx.count("fidelity:" + ("control-flow/pmap/baked" if f["special"] else "plain"))
        ctx.count("fidelity-eqns:" + ("<=10" if f["neqns"] <= 10 else "<=40" if f["neqns"] <= 40 else "<=100" if f["neqns"] <= 100 else ">100"))
        ctx.case({"fidelity": f"{r['cls']}.{r['view']}", "neqns": f["neqns"], "folded": f["folded"], "inlined": f["inlined"], "unrolled": f["unrolled"], "defect": f["defect"]},
                 ("fid",) + _key(r) if f["nontrivial"] else None, sample_every=29)
        if not f["defect"] <= 8 * f["tol"]:
            ctx.disagree("jaxpr.translate.fidelity", case, f"defect {f['defect']}", "IR == operator",
                         note="the translated program (inlining / constant folding / unrolling) does not compute what the operator computes")


# --- the trusted primitive table, entry by entry (harness/jaxpr_table.py) -----------------------------------------

TABLE_INSITU_QUICK = 130
TABLE_INSITU_THOROUGH = 2000
FAMILY_QUICK = 250
RETRACE_SHARE_QUICK = 0.25  # share of the cached translations that is re-traced anyway (and compared with the cache)
RETRACE_SHARE_THOROUGH = 0.15
FILES_ALL_SCICO = "scico"  # the translation cache is keyed on every source file of the package
FAMILY_PROGRAMS_QUICK = 80
FAMILY_PROGRAMS_THOROUGH = 250
FAMILY_THOROUGH = 1200


def _table_validation(ctx):
    """6. every entry of the class table tested numerically on the JAX primitive itself:
       (a) negative controls - falsified entries must be reported (self-test), (b) coverage functions with adversarial
       static parameters, (c) the primitive instances of the operator programs translated in this run (in situ)."""
    import jaxpr_table as tb

    rng = ctx.rng
    for label, inst in tb.negative_controls():
        st, _ = tb.validate(inst, rng)
        ctx.count("table-negative-control:" + ("detected" if st == "defect" else "MISSED"))
        ctx.case({"table_negative_control": label, "result": st}, ("tneg", label), sample_every=7)
        if st != "defect":
            raise common.Infra(f"table validation stream does not detect the falsified entry '{label}' ({st})")
    seen = set()

    def one(source, label, inst):
        sig = tb.signature(inst)
        if (source, sig) in seen:
            return
        seen.add((source, sig))
        st, d = tb.validate(inst, rng)
        ctx.count(f"table-{source}:{st}")
        if st == "ok":
            ctx.count(f"table-entry-validated:{inst['name'].split('#')[0]}")
        desc = {"table_entry": inst["name"], "class": inst["cls"], "source": source, "from": label, "result": st}
        ctx.case(desc, ("tbl", source, repr(sig)) if st == "ok" else None, sample_every=41)
        if st == "defect":
            ctx.disagree("jaxpr.table.entry", {**tb.describe(inst), "from": label, "source": source}, d, f"class {inst['cls']}",
                         note="the class table claims this primitive instance has the class property (Interp.Sound); numerically it does not")

    cov, nt = tb.coverage_instances()
    for label, e in nt:
        raise common.Infra(f"table coverage function '{label}' is not translatable: {e}")
    for label, inst in cov:
        one("coverage", label, inst)
    reached = {i["name"].split("#")[0] for _, i in cov}
    have = tb.jax_primitive_names()
    ctx.extra["table_entries_not_reached_by_coverage"] = sorted(n for n in tb.table_entries() if n not in reached and (not have or n in have or "[" in n))
    insts = list(_STATE.get("instances", {}).values())
    lin = [i for i in insts if i["cls"] in tb.LINEAR_CLASSES]
    ctx.count("table-insitu-instances-recorded", len(lin))
    limit = TABLE_INSITU_THOROUGH if ctx.thorough else TABLE_INSITU_QUICK
    if len(lin) > limit:
        # round robin over primitive names (rare names first), seeded order inside a name
        by = {}
        for i in lin:
            by.setdefault(i["name"], []).append(i)
        for v in by.values():
            rng.shuffle(v)
        order, k = [], 0
        names = sorted(by, key=lambda n: (len(by[n]), n))
        while len(order) < limit:
            took = False
            for n in names:
                if k < len(by[n]) and len(order) < limit:
                    order.append(by[n][k])
                    took = True
            if not took:
                break
            k += 1
        lin = order
    for inst in lin:
        one("insitu", inst.get("user", "?"), inst)
    h = ctx.hist
    ctx.extra["table_validation"] = {
        "negative_controls_detected": h.get("table-negative-control:detected", 0),
        "coverage_instances_ok": h.get("table-coverage:ok", 0),
        "insitu_instances_recorded": len(insts),
        "insitu_linear_class_instances": h.get("table-insitu-instances-recorded", 0),
        "insitu_validated_ok": h.get("table-insitu:ok", 0),
        "insitu_limit": limit,
        "skipped": {k: v for k, v in h.items() if k.startswith(("table-coverage:skipped", "table-insitu:skipped"))},
        "defects": h.get("table-coverage:defect", 0) + h.get("table-insitu:defect", 0),
        "entries_validated": sorted(k.split(":", 1)[1] for k in h if k.startswith("table-entry-validated:")),
    }


def _calculus_kinds(ctx, model):
    """10. operator arithmetic between an instance of every LinearOperator class that defines arithmetic of its own (table
    generated from the source, harness/jaxpr_translate.py) and a NON-linear Operator (Abs, x*x): the class of the object
    scico returns - LinearOperator or plain Operator - against the model's dispatch rule `combineKind` (Lean; proved sound
    in `C06_calculus_kind_sound`); an operation scico refuses (NotImplementedError / TypeError) presents nothing.  A result
    presented as a LinearOperator is additionally traced and probed like every other operator (class CalculusMixed)."""
    from scico import linop

    for cfg in ops.configs("CalculusMixed", ctx.rng):
        want = model.call("combinekind", a="linear", b="nonlinear")
        try:
            R = ops.calculus_result(cfg)
            got = "linear" if isinstance(R, linop.LinearOperator) else "nonlinear"
        except (NotImplementedError, TypeError) as e:
            got = "refused:" + type(e).__name__
        ctx.count(f"calculus-kind:{cfg['op']}:{got}")
        ctx.case({"calculus": f"{cfg['left']} {cfg['op']} {cfg['nonlinear']}", "presented": got}, ("calc", cfg["left"], cfg["op"], cfg["nonlinear"]), sample_every=17)
        if got == "linear" and want != "linear":
            def oracle(case, _cfg=cfg):
                return oracle_for(ctx.rng)({"cls": "CalculusMixed", "config": _cfg, "view": "eval"})

            ctx.disagree("calculus.kind", {"cls": "CalculusMixed", "config": cfg, "view": "eval"}, "presented as LinearOperator", f"combineKind = {want}", oracle=oracle,
                         note="arithmetic with a non-linear Operator returned an object presented as a LinearOperator")


F32_ITEMS = {}


def _default_precision_start(ctx):
    """11. DEFAULT PRECISION (round 6): the library runs in float32 / complex64 unless the caller enables x64, and every
    other stream of this check enables it.  A worker subprocess WITHOUT jax_enable_x64 (harness/jaxpr_f32_worker.py) takes
    one seeded configuration of every class plus the whole MixedDtype grid, dtypes mapped to single precision, and for eval
    and adj: nothing may raise, the returned dtype is the declared one and stays 32-bit, the linearity probe (with the
    reused-buffer history) passes at the single-precision tolerance, the traced program gets an acceptable verdict and lies
    in the proved family.  Started here, collected at the end of correspond() (it overlaps with the other streams)."""
    import subprocess
    import sys

    items = []
    for name in ops.all_classes():
        if name in ("CalculusMixed", "WrappedOptions", "DtypeSweep"):
            continue  # (results of rejected arithmetic / option sweeps; DtypeSweep already is single precision under x64)
        cfgs = ops.configs(name, ctx.rng)
        if name == "MixedDtype":
            items += [[name, c] for c in cfgs if not c.get("known_id")]
        elif cfgs:
            items.append([name, cfgs[int(ctx.rng.integers(0, len(cfgs)))]])
    F32_ITEMS["items"] = items
    env = {k: v for k, v in __import__("os").environ.items() if k != "JAX_ENABLE_X64"}
    p = subprocess.Popen([sys.executable, str(common.VERIF / "harness" / "jaxpr_f32_worker.py")], stdin=subprocess.PIPE, stdout=subprocess.PIPE, stderr=subprocess.PIPE, text=True, env=env)
    p.stdin.write(json.dumps({"repo": str(common.REPO), "items": items, "seed": ctx.seed}, default=str))
    p.stdin.close()
    F32_ITEMS["proc"] = p


def _x64_signature(cls, cfg, view):
    A = ops.build(cls, cfg)
    for v, fn, shp, dt in ops.views(A, [view]):
        closed, _ = tr.trace_view(A, v, fn, shp, dt)
        prog = ir.translate(closed)
        return [p.split("#")[0] for c, p, _, _ in prog.eqns if not c.startswith("lit") and not p.startswith("convert_element_type")], ir.tag_str(ir.check(prog))
    return None, None


def _default_precision_collect(ctx):
    p = F32_ITEMS.pop("proc", None)
    if p is None:
        return
    try:
        so, se = p.stdout.read(), p.stderr.read()
        p.wait(timeout=900)
        res = json.loads(so[so.index('{"results"'):])["results"]
    except Exception as e:  # noqa: BLE001
        raise common.Infra(f"default-precision worker failed: {e!r} {se[-600:] if 'se' in dir() else ''}") from e
    sig_cache = {}
    for r in res:
        case = {"cls": r["cls"], "config": r["config"], "view": r["view"], "precision": "default (no x64)"}
        st = r.get("status")
        ctx.count(f"f32:{st}")
        if st == "not-presented":
            continue
        ctx.case({"f32": f"{r['cls']}.{r['view']}", "status": st, "tag": r.get("tag"), "dtypes": r.get("dtypes")}, ("f32", r["cls"], r["view"], json.dumps(r["config"], sort_keys=True, default=str)[:200]) if st == "ok" else None,
                 sample_every=11)
        if st in ("build-raised", "view-raised", "raised"):
            # does the same configuration work with x64 ?  then only the default mode fails: the defect class of XRayTransform3D.adj
            try:
                _x64_signature(r["cls"], r["config"], "eval")
                works64 = True
            except Exception:  # noqa: BLE001
                works64 = False
            if works64:
                ctx.disagree("default-precision.raises", case, r.get("detail"), "works with x64", oracle=lambda c, _r=r: {"what": "raises in the default precision mode only", "detail": _r.get("detail"), **c},
                             note="the operator works with jax_enable_x64 and raises without it (float32 / complex64)")
            else:
                ctx.count("f32:raises-in-both-modes")
            continue
        if st == "not-translatable":
            ctx.disagree("default-precision.not-translatable", case, r.get("detail"), "translatable with x64")
            continue
        if r.get("probe_bad"):
            b = dict(r["probe_bad"])
            b.update(case)
            ctx.disagree("default-precision.linearity", case, b.get("what"), "linear", oracle=lambda c, _b=b: _b, note="the property fails in the default precision mode")
        if not r.get("dtype_ok", True):
            ctx.disagree("default-precision.dtype", case, r.get("dtypes"), "declared 32-bit dtype", note="returned dtype is not the declared one or left single precision")
        if not r.get("acceptable", True):
            ctx.disagree("default-precision.verdict", case, r.get("tag"), "acceptable verdict", oracle=lambda c, _r=r: ({**_r["probe_bad"], **c} if _r.get("probe_bad") else None),
                         note="the program traced in the default precision mode is not structurally linear")
        ctx.count("f32-in-proved-family" if r.get("in_family") else "f32-outside-proved-family")
        key = (r["cls"], json.dumps(r["config"], sort_keys=True, default=str), r["view"])
        try:
            if key not in sig_cache:
                sig_cache[key] = _x64_signature(r["cls"], r["config"], r["view"])
            s64, t64 = sig_cache[key]
        except Exception:  # noqa: BLE001
            s64 = t64 = None
        if s64 is not None:
            same = s64 == r.get("sig")
            ctx.count("f32-structure:" + ("same-as-x64" if same else "differs-from-x64"))
            if not same:
                ctx.extra.setdefault("f32_structural_differences", []).append({"cls": r["cls"], "view": r["view"], "only_x64": sorted(set(s64) - set(r["sig"])), "only_f32": sorted(set(r["sig"]) - set(s64)),
                                                                                "len_x64": len(s64), "len_f32": len(r["sig"])})
            if t64 != r.get("tag"):
                ctx.count(f"f32-verdict-differs:{t64}->{r.get('tag')}")


def _family_programs(ctx, model):
    """9. whole programs under the proved family: Lean's `run` with the interpretation `famDen` (at ℂ: `Fam.famInterp`,
    sound for every table, so `check p = linC` gives linearity of that very `run` with no hypothesis) is executed by the
    driver at complex floats and must reproduce the scico operator on a random input.  Also counts how many translated
    programs consist of family instances only ("proved outright") and which primitives keep the others outside."""
    import jaxpr_family as fam

    recs = [r for r in _STATE.get("records", []) if r.get("status") == "ok"]
    progs = {}
    for r in recs:
        if "in_family" in r and r["in_family"] is not None:
            progs.setdefault(r["phash"], r["in_family"])
    nin = sum(1 for v in progs.values() if v)
    views_in = sum(1 for r in recs if r.get("in_family"))
    ctx.count("programs-proved-outright", nin)
    ctx.count("programs-proved-given-primitive-table", len(progs) - nin)
    # no time budget (a verdict or a count must never depend on the load): the work is bounded by the size guard of
    # `run_program` (MAX_OUT / MAX_PROGRAM_TERMS, counted as unsupported:too-large) and by a fixed number of programs
    limit = FAMILY_PROGRAMS_THOROUGH if ctx.thorough else FAMILY_PROGRAMS_QUICK
    for n_run, e in enumerate(_STATE.get("fam_runs", [])):
        r, prog = e["rec"], e["prog"]
        if n_run >= limit:
            ctx.count("family-program-beyond-fixed-limit")
            continue
        prog.exec = e["exec"]
        case = {"cls": r["cls"], "config": r["config"], "view": r["view"]}
        try:
            got = fam.run_program(prog, e["x"], model, [(np.shape(t), np.asarray(t).dtype) for t in e["ref"]])
        except fam.Unsupported as ex:
            ctx.count("family-program-unsupported:" + str(ex).split(" ")[0])
            prog.exec = None
            continue
        except Exception as ex:  # noqa: BLE001  (table builder / driver met something it does not model: counted, never a crash)
            ctx.count("family-program-unsupported:exception-" + type(ex).__name__)
            prog.exec = None
            continue
        prog.exec = None
        d = _lin_defect(got, e["ref"])
        ctx.count("family-program-run:" + ("<=10" if len(prog.eqns) <= 10 else "<=40" if len(prog.eqns) <= 40 else "<=100" if len(prog.eqns) <= 100 else ">100") + "-eqns")
        ctx.case({"family_program": f"{r['cls']}.{r['view']}", "neqns": len(prog.eqns), "defect": d}, ("famrun",) + _key(r), sample_every=13)
        if not d <= 8 * e["tol"]:
            ctx.disagree("jaxpr.family.program", case, f"defect {d}", "run famInterp == operator",
                         note="Lean's run of the translated program under the proved family interpretation differs from the operator")
    _STATE["fam_runs"] = []
    ctx.extra["proved_outright"] = {
        "distinct_programs": len(progs), "programs_all_equations_in_proved_family": nin, "programs_needing_the_primitive_table": len(progs) - nin,
        "operator_views_proved_outright": views_in, "operator_views_total": len(recs),
        "whole_programs_run_in_lean_against_the_operator": sum(v for k, v in ctx.hist.items() if k.startswith("family-program-run:")),
        "primitives_outside_the_family": {k.split(":", 1)[1]: v for k, v in ctx.hist.items() if k.startswith("outside-proved-family:")},
    }


def _family_tie(ctx, model):
    """8. JAX primitive instance == Lean `applyDescG rows` (the sparse-matrix family PROVED linear in
    Proofs/JaxprArray.lean), rows built from the static parameters by harness/jaxpr_family.py; exact comparison on
    dyadic operands.  Coverage instances + the instances of the operator programs of this run."""
    import jaxpr_family as fam
    import jaxpr_table as tb

    rng = ctx.rng
    seen = set()
    todo = [("coverage", lab, i) for lab, i in tb.coverage_instances()[0] if i["cls"] in tb.LINEAR_CLASSES]
    insitu = [i for i in _STATE.get("instances", {}).values() if i["cls"] in tb.LINEAR_CLASSES]
    order = rng.permutation(len(insitu)).tolist() if insitu else []
    todo += [("insitu", insitu[k].get("user", "?"), insitu[k]) for k in order]
    limit = FAMILY_THOROUGH if ctx.thorough else FAMILY_QUICK
    done = 0
    for source, label, inst in todo:
        sig = tb.signature(inst)
        if sig in seen:
            continue
        seen.add(sig)
        if source == "insitu" and done >= limit:
            break
        try:
            st, d = fam.compare(inst, rng, model) if inst["cls"] == ir.LINALL else fam.compare_any(inst, rng, model)
        except Exception as e:  # noqa: BLE001  (descriptor builder met parameters it does not model: outside this stream, counted)
            st, d = "unsupported:exception-" + type(e).__name__, None
        name = inst["name"].split("#")[0]
        if st == "ok":
            ctx.count(f"family-tie-ok:{name}")
            if source == "insitu":
                done += 1
        else:
            ctx.count(f"family-tie-{st}" + (f":{name}" if st.startswith("unsupported") else ""))
        ctx.case({"family_tie": inst["name"], "source": source, "from": label, "result": st}, ("fam", repr(sig)) if st == "ok" else None, sample_every=31)
        if st == "mismatch":
            ctx.disagree("jaxpr.family.tie", {**tb.describe(inst), "from": label}, d, "applyDescG rows", note="the JAX primitive and the sparse-row descriptor built from its static parameters differ (descriptor builder or primitive semantics)")
    ctx.extra["family_tie"] = {"instances_equal_to_proved_family": sum(v for k, v in ctx.hist.items() if k.startswith("family-tie-ok:")),
                               "primitives": sorted(k.split(":", 1)[1] for k in ctx.hist if k.startswith("family-tie-ok:")),
                               "unsupported": {k.split(":", 2)[-1]: v for k, v in ctx.hist.items() if k.startswith("family-tie-unsupported")}}


def correspond(ctx, model):
    common.setup_scico()
    import warnings

    warnings.filterwarnings("ignore")
    import time

    oracle = oracle_for(ctx.rng)
    timing = ctx.extra.setdefault("timing_s", {})
    _default_precision_start(ctx)
    for name, fn in (("corpus", lambda: _corpus(ctx, oracle)), ("mirror_vs_lean", lambda: _mirror_vs_lean(ctx, model)),
                     ("probes", lambda: _probes(ctx, ctx.rng)), ("synthetic_scalar", lambda: _synthetic_scalar(ctx, model)),
                     ("synthetic_jax", lambda: _synthetic_jax(ctx, model)), ("table_validation", lambda: _table_validation(ctx)), ("fidelity", lambda: _fidelity(ctx)), ("family_tie", lambda: _family_tie(ctx, model)), ("family_programs", lambda: _family_programs(ctx, model)), ("calculus_kinds", lambda: _calculus_kinds(ctx, model)), ("default_precision", lambda: _default_precision_collect(ctx))):
        t = time.time()
        fn()
        timing[name] = round(time.time() - t, 1)


# ---------------------------------------------------------------------------------------------------------------
# known findings


def _crop_not_traceable():
    import jax
    import jax.numpy as jnp
    from scico import linop

    A = linop.Crop(((1, 2), (0, 1)), (4, 5), input_dtype=np.float64)
    try:
        jax.make_jaxpr(A.adj)(jnp.zeros(A.output_shape, A.output_dtype))
        return False
    except Exception as e:  # noqa: BLE001
        return type(e).__name__ == "TracerBoolConversionError"


def _pad_nonlinear():
    import jax.numpy as jnp
    from scico import linop

    A = linop.Pad((3,), input_dtype=np.float64, pad_width=1, constant_values=1.0)
    return bool(np.any(np.asarray(A(jnp.zeros((3,), np.float64))) != 0))


def _jacobian_affine():
    import jax.numpy as jnp
    from scico import linop
    from scico.operator import Operator

    F = Operator((3,), output_shape=(3,), eval_fn=lambda x: x * x + 1.0, input_dtype=np.float64, output_dtype=np.float64)
    J = linop.jacobian(F, jnp.asarray(np.array([1.0, 2.0, 3.0])), include_eval=True)
    y = J(jnp.zeros((3,), np.float64))
    return bool(any(np.any(np.asarray(b) != 0) for b in ops.unpack(y)))


def _sum_initial_affine():
    import jax.numpy as jnp
    from scico import linop

    A = linop.Sum((3,), input_dtype=np.float64, initial=1.0)
    return bool(np.any(np.asarray(A(jnp.zeros((3,), np.float64))) != 0))


def _circconv_real_output():
    import jax.numpy as jnp
    from scico import linop

    h = jnp.fft.fft(jnp.asarray(np.array([1.0, -0.5, 0.25])), n=4)
    A = linop.CircularConvolve(h, (4,), input_dtype=np.complex128, h_is_dft=True, output_dtype=np.float64)
    x = jnp.asarray(np.array([1.0, 2.0, 0.0, -1.0]) + 0j)
    return bool(np.max(np.abs(np.asarray(A(1j * x)) - 1j * np.asarray(A(x)))) > 1e-9)


def findings(ctx, model):
    common.setup_scico()
    for fid, fn in ((KNOWN_CROP, _crop_not_traceable), (KNOWN_PAD, _pad_nonlinear), (KNOWN_JAC, _jacobian_affine), (KNOWN_SUM, _sum_initial_affine), (KNOWN_CCRO, _circconv_real_output)):
        if ctx.is_known(fid):
            try:
                still = fn()
            except Exception:  # noqa: BLE001
                still = False
            ctx.known_finding(fid, still)


# ---------------------------------------------------------------------------------------------------------------
# search / replay


def search(ctx, model, why):
    common.setup_scico()
    records = _STATE.get("records", [])
    index = _STATE.get("index", {})
    oracle = oracle_for(ctx.rng)
    todo = []
    if why is not None and why.get("module", "").endswith("JaxprClasses"):
        ctx.count("search:class-table-obligation-has-no-input")
        return None  # a class of the source outside the enumeration: there is no operator to probe yet
    if why is not None:
        for en in index.get(why["module"], []):
            if en["kind"] == "failure":
                r = en["record"]
                if r.get("config") is not None:
                    todo.append(r)
                if r["status"] in ("build-error", "not-constructible"):
                    # probe the forward maps of (other) configurations of that class as well
                    todo += [q for q in records if q["cls"] == r["cls"] and q.get("config") is not None and q["status"] == "build-error"][:6]
            elif not en["ok"]:
                todo += [records[i] for i in en["users"]]
        if not todo:  # the module failed although the mirror accepted everything: probe all its programs
            for en in index.get(why["module"], []):
                if en["kind"] == "program":
                    todo += [records[i] for i in en["users"]]
    else:
        # thorough: unconditional adversarial search over a seeded subset of all operator views
        ok = [r for r in records if r.get("status") == "ok"]
        k = min(len(ok), 400)
        sel = sorted(ctx.rng.choice(len(ok), size=k, replace=False).tolist()) if ok else []
        todo = [ok[i] for i in sel]
    seen = set()
    for r in todo:
        key = json.dumps([r["cls"], r["config"], r["view"]], sort_keys=True, default=str)
        if key in seen or r.get("view") is None:
            continue
        seen.add(key)
        ctx.count("search-probed-views")
        bad = oracle({"cls": r["cls"], "config": r["config"], "view": r["view"]})
        if bad is not None and "raised" not in bad:
            bad["checker"] = r.get("tag", r.get("status"))
            return bad
    return None


def replay(ctx, model, case):
    common.setup_scico()
    c = case.get("failing") or case.get("case") or case
    oracle = oracle_for(ctx.rng)
    if "x" in c and "cls" in c:
        # re-evaluate exactly the recorded input
        A, fn, shp, dt = _view_fn(c["cls"], c["config"], c["view"])

        def dec(ls):
            return [(np.asarray(l["re"]) + (1j * np.asarray(l["im"]) if l["im"] is not None else 0)).reshape(l["shape"]).astype(dt) for l in ls]

        x, y = dec(c["x"]), dec(c["y"])
        a, b = complex(*c["a"]), complex(*c["b"])
        if a.imag == 0 and b.imag == 0:
            a, b = a.real, b.real
        if c.get("mode") in ("inplace", "history"):
            bad, _ = _inplace_sequence(fn, shp, dt, x, y, a, b, _tol(dt))
            if bad is None and c.get("mode") == "history":
                bad = _long_history(fn, shp, dt, ctx.rng, x, y, a, b, _tol(dt))
            print("replay:", "property FAILS on implementation (reused buffer)" if bad else "no failure at this input", (bad or {}).get("what"))
            if bad:
                ctx.violation({"kind": "failing-input", "failing": c}, True, "replay")
            return
        z = [(a * p + b * q).astype(dt) for p, q in zip(x, y)]
        lhs = _apply(fn, shp, z)
        rhs = [a * p + b * q for p, q in zip(_apply(fn, shp, x), _apply(fn, shp, y))]
        d = _lin_defect(lhs, rhs, nan_ok=(c.get("mode") == "nan"), relative=(c.get("mode") in ("tiny", "small")))
        fails = d > 8 * _tol(dt)
        print("replay:", "property FAILS on implementation" if fails else "no failure at this input", {"defect": d})
        if fails:
            ctx.violation({"kind": "failing-input", "failing": c}, True, "replay")
        return
    r = oracle(c)
    print("replay:", "property FAILS on implementation:" if r else "no failure found", (r or {}).get("what"))
    if r:
        ctx.violation({"kind": "failing-input", "case": c, "failing": r}, True, "replay")
