"""dtype / shape layer of the Adjoint engine (property C01): "applying the adjoint never fails for a conforming input".

Tie of `lean/Scico/Model/AdjointTy.lean` (guards of LinearOperator.adj / MatrixOperator.adj / Operator.__call__, declared
metadata of every derived constructor, type transformers of the closures they build) with the real code:

  * random TYPED derivation trees over real leaf operators with arbitrary combinations of input/output dtypes
    (float32/float64/complex64/complex128, real->complex, complex->real, 32->64 bit), array and BlockArray shapes,
    weak (Python) and strong (NumPy/JAX) scalar factors, stacks with both collapse flags, replication axes;
  * the leaves are MEASURED (result type or error kind of `leaf(x)` for x of every dtype, of `leaf.adj(y)`), the tree
    is sent to the Lean driver (op `types`), which returns what the model says scico declares (`input_shape`,
    `output_shape`, `input_dtype`, `output_dtype`), whether the construction is accepted (`wfT`), whether it is free of
    mixed-dtype sums (`homog`), and the result type / error kind of `D(x)` and `D.adj(y)` for probes x, y of every dtype
    at the declared and at a wrong shape;
  * the same is observed on the real derived operator and compared exactly;
  * instance of theorem `C01_adj_total` on the real code: accepted & homogeneous & leaves faithful  ==>  `D.adj(y)`
    returns an array of the declared input dtype and shape for the conforming y, and `D.adj(D(x))` does not raise.
"""

from __future__ import annotations

import warnings

import numpy as np

import common
from adjoint_dense import dtype_of, is_nested, norm_shape, shape_of

DTN = ["float32", "float64", "complex64", "complex128"]

KNOWN_STACK = "stack-dtype-check-noop"
KNOWN_T = "linop-T-complex-dtypes"

ARR_SHAPES = [(2,), (3,), (2, 2), (1, 3), (2, 3), (3, 2), (2, 1, 2)]
BLK_SHAPES = [((2,), (3,)), ((2,), (2,)), ((1, 2), (2,)), ((3,), (3,), (3,))]


# ----------------------------------------------------------------------------------------------------------
# wire forms


def shp_wire(shape):
    shape = norm_shape(shape)
    if is_nested(shape):
        return {"blk": [list(b) for b in shape]}
    return {"arr": list(shape)}


def ty_wire(dt, shape):
    return {"dt": str(np.dtype(dt)), "sh": shp_wire(shape)}


def make(dt, shape):
    import scico.numpy as snp

    return snp.ones(norm_shape(shape), dtype=np.dtype(dt))


def observe(fn, x):
    """result type of fn(x) or the kind of the exception, in the wire form of the model's `R`"""
    with warnings.catch_warnings():
        warnings.simplefilter("ignore")
        try:
            v = fn(x)
            dt = dtype_of(v)
            if isinstance(dt, tuple):
                return {"err": "other"}
            return {"ok": ty_wire(dt, shape_of(v))}
        except Exception as e:  # noqa: BLE001
            k = common.err_kind(e)
            return {"err": k if k in ("dtype", "shape") else "other"}


def guard_of(op):
    from scico.linop import LinearOperator

    return type(op).adj is LinearOperator.adj


def leaf_wire(op):
    """declared metadata and measured type transformers of a real operator used as a leaf"""
    ish, osh = norm_shape(op.input_shape), norm_shape(op.output_shape)
    g = guard_of(op)
    ev = [{"x": ty_wire(dt, ish), "r": observe(op, make(dt, ish))} for dt in DTN]
    ydts = [str(np.dtype(op.output_dtype))] if g else DTN
    ad = [{"x": ty_wire(dt, osh), "r": observe(op.adj, make(dt, osh))} for dt in ydts]
    return {"ish": shp_wire(ish), "osh": shp_wire(osh), "idt": str(np.dtype(op.input_dtype)), "odt": str(np.dtype(op.output_dtype)),
            "guard": g, "eval": ev, "adj": ad}


def faithful(w):
    """the hypothesis `Faithful` of the theorem, on a measured leaf"""
    e = [t["r"] for t in w["eval"] if t["x"]["dt"] == w["idt"]]
    a = [t["r"] for t in w["adj"] if t["x"]["dt"] == w["odt"]]
    return (e and e[0] == {"ok": {"dt": w["odt"], "sh": w["osh"]}}) and (a and a[0] == {"ok": {"dt": w["idt"], "sh": w["ish"]}})


# ----------------------------------------------------------------------------------------------------------
# leaves


def flat_size(shape):
    shape = norm_shape(shape)
    if is_nested(shape):
        return sum(flat_size(s) for s in shape)
    return int(np.prod(shape, dtype=np.int64)) if len(shape) else 1


def build_leaf(cfg):
    import jax.numpy as jnp
    import scico.numpy as snp
    from scico.linop import LinearOperator, MatrixOperator

    rng = np.random.Generator(np.random.PCG64(cfg["seed"]))
    ish, osh = norm_shape(cfg["ish"]), norm_shape(cfg["osh"])
    idt, odt = np.dtype(cfg["idt"]), np.dtype(cfg["odt"])
    n, m = flat_size(ish), flat_size(osh)
    M = common.dyadic(rng, (m, n)).astype(np.float64)
    if odt.kind == "c":
        M = M + 1j * common.dyadic(rng, (m, n))
    if cfg["cls"] == "MatrixOperator":
        return MatrixOperator(jnp.asarray(M, dtype=idt))
    Mj = jnp.asarray(M)

    def ev(x):
        v = jnp.concatenate([b.ravel() for b in x]) if is_nested(ish) else x.ravel()
        r = Mj @ v
        if odt.kind != "c":
            r = r.real
        r = r.astype(odt)
        if is_nested(osh):
            out, k = [], 0
            for s in osh:
                sz = flat_size(s)
                out.append(r[k : k + sz].reshape(s))
                k += sz
            return snp.blockarray(out)
        return r.reshape(osh)

    return LinearOperator(input_shape=ish, output_shape=osh, eval_fn=ev, input_dtype=idt, output_dtype=odt, jit=False)


# ----------------------------------------------------------------------------------------------------------
# trees


class Node:
    """a typed tree node together with the real operator (or the construction error)"""

    def __init__(self, tree, op, err=None, is_mat=False):
        self.tree, self.op, self.err, self.is_mat = tree, op, err, is_mat


def scalar_of(sk):
    import jax.numpy as jnp

    return {
        "wreal": lambda: 1.5,
        "wcplx": lambda: complex(0.5, -2.0),
        "float32": lambda: np.float32(1.5),
        "float64": lambda: np.float64(-0.5),
        "complex64": lambda: np.complex64(1 + 2j),
        "complex128": lambda: np.complex128(0.5 - 1j),
        "jfloat32": lambda: jnp.float32(2.0),
        "jcomplex64": lambda: jnp.asarray(1 + 0.5j, dtype=np.complex64),
    }[sk]()


SKS = ["wreal", "wreal", "wcplx", "wcplx", "float32", "float64", "complex64", "complex128", "jfloat32", "jcomplex64"]


def sk_wire(sk):
    return sk[1:] if sk.startswith("j") else sk


class Gen:
    def __init__(self, rng, mix):
        self.rng = rng
        self.mix = mix  # probability of NOT following the dtype hint
        self.leaves = []  # leaf configs
        self.ops = []  # real leaf operators
        self.nodes = []  # every internal Node, children before parents

    def pick(self, seq):
        return seq[int(self.rng.integers(len(seq)))]

    def dt(self, hint):
        if hint is not None and self.rng.random() >= self.mix:
            return hint
        return self.pick(DTN)

    def leaf(self, ish, osh, idt, odt, allow_mat):
        rng = self.rng
        idt, odt = self.dt(idt), self.dt(odt)
        cls = "Generic"
        if allow_mat and not is_nested(ish) and not is_nested(osh) and len(ish) == 1 and len(osh) == 1 and idt == odt and rng.random() < 0.35:
            cls = "MatrixOperator"
        cfg = {"cls": cls, "ish": _l(ish), "osh": _l(osh), "idt": idt, "odt": odt, "seed": int(rng.integers(1 << 30))}
        with warnings.catch_warnings():
            warnings.simplefilter("ignore")
            op = build_leaf(cfg)
        self.leaves.append(cfg)
        self.ops.append(op)
        return Node({"k": "leaf", "i": len(self.leaves) - 1}, op, is_mat=(cls == "MatrixOperator"))

    def shape(self, nested_ok=True):
        if nested_ok and self.rng.random() < 0.2:
            return self.pick(BLK_SHAPES)
        return self.pick(ARR_SHAPES)

    def gen(self, depth, ish, osh, idt=None, odt=None, allow_mat=False):
        rng = self.rng
        if depth <= 0 or len(self.leaves) >= 7:
            return self.leaf(ish, osh, idt, odt, allow_mat)
        opts = ["leaf", "add", "sub", "neg", "smul", "smul", "sdiv", "comp", "comp", "T", "H", "conj"]
        if ish == osh:
            opts += ["gram", "gram"]
        vs = self._vstack_plan(osh)
        if vs and not is_nested(ish):
            opts += ["vstack", "vstack"]
        ds = self._dstack_plan(ish, osh)
        if ds:
            opts += ["dstack", "dstack"]
        dr = self._drep_plan(ish, osh)
        if dr:
            opts += ["drep"]
        f = self.pick(opts)
        d = depth - 1
        if f == "leaf":
            return self.leaf(ish, osh, idt, odt, allow_mat)
        if f in ("add", "sub"):
            a = self.gen(d, ish, osh, idt, odt, allow_mat=True)
            # the partner mostly on the same dtypes as `a` really declares (so that deep conforming trees occur)
            ai, ao = _decl(a, idt, odt)
            # malformed: the partner lives on a space of the same SIZE but another shape tuple (scico compares tuples;
            # a model that compared flat sizes would accept)
            ish_b, osh_b = ish, osh
            if rng.random() < 0.08:
                ish_b, osh_b = _reshaped(ish), _reshaped(osh)
            # no MatrixOperator on the right: Python gives a subclass's reflected method precedence, so `G + M` / `G - M`
            # are evaluated as `M.__radd__(G)` / `M.__rsub__(G)` = `M + G` / `(-M) + G` (class-specific, metadata of M)
            b = self.gen(d, ish_b, osh_b, ai, ao, allow_mat=False)
            return self.combine({"k": f}, [a, b])
        if f == "neg":
            return self.combine({"k": "neg"}, [self.gen(d, ish, osh, idt, odt)])
        if f in ("smul", "sdiv"):
            sk = self.pick(SKS)
            return self.combine({"k": f, "sk": sk_wire(sk), "pysk": sk, "side": int(rng.integers(2))}, [self.gen(d, ish, osh, idt, odt)])
        if f == "comp":
            mid = self.shape()
            b = self.gen(d, ish, mid, idt, None, allow_mat=True)
            bi, bo = _decl(b, idt, None)
            a = self.gen(d, _reshaped(mid) if rng.random() < 0.08 else mid, osh, bo, odt)
            return self.combine({"k": "comp"}, [a, b])
        if f in ("T", "H"):
            return self.combine({"k": f}, [self.gen(d, osh, ish, odt, idt)])
        if f == "conj":
            return self.combine({"k": "conj"}, [self.gen(d, ish, osh, idt, odt)])
        if f == "gram":
            return self.combine({"k": "gram"}, [self.gen(d, ish, self.shape(), idt, None)])
        if f == "vstack":
            parts, co = vs
            ch = []
            hi, ho = idt, odt
            for p in parts:
                c = self.gen(d, ish, p, hi, ho, allow_mat=True)
                ch.append(c)
                hi, ho = _decl(c, hi, ho)
            return self.combine({"k": "vstack", "co": co}, ch)
        if f == "dstack":
            ip, op_, ci, co = ds
            ch = []
            hi, ho = idt, odt
            for a_, b_ in zip(ip, op_):
                c = self.gen(d, a_, b_, hi, ho, allow_mat=True)
                ch.append(c)
                hi, ho = _decl(c, hi, ho)
            return self.combine({"k": "dstack", "ci": ci, "co": co}, ch)
        if f == "drep":
            k, ia, oa, si, so = dr
            return self.combine({"k": "drep", "rep": k, "ia": ia, "oa": oa}, [self.gen(d, si, so, idt, odt, allow_mat=True)])
        raise KeyError(f)

    def _vstack_plan(self, osh):
        if is_nested(osh):
            eq = all(tuple(b) == tuple(osh[0]) for b in osh)
            return [tuple(b) for b in osh], (False if eq else bool(self.rng.integers(2)))
        if len(osh) >= 2 and osh[0] <= 3:
            return [tuple(osh[1:])] * osh[0], True
        return None

    def _split(self, sh):
        """(parts, collapse flag) of a stack whose declared shape is `sh`"""
        if is_nested(sh):
            eq = all(tuple(b) == tuple(sh[0]) for b in sh)
            return [tuple(b) for b in sh], (False if eq else bool(self.rng.integers(2)))
        if len(sh) >= 2 and sh[0] <= 3:
            return [tuple(sh[1:])] * sh[0], True
        return None

    def _dstack_plan(self, ish, osh):
        a, b = self._split(ish), self._split(osh)
        if a is None or b is None or len(a[0]) != len(b[0]):
            return None
        return a[0], b[0], a[1], b[1]

    def _drep_plan(self, ish, osh):
        if is_nested(ish) or is_nested(osh) or len(ish) < 2 or len(osh) < 2:
            return None
        ks = [(ia, oa) for ia in range(len(ish)) for oa in range(len(osh)) if ish[ia] == osh[oa] and 2 <= ish[ia] <= 3]
        if not ks:
            return None
        ia, oa = self.pick(ks)
        return int(ish[ia]), ia, oa, tuple(ish[:ia]) + tuple(ish[ia + 1 :]), tuple(osh[:oa]) + tuple(osh[oa + 1 :])

    def combine(self, node, ch):
        """apply ONE construction of scico to the real operands"""
        from scico import linop

        tree = dict(node)
        if node["k"] in ("vstack", "dstack"):
            tree["ops"] = [c.tree for c in ch]
        else:
            for key, c in zip(("a", "b"), ch):
                tree[key] = c.tree
        if any(c.op is None for c in ch):
            return self._reg(Node(tree, None, err="operand-rejected"))
        k = node["k"]
        with warnings.catch_warnings():
            warnings.simplefilter("ignore")
            try:
                A = ch[0].op
                if k == "add":
                    op = A + ch[1].op
                elif k == "sub":
                    op = A - ch[1].op
                elif k == "neg":
                    op = -A
                elif k == "smul":
                    c = scalar_of(node["pysk"])
                    op = c * A if node["side"] == 0 else A * c
                elif k == "sdiv":
                    op = A / scalar_of(node["pysk"])
                elif k == "comp":
                    op = A @ ch[1].op
                elif k == "T":
                    op = A.T
                elif k == "H":
                    op = A.H
                elif k == "conj":
                    op = A.conj()
                elif k == "gram":
                    op = A.gram_op
                elif k == "vstack":
                    op = linop.VerticalStack([c.op for c in ch], collapse_output=node["co"], jit=False)
                elif k == "dstack":
                    op = linop.DiagonalStack([c.op for c in ch], collapse_input=node["ci"], collapse_output=node["co"], jit=False)
                elif k == "drep":
                    op = linop.DiagonalReplicated(A, node["rep"], input_axis=node["ia"], output_axis=node["oa"], map_type="vmap")
                else:
                    raise KeyError(k)
            except Exception as e:  # noqa: BLE001
                return self._reg(Node(tree, None, err=common.err_kind(e)))
        nd = Node(tree, op)
        nd.children = ch
        return self._reg(nd)

    def _reg(self, nd):
        self.nodes.append(nd)
        return nd


def _reshaped(sh):
    """another shape of the same flat size (reversed dims / flattened / split into blocks)"""
    sh = norm_shape(sh)
    if is_nested(sh):
        return (flat_size(sh),)
    if len(sh) >= 2 and tuple(reversed(sh)) != tuple(sh):
        return tuple(reversed(sh))
    if len(sh) >= 2:
        return (flat_size(sh),)
    return (1, sh[0])


def _decl(node, hi, ho):
    if node.op is None:
        return hi, ho
    return str(np.dtype(node.op.input_dtype)), str(np.dtype(node.op.output_dtype))


def _l(s):
    s = norm_shape(s)
    return [list(b) for b in s] if is_nested(s) else list(s)


def wire_tree(t):
    out = {}
    for k, v in t.items():
        if k in ("pysk", "side"):
            continue
        if k in ("a", "b"):
            out[k] = wire_tree(v)
        elif k == "ops":
            out[k] = [wire_tree(x) for x in v]
        else:
            out[k] = v
    return out


def subtrees(t):
    yield t
    for k in ("a", "b"):
        if k in t:
            yield from subtrees(t[k])
    for x in t.get("ops", []):
        yield from subtrees(x)


def rebuild(tree, ops):
    """real operator of a (sub)tree from the real leaves (replay)"""
    g = Gen(None, 0.0)
    if tree["k"] == "leaf":
        return Node(tree, ops[tree["i"]])
    ch = [rebuild(c, ops) for c in ([tree[k] for k in ("a", "b") if k in tree] + list(tree.get("ops", [])))]
    node = {k: v for k, v in tree.items() if k not in ("a", "b", "ops")}
    return g.combine(node, ch)


# ----------------------------------------------------------------------------------------------------------
# comparison


WRONG = (7,)


def probes(ish, osh, idt):
    """inputs of `D(x)`: the conforming x and two arrays of a wrong shape (what `D(x)` does for an x of another dtype is
    not part of the property and is not compared: there is no dtype test in `Operator.__call__`);
    inputs of `D.adj(y)`: y of EVERY dtype at the declared shape (the guard must reject all but one) and at a wrong shape"""
    px = [(idt, ish)] + [(dt, WRONG) for dt in ("float64", "complex128")]
    py = [(dt, osh) for dt in DTN] + [(dt, WRONG) for dt in ("float64", "complex128")]
    return px, py


def observe_operator(op):
    ish, osh = norm_shape(op.input_shape), norm_shape(op.output_shape)
    px, py = probes(ish, osh, str(np.dtype(op.input_dtype)))
    return {
        "ish": shp_wire(ish), "osh": shp_wire(osh), "idt": str(np.dtype(op.input_dtype)), "odt": str(np.dtype(op.output_dtype)),
        "call": [observe(op, make(dt, sh)) for dt, sh in px],
        "adj": [observe(op.adj, make(dt, sh)) for dt, sh in py],
    }


def model_reply(model, leaves_w, tree, coded, px, py):
    return model.call("types", leaves=leaves_w, tree=wire_tree(tree), coded=bool(coded),
                      probe_x=[ty_wire(dt, sh) for dt, sh in px], probe_y=[ty_wire(dt, sh) for dt, sh in py])


def mixed_stack(nd):
    """a stack whose operands declare different dtypes (scico's `check_if_stackable` means to reject these, but its
    test `np.all(<generator>)` is always true; DiagonalStack does not look at the input dtypes at all)"""
    if nd.tree["k"] not in ("vstack", "dstack") or nd.op is None:
        return False
    ch = getattr(nd, "children", [])
    return len({(str(np.dtype(c.op.input_dtype)), str(np.dtype(c.op.output_dtype))) for c in ch}) > 1


def total_oracle(case):
    """property oracle on the real code: for the tree of the case, `D.adj(y)` for the conforming y (declared output
    dtype and shape) and `D.adj(D(x))` must not raise; returns the failing input or None"""
    common.setup_scico()
    with warnings.catch_warnings():
        warnings.simplefilter("ignore")
        ops = [build_leaf(c) for c in case["leaves"]]
        nd = rebuild(case["tree"], ops)
        if nd.op is None:
            return None
        D = nd.op
        y = make(D.output_dtype, D.output_shape)
        try:
            r = D.adj(y)
        except Exception as e:  # noqa: BLE001
            return {"y_dtype": str(np.dtype(D.output_dtype)), "y_shape": str(D.output_shape), "adj_raised": repr(e)[:300]}
        if np.dtype(dtype_of(r)) != np.dtype(D.input_dtype) or norm_shape(shape_of(r)) != norm_shape(D.input_shape):
            return {"y_dtype": str(np.dtype(D.output_dtype)), "adj_returns": [str(dtype_of(r)), str(shape_of(r))],
                    "declared_input": [str(np.dtype(D.input_dtype)), str(D.input_shape)]}
        try:
            D.adj(D(make(D.input_dtype, D.input_shape)))
        except Exception as e:  # noqa: BLE001
            return {"x_dtype": str(np.dtype(D.input_dtype)), "adj_of_eval_raised": repr(e)[:300]}
    return None
