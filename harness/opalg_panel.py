"""Targeted failing-input search after a broken generated obligation of engine OpAlg (round 5).

`opalg_translate.diff_against_model()` names the table rows of the working tree that differ from the model's tables.  For each
differing row a PANEL of expressions exercising exactly that class / method / wrapper is built (every operand class and
dtype regime incl. real->complex operands and 32-bit dtypes, broadcasting diagonals, block shapes) and the property oracle is
evaluated on the implementation alone.  A behaviour-changing edit is thus reported WITH a failing input; only a
behaviour-preserving one ends as `no-failing-input-found`."""

from __future__ import annotations

import re

import numpy as np

import opalg_gen as G
import opalg_trees as T

TAG_LEAVES = {"op": ["nonlin"], "linop": ["lin", "linauto"], "composed": ["composed"], "diag": ["diag", "bdiag", "bdiagNS"],
              "scaledId": ["sid"], "ident": ["ident"], "matrix": ["mat"]}
METH_NODES = {"__add__": ["add"], "__sub__": ["sub"], "__radd__": ["add"], "__rsub__": ["sub"], "__mul__": ["smulL", "smulR"], "__rmul__": ["smulL"],
              "__truediv__": ["sdiv"], "__rtruediv__": ["rdiv"], "__neg__": ["neg"], "__matmul__": ["matmul"], "__rmatmul__": ["matmul"],
              "__call__": ["comp", "matmul"], "adj": ["H", "gram"], "_adj": ["H", "gram"], "T": ["T"], "H": ["H"], "conj": ["conj"], "gram_op": ["gram"],
              "__init__": ["neg", "T", "H", "conj", "gram"], "_eval": ["neg"]}
WRAPPER_NODES = {"_wrap_add_sub": ["add", "sub"], "_wrap_add_sub_matrix": ["add", "sub"], "_wrap_mul_div_scalar": ["smulL", "smulR", "sdiv"]}
DTS = ["float64", "complex128", "float32", "complex64"]


def targets(rows):
    """(tags, node kinds, extra streams) named by the differing rows"""
    tags, nodes, streams = set(), set(), set()
    for r in rows:
        m = re.match(r'⟨"(\w+)", "(\w+)", (\d+), ', r)  # constructor row
        c = re.match(r'⟨"(\w+)", "(\w+)", \[', r)  # class row
        w = re.match(r'\("(_wrap\w+)", ', r)
        if m:
            tag, meth = m.group(1), m.group(2)
            tags.add(tag)
            nodes.update(METH_NODES.get(meth, []))
        elif c:
            tags.add(c.group(1))
            nodes.update(n for v in METH_NODES.values() for n in v)
        elif w:
            tags.update(TAG_LEAVES if w.group(1) != "_wrap_add_sub_matrix" else ["matrix"])
            nodes.update(WRAPPER_NODES[w.group(1)])
        else:
            tags.update(TAG_LEAVES)
            nodes.update(["add", "sub", "smulL", "sdiv", "matmul", "comp", "T", "H", "conj", "gram"])
    for t in list(tags):
        if t in ("convolve", "circconv"):
            streams.add("conv")
        if t in ("vstack", "dstack", "drep", "opvstack", "opdstack", "opdrep"):
            streams.add("stacks")
        if t == "op":
            streams.add("freeze")
    return tags, nodes, streams


def _operand(rng, cls, insh, outsh, dt, variant):
    e = T.leaf(rng, cls, insh, outsh, lambda: dt)
    if e is None:
        return None
    if variant == "R->C" and e["t"] == "lin":
        e["indt"], e["gdt"] = ("float64", "complex128") if G.is_cplx(dt) or True else (dt, dt)
    if variant == "explicit-indt" and e["t"] == "diag":
        e["indt"] = "complex128" if not G.is_cplx(dt) else "float64"
    return e


def panel(rng, tags, nodes):
    """expressions exercising the named classes under the named nodes"""
    sq = [3]
    out = []
    leaves = [c for t in tags for c in TAG_LEAVES.get(t, [])]
    if not leaves:
        return out
    shapes = [(sq, sq), ([2, 3], [2, 3]), ([1, 3], [2, 3]), ([[2], [1]], [[2], [1]]), ([2], [3])]
    scal_kinds = [("float", None), ("complex", None), ("int", None), ("np", "float32"), ("np", "complex128"), ("jx", "float64"), ("jx", "complex64")]
    for ca in leaves:
        for dt in DTS:
            for variant in ("plain", "R->C", "explicit-indt"):
                for insh, outsh in shapes:
                    a = _operand(rng, ca, insh, outsh, dt, variant)
                    if a is None or (variant == "R->C" and a["t"] != "lin") or (variant == "explicit-indt" and a["t"] != "diag"):
                        continue
                    for nd in sorted(nodes):
                        if nd in ("neg", "T", "H", "conj", "gram"):
                            out.append({"t": nd, "a": a})
                            out.append({"t": nd, "a": {"t": "conj", "a": a}})
                        elif nd in ("smulL", "smulR", "sdiv", "rdiv"):
                            for k, kd in scal_kinds:
                                out.append({"t": nd, "a": a, "c": T.scalar(rng, kind=k, dt=kd)})
                        elif nd in ("add", "sub", "matmul", "comp"):
                            if variant != "plain" and nd in ("add", "sub"):
                                continue  # (operands of different dtypes in a generic sum carry the recorded findings)
                            for cb in T.CLASSES:
                                dtb = dt
                                if nd in ("add", "sub"):
                                    b = T.leaf(rng, cb, insh, outsh, lambda: dtb)
                                    if b is not None:
                                        out.append({"t": nd, "a": a, "b": b})
                                        out.append({"t": nd, "a": b, "b": a})
                                    continue
                                # a as left factor: right factors X -> insh (square and broadcasting / non-square ones)
                                for X in [insh] + ([[1, 3]] if insh == [2, 3] else []) + ([[2]] if insh == [3] else []):
                                    b = T.leaf(rng, cb, X, insh, lambda: dtb)
                                    if b is not None:
                                        out.append({"t": nd, "a": a, "b": b})
                                # a as right factor: left factors outsh -> Y
                                for Y in [outsh] + ([[2]] if outsh == [3] else []):
                                    l_ = T.leaf(rng, cb, outsh, Y, lambda: dtb)
                                    if l_ is not None:
                                        out.append({"t": nd, "a": l_, "b": a})
    return out


def search(ctx, env, keys=None):
    """returns a failing input (dict) of the property on the implementation, or None"""
    import opalg_stacks as S
    import opalg_translate

    rows = opalg_translate.diff_against_model()
    tags, nodes, streams = targets(rows)
    ctx.extra["targeted_panel"] = {"rows": [r[:160] for r in rows[:8]], "classes": sorted(tags), "nodes": sorted(nodes), "streams": sorted(streams)}
    orc = G.oracle(env)
    cases = panel(ctx.rng, tags, nodes)
    ctx.count("targeted-panel:cases", len(cases))
    for e in cases:
        try:
            r = orc({"e": e})
        except Exception:  # noqa: BLE001
            continue
        if r and keys is not None:
            r = {k: v for k, v in r.items() if k in keys or k.startswith("view_")}
        if r:
            return {"e": e, "skeleton": G.skeleton(e)[:300], "failing": r, "differing_rows": [x[:200] for x in rows[:4]]}
    if streams:
        parts = tuple(p for p in ("stacks", "freeze", "circ", "conv") if p in streams or (p == "circ" and "conv" in streams))
        for name, key, fail in S.cases(env, ctx.rng, True, parts=parts):
            if fail and not fail.get("known_id"):
                return {"case": name, "failing": {k: v for k, v in fail.items()}, "differing_rows": [x[:200] for x in rows[:4]]}
        if "stacks" in streams:
            so = S.stack_oracle(env)
            for _ in range(300):
                c = S.gen_stack_case(ctx.rng, True)
                r = so(c)
                if r:
                    return {"stack": {k: c[k] for k in ("kind", "lin", "cin", "cout")}, "operands": [G.skeleton(e)[:120] for e in c["es"]], "failing": r,
                            "differing_rows": [x[:200] for x in rows[:4]]}
    return None
